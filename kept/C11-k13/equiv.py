import asyncio
import importlib
import inspect
import os
import sys
import tempfile
import warnings

import grpclib
from grpclib.const import Cardinality, Status
from grpclib.events import RecvRequest, listen
from grpclib.testing import ChannelFor
from grpc_tools import protoc

import betterproto
import betterproto.plugin.compiler as plugin_compiler
from betterproto.lib.google.protobuf import FileDescriptorSet
from betterproto.lib.google.protobuf.compiler import CodeGeneratorRequest
from betterproto.plugin.parser import generate_code

# `ruff` is not installed: the two formatting passes become the identity
plugin_compiler.subprocess.check_output = lambda cmd, input, encoding: input

_counter = [0]


def generate(protos, parameter=""):
    """Run the betterproto plugin in-process on {filename: proto text}.

    Returns (root package name, {generated file name: content})."""
    _counter[0] += 1
    root = f"c11gen{_counter[0]}"
    tmp = tempfile.mkdtemp(prefix="c11_")
    src = os.path.join(tmp, "src")
    for name, text in protos.items():
        path = os.path.join(src, name)
        os.makedirs(os.path.dirname(path), exist_ok=True)
        with open(path, "w") as f:
            f.write(text)
    ds = os.path.join(tmp, "ds.bin")
    inc = os.path.join(os.path.dirname(protoc.__file__), "_proto")
    rc = protoc.main(
        ["protoc", f"-I{src}", f"-I{inc}", "--include_imports",
         "--include_source_info", f"--descriptor_set_out={ds}", *protos]
    )
    assert rc == 0, "protoc failed"
    with open(ds, "rb") as f:
        fds = FileDescriptorSet().parse(f.read())
    request = CodeGeneratorRequest(
        file_to_generate=list(protos), parameter=parameter, proto_file=fds.file
    )
    old_stderr = sys.stderr
    sys.stderr = open(os.devnull, "w")
    try:
        response = generate_code(request)
    finally:
        sys.stderr.close()
        sys.stderr = old_stderr
    out = os.path.join(tmp, "out", root)
    os.makedirs(out)
    open(os.path.join(out, "__init__.py"), "w").close()
    files = {}
    for f in response.file:
        files[f.name] = f.content or ""
        path = os.path.join(out, f.name)
        os.makedirs(os.path.dirname(path), exist_ok=True)
        with open(path, "w") as fh:
            fh.write(f.content or "")
    sys.path.insert(0, os.path.join(tmp, "out"))
    importlib.invalidate_caches()
    return root, files


def load(root, package):
    return importlib.import_module(f"{root}.{package}" if package else root)


class Served:
    """async context manager: in-process channel to `services`, recording for every
    request the server receives (route, metadata dict, deadline)."""

    def __init__(self, services):
        self._cf = ChannelFor(services)
        self.seen = []

    async def __aenter__(self):
        channel = await self._cf.__aenter__()

        async def on_request(event):
            self.seen.append((event.method_name, dict(event.metadata), event.deadline))

        listen(self._cf._server, RecvRequest, on_request)
        return channel

    async def __aexit__(self, *exc):
        return await self._cf.__aexit__(*exc)


def run(coro, timeout=60):
    async def main():
        return await asyncio.wait_for(coro, timeout)

    return asyncio.run(main())

# ---------------------------------------------------------------------------
# corpus of service definitions
# ---------------------------------------------------------------------------
import ast
import hashlib
import itertools
import grpclib.metadata
from grpclib.exceptions import GRPCError

SHOP = {
    "shop/root.proto": """
syntax = "proto3";
package shop;
message Root { string tag = 1; }
""",
    "shop/common/money.proto": """
syntax = "proto3";
package shop.common;
message Money { string currency = 1; sint64 units = 2; }
""",
    "shop/v1/sub/leaf.proto": """
syntax = "proto3";
package shop.v1.sub;
message Leaf { repeated int32 veins = 1; }
""",
    "shop/v1/deep/er/pit.proto": """
syntax = "proto3";
package shop.v1.deep.er;
message Pit { bool dark = 1; }
""",
    "shop/v1/catalog.proto": """
syntax = "proto3";
package shop.v1;
import "google/protobuf/empty.proto";
import "google/protobuf/wrappers.proto";
import "google/protobuf/timestamp.proto";
import "google/protobuf/duration.proto";
import "google/protobuf/struct.proto";
import "shop/root.proto";
import "shop/common/money.proto";
import "shop/v1/sub/leaf.proto";
import "shop/v1/deep/er/pit.proto";

message Item { int32 id = 1; string name = 2; bytes blob = 3; }
message Outer { message Inner { double x = 1; } Inner inner = 1; }
message Lambda { uint32 what = 1; }

// The catalog service.
service HTTPCatalog {
  // fetch one
  rpc GetItem(Item) returns (Item);
  rpc ListItems(Item) returns (stream Item);
  rpc PutItems(stream Item) returns (Item);
  rpc SyncItems(stream Item) returns (stream Item);
  rpc GetHTTPStatus(Outer.Inner) returns (Outer);
  rpc lookupByID(Lambda) returns (stream Outer.Inner);
  rpc Import(stream Lambda) returns (Lambda);
  rpc Old(Item) returns (Item) { option deprecated = true; }
  rpc OldStream(Item) returns (stream Item) { option deprecated = true; }
}

service Wkt {
  rpc Ping(google.protobuf.Empty) returns (google.protobuf.Empty);
  rpc Wrap(google.protobuf.StringValue) returns (google.protobuf.Int64Value);
  rpc Tick(google.protobuf.Duration) returns (stream google.protobuf.Timestamp);
  rpc Collect(stream google.protobuf.BoolValue) returns (google.protobuf.Struct);
  rpc Chat(stream google.protobuf.Timestamp) returns (stream google.protobuf.Duration);
}

// Types from elsewhere.
service Far {
  rpc Price(Item) returns (shop.common.Money);
  // swap currencies
  // (second line)
  rpc Exchange(stream shop.common.Money) returns (stream shop.common.Money);
  rpc Up(shop.Root) returns (stream shop.Root);
  rpc Down(stream shop.v1.sub.Leaf) returns (shop.v1.sub.Leaf);
  rpc Deeper(shop.v1.deep.er.Pit) returns (shop.common.Money);
}

service Nothing {
}
""",
    "shop/v1/second.proto": """
syntax = "proto3";
package shop.v1;
import "shop/v1/catalog.proto";
service Second {
  rpc GetItem(Item) returns (Outer); // trailing "quoted"
}
""",
}

BARE = {
    "bare.proto": """
syntax = "proto3";
message Note { string text = 1; }
service Notes {
  rpc Add(Note) returns (Note);
  rpc Watch(Note) returns (stream Note);
  rpc Bulk(stream Note) returns (Note);
  rpc Talk(stream Note) returns (stream Note);
}
"""
}

# proto full type name -> keyword arguments of a few sample values (the first is the
# all-default, i.e. falsy, message)
SAMPLES = {
    ".shop.v1.Item": [{}, {"id": 1, "name": "a"}, {"id": -7, "name": "é中", "blob": b"\x00\xff"}, {"name": "x" * 70000}],
    ".shop.v1.Outer.Inner": [{}, {"x": 1.5}, {"x": -0.0}],
    ".shop.v1.Outer": [{}, {"inner": {"x": 2.25}}],
    ".shop.v1.Lambda": [{}, {"what": 4294967295}],
    ".shop.common.Money": [{}, {"currency": "EUR", "units": -12}, {"units": 2**62}],
    ".shop.Root": [{}, {"tag": "r"}],
    ".shop.v1.sub.Leaf": [{}, {"veins": [1, 2, 3]}, {"veins": [0]}],
    ".shop.v1.deep.er.Pit": [{}, {"dark": True}],
    ".Note": [{}, {"text": "n"}, {"text": "two"}],
    ".google.protobuf.Empty": [{}],
    ".google.protobuf.StringValue": [{}, {"value": "hi"}],
    ".google.protobuf.Int64Value": [{}, {"value": -5}],
    ".google.protobuf.BoolValue": [{}, {"value": True}],
    ".google.protobuf.Duration": [{}, {"seconds": 3, "nanos": 5}, {"seconds": -1}],
    ".google.protobuf.Timestamp": [{}, {"seconds": 1700000000, "nanos": 999999999}],
    ".google.protobuf.Struct": [{}],
}

# expected python names, written down by hand (route keeps the proto names)
PY_NAMES = {
    "HTTPCatalog": "HttpCatalog", "Wkt": "Wkt", "Far": "Far", "Nothing": "Nothing",
    "Second": "Second", "Notes": "Notes",
    "GetItem": "get_item", "ListItems": "list_items", "PutItems": "put_items",
    "SyncItems": "sync_items", "GetHTTPStatus": "get_http_status",
    "lookupByID": "lookup_by_id", "Import": "import_", "Old": "old",
    "OldStream": "old_stream", "Ping": "ping", "Wrap": "wrap", "Tick": "tick",
    "Collect": "collect", "Chat": "chat", "Price": "price", "Exchange": "exchange",
    "Up": "up", "Down": "down", "Deeper": "deeper", "Add": "add", "Watch": "watch",
    "Bulk": "bulk", "Talk": "talk",
}

# (service, method or None) -> expected docstring of the generated Stub and Base members
DOCS = {
    ("HTTPCatalog", None): "The catalog service.",
    ("HTTPCatalog", "GetItem"): "fetch one",
    ("Far", None): "Types from elsewhere.",
    ("Far", "Exchange"): "swap currencies\n(second line)",
    ("Second", "GetItem"): 'trailing "quoted"',
}

CARDINALITY = {
    (False, False): Cardinality.UNARY_UNARY,
    (False, True): Cardinality.UNARY_STREAM,
    (True, False): Cardinality.STREAM_UNARY,
    (True, True): Cardinality.STREAM_STREAM,
}


class Rpc:
    pass


def describe(protos):
    """Independent description of the services, straight from protoc's descriptors
    read with google.protobuf (not betterproto)."""
    from google.protobuf import descriptor_pb2

    tmp = tempfile.mkdtemp(prefix="c11d_")
    for name, text in protos.items():
        path = os.path.join(tmp, name)
        os.makedirs(os.path.dirname(path), exist_ok=True)
        with open(path, "w") as f:
            f.write(text)
    ds = os.path.join(tmp, "ds.bin")
    inc = os.path.join(os.path.dirname(protoc.__file__), "_proto")
    assert protoc.main(["protoc", f"-I{tmp}", f"-I{inc}", f"--descriptor_set_out={ds}", *protos]) == 0
    fds = descriptor_pb2.FileDescriptorSet()
    with open(ds, "rb") as f:
        fds.ParseFromString(f.read())
    packages = {f.package for f in fds.file}
    services = {}
    for f in fds.file:
        for s in f.service:
            rpcs = []
            for m in s.method:
                r = Rpc()
                r.package = f.package
                r.service = s.name
                r.name = m.name
                r.py_name = PY_NAMES[m.name]
                r.route = f"/{f.package + '.' if f.package else ''}{s.name}/{m.name}"
                r.cs, r.ss = m.client_streaming, m.server_streaming
                r.input, r.output = m.input_type, m.output_type
                r.deprecated = m.options.deprecated
                rpcs.append(r)
            services[(f.package, s.name)] = rpcs
    return services, packages


def resolve(root, full_name, pydantic=False):
    """proto full type name -> generated (or betterproto.lib) class."""
    if full_name.startswith(".google.protobuf."):
        lib = "betterproto.lib.pydantic.google.protobuf" if pydantic else "betterproto.lib.google.protobuf"
        return getattr(importlib.import_module(lib), full_name.rsplit(".", 1)[1])
    parts = full_name.lstrip(".").split(".")
    n = sum(1 for p in parts if p[0].islower())
    module = load(root, ".".join(parts[:n]))
    return getattr(module, "".join(parts[n:]))


def samples(root, full_name, pydantic=False):
    cls = resolve(root, full_name, pydantic)
    out = []
    for kw in SAMPLES[full_name]:
        kw = dict(kw)
        if full_name == ".shop.v1.Outer" and "inner" in kw:
            kw["inner"] = resolve(root, ".shop.v1.Outer.Inner", pydantic)(**kw["inner"])
        out.append(cls(**kw))
    return out


# ---------------------------------------------------------------------------
# recording implementation of a generated Base class
# ---------------------------------------------------------------------------
def make_impl(Base, rpcs):
    """Subclass of the generated Base whose handlers record what they were given and
    answer from `self.plan[py_name]` (a list of replies; a GRPCError in the list is
    raised at that point).  mode 'pingpong' answers every request of a bidi stream
    immediately with the next item of the plan."""
    log, plan, mode = [], {}, {}

    def unary_unary(rpc):
        async def handler(self, request):
            log.append((rpc.py_name, request))
            item = plan[rpc.py_name][0]
            if isinstance(item, GRPCError):
                raise item
            return item
        return handler

    def unary_stream(rpc):
        async def handler(self, request):
            log.append((rpc.py_name, request))
            for item in plan[rpc.py_name]:
                if isinstance(item, GRPCError):
                    raise item
                yield item
        return handler

    def stream_unary(rpc):
        async def handler(self, request_iterator):
            assert hasattr(request_iterator, "__anext__")
            got = [r async for r in request_iterator]
            log.append((rpc.py_name, got))
            item = plan[rpc.py_name][0]
            if isinstance(item, GRPCError):
                raise item
            return item
        return handler

    def stream_stream(rpc):
        async def handler(self, request_iterator):
            assert hasattr(request_iterator, "__anext__")
            items = iter(plan[rpc.py_name])
            got = []
            if mode.get(rpc.py_name) == "pingpong":
                async for r in request_iterator:
                    got.append(r)
                    item = next(items)
                    if isinstance(item, GRPCError):
                        log.append((rpc.py_name, got))
                        raise item
                    yield item
                log.append((rpc.py_name, got))
            else:
                got = [r async for r in request_iterator]
                log.append((rpc.py_name, got))
                for item in items:
                    if isinstance(item, GRPCError):
                        raise item
                    yield item
        return handler

    makers = {(False, False): unary_unary, (False, True): unary_stream,
              (True, False): stream_unary, (True, True): stream_stream}
    ns = {r.py_name: makers[(r.cs, r.ss)](r) for r in rpcs}
    impl = type("Impl", (Base,), ns)()
    impl.log, impl.plan, impl.mode = log, plan, mode
    return impl


def msg_eq(a, b):
    return type(a) is type(b) and a == b and bytes(a) == bytes(b)


def list_eq(xs, ys):
    return len(xs) == len(ys) and all(msg_eq(x, y) for x, y in zip(xs, ys))


async def agen(items):
    for item in items:
        await asyncio.sleep(0)
        yield item


class OnlyAiter:
    def __init__(self, items):
        self.items = items

    def __aiter__(self):
        return agen(self.items)


def request_sources(items):
    """the kinds of request streams a client-streaming stub method accepts"""
    return [list(items), tuple(items), iter(list(items)), agen(items), OnlyAiter(items)]


async def invoke(stub, rpc, request, **opts):
    """Call through the generated stub; returns (replies list, GRPCError status or None)."""
    method = getattr(stub, rpc.py_name)
    replies = []
    try:
        with warnings.catch_warnings(record=True) as caught:
            warnings.simplefilter("always")
            result = method(request, **opts)
            if rpc.ss:
                assert inspect.isasyncgen(result)
                async for reply in result:
                    replies.append(reply)
            else:
                assert inspect.iscoroutine(result)
                replies.append(await result)
        deprecations = [w for w in caught if issubclass(w.category, DeprecationWarning)
                        and "is deprecated" in str(w.message)]
        assert bool(deprecations) == rpc.deprecated, (rpc.py_name, caught)
    except GRPCError as e:
        return replies, e.status
    return replies, None


def check_structure(root, package, service, rpcs, pydantic=False):
    """The generated Stub / Base classes have exactly the expected members and the
    Base's mapping describes every RPC with the right cardinality and types."""
    module = load(root, package)
    py_service = PY_NAMES[service]
    Stub, Base = getattr(module, py_service + "Stub"), getattr(module, py_service + "Base")
    assert py_service + "Stub" in module.__all__ and py_service + "Base" in module.__all__
    assert issubclass(Stub, betterproto.ServiceStub)
    from betterproto.grpc.grpclib_server import ServiceBase
    assert issubclass(Base, ServiceBase)
    names = [r.py_name for r in rpcs]
    assert sorted(n for n in vars(Stub) if not n.startswith("_")) == sorted(names), vars(Stub).keys()
    own = {n for n in vars(Base) if not (n.startswith("__") and n.endswith("__")) and n != "_abc_impl"}
    assert own == set(names) | {f"_{py_service}Base__rpc_{n}" for n in names}, own
    for r in rpcs:
        f = getattr(Stub, r.py_name)
        assert inspect.isasyncgenfunction(f) == r.ss and inspect.iscoroutinefunction(f) == (not r.ss)
        params = list(inspect.signature(f).parameters.values())
        assert [p.name for p in params[2:]] == ["timeout", "deadline", "metadata"]
        assert all(p.kind is p.KEYWORD_ONLY and p.default is None for p in params[2:])
        assert params[1].kind is params[1].POSITIONAL_OR_KEYWORD
        assert params[1].name.endswith("_iterator") == r.cs
        g = getattr(Base, r.py_name)
        assert inspect.isasyncgenfunction(g) == r.ss and inspect.iscoroutinefunction(g) == (not r.ss)
        gp = list(inspect.signature(g).parameters.values())
        assert len(gp) == 2 and gp[1].name == params[1].name
        assert inspect.iscoroutinefunction(getattr(Base, f"_{py_service}Base__rpc_{r.py_name}"))
    for cls in (Stub, Base):
        assert (inspect.getdoc(cls) or "").strip() == DOCS.get((service, None), ""), (cls, cls.__doc__)
        for r in rpcs:
            doc = inspect.getdoc(vars(cls)[r.py_name]) or ""
            assert doc.strip() == DOCS.get((service, r.name), ""), (cls, r.name, doc)
    base = Base()
    mapping = base.__mapping__()
    assert list(mapping) == [r.route for r in rpcs], list(mapping)
    for r in rpcs:
        h = mapping[r.route]
        assert h.cardinality is CARDINALITY[(r.cs, r.ss)], (r.route, h.cardinality)
        assert h.request_type is resolve(root, r.input, pydantic), (r.route, h.request_type)
        assert h.reply_type is resolve(root, r.output, pydantic), (r.route, h.reply_type)
        assert h.func.__self__ is base
        assert h.func.__func__ is vars(Base)[f"_{py_service}Base__rpc_{r.py_name}"]
    other = Base().__mapping__()
    assert all(other[k].func.__self__ is not base for k in other)
    return Stub, Base


async def check_calls(root, Stub, Base, rpcs, pydantic=False):
    """Every RPC of the service, through the generated stub to a recording subclass
    of the generated base over an in-process channel."""
    impl = make_impl(Base, rpcs)
    served = Served([impl])
    n_calls = 0
    async with served as channel:
        stub = Stub(channel)
        for r in rpcs:
            reqs = samples(root, r.input, pydantic)
            reps = samples(root, r.output, pydantic)
            cycle_req = list(itertools.islice(itertools.cycle(reqs), 5))
            cycle_rep = list(itertools.islice(itertools.cycle(reversed(reps)), 5))
            if not r.cs and not r.ss:
                cases = [(q, [p]) for q in reqs for p in reps]
            elif not r.cs and r.ss:
                cases = [(q, cycle_rep[:k]) for q in reqs for k in range(0, 5)]
            elif r.cs and not r.ss:
                cases = [(cycle_req[:k], [p]) for k in range(0, 5) for p in reps]
            else:
                cases = [(cycle_req[:k], cycle_rep[:j]) for k in range(0, 4) for j in range(0, 4)]
            for sent, planned in cases:
                sources = request_sources(sent) if r.cs else [sent]
                for source in sources:
                    del impl.log[:]
                    impl.plan[r.py_name] = planned
                    impl.mode.pop(r.py_name, None)
                    before = len(served.seen)
                    replies, status = await invoke(stub, r, source)
                    n_calls += 1
                    assert status is None, (r.route, status)
                    assert list_eq(replies, planned), (r.route, replies, planned)
                    # exactly this handler, exactly once, with what was sent
                    assert len(impl.log) == 1 and impl.log[0][0] == r.py_name, impl.log
                    got = impl.log[0][1]
                    assert list_eq(got, sent) if r.cs else msg_eq(got, sent), (r.route, got, sent)
                    assert [s[0] for s in served.seen[before:]] == [r.route]

            # a handler's GRPCError reaches the caller (after the replies sent before it)
            for k, status_code in [(0, Status.NOT_FOUND), (1, Status.ABORTED), (3, Status.DATA_LOSS)]:
                if not r.ss and k:
                    continue
                planned = cycle_rep[:k] + [GRPCError(status_code, "boom")] + cycle_rep[:1]
                del impl.log[:]
                impl.plan[r.py_name] = planned
                sent = cycle_req[:2] if r.cs else reqs[-1]
                replies, status = await invoke(stub, r, agen(sent) if r.cs else sent)
                n_calls += 1
                assert status is status_code, (r.route, status)
                assert list_eq(replies, cycle_rep[:k]), (r.route, replies)
                assert len(impl.log) == 1 and impl.log[0][0] == r.py_name

            # conversational bidi: the next request is only produced after the reply
            # to the previous one has arrived
            if r.cs and r.ss:
                for k in range(0, 4):
                    sent, planned = cycle_req[:k], cycle_rep[:k]
                    impl.plan[r.py_name] = planned
                    impl.mode[r.py_name] = "pingpong"
                    del impl.log[:]
                    arrived = asyncio.Queue()
                    order = []

                    async def talk():
                        for i, q in enumerate(sent):
                            order.append(("send", i))
                            yield q
                            await arrived.get()

                    replies = []
                    async for reply in getattr(stub, r.py_name)(talk()):
                        order.append(("recv", len(replies)))
                        replies.append(reply)
                        arrived.put_nowait(None)
                    n_calls += 1
                    assert list_eq(replies, planned)
                    assert order == [x for i in range(k) for x in (("send", i), ("recv", i))], order
                    assert len(impl.log) == 1 and list_eq(impl.log[0][1], sent)
                impl.mode.pop(r.py_name)

    # a method that is not overridden answers UNIMPLEMENTED
    async with Served([Base()]) as channel:
        stub = Stub(channel)
        for r in rpcs:
            reqs = samples(root, r.input, pydantic)
            for sent in ([[], reqs[:1], reqs * 3] if r.cs else reqs):
                replies, status = await invoke(stub, r, sent)
                n_calls += 1
                assert status is Status.UNIMPLEMENTED and replies == [], (r.route, status, replies)
    return n_calls


async def check_options(root, Stub, Base, rpcs, pydantic=False):
    """timeout / deadline / metadata: call-level beats stub-level, stub-level is the
    default, for every combination of None / set, observed on the server."""
    by_kind = {}
    for r in rpcs:
        by_kind.setdefault((r.cs, r.ss), r)
    impl = make_impl(Base, rpcs)
    served = Served([impl])
    n = 0
    async with served as channel:
        for r in by_kind.values():
            req = samples(root, r.input, pydantic)[-1]
            rep = samples(root, r.output, pydantic)[-1]
            impl.plan[r.py_name] = [rep]
            for s_t, s_d, s_m in itertools.product([None, 300.0], [None, 700.0], [None, {"k": "stub", "only-stub": "1"}]):
                stub = Stub(
                    channel, timeout=s_t,
                    deadline=None if s_d is None else grpclib.metadata.Deadline.from_timeout(s_d),
                    metadata=s_m,
                )
                # several calls through the same stub, in an order that mixes
                # "given" and "not given"
                combos = list(itertools.product([None, 100.0], [None, 200.0], [None, [("k", "call")], {}]))
                combos = combos + combos[::-1]
                for c_t, c_d, c_m in combos:
                    opts = {}
                    if c_t is not None:
                        opts["timeout"] = c_t
                    if c_d is not None:
                        opts["deadline"] = grpclib.metadata.Deadline.from_timeout(c_d)
                    if c_m is not None:
                        opts["metadata"] = c_m
                    del impl.log[:]
                    replies, status = await invoke(stub, r, [req] if r.cs else req, **opts)
                    n += 1
                    assert status is None and list_eq(replies, [rep]) and len(impl.log) == 1
                    route, md, dl = served.seen[-1]
                    assert route == r.route
                    eff_m = s_m if c_m is None else c_m
                    eff_m = dict(eff_m or ())
                    assert {k: v for k, v in md.items() if k in ("k", "only-stub")} == eff_m, (md, eff_m)
                    limits = [x for x in (s_t if c_t is None else c_t, s_d if c_d is None else c_d) if x is not None]
                    if not limits:
                        assert dl is None
                    else:
                        assert min(limits) - 30 < dl.time_remaining() <= min(limits), (dl.time_remaining(), limits)
    return n


# ---------------------------------------------------------------------------
# rendered source, up to the order of import statements (the template iterates a set)
# ---------------------------------------------------------------------------
def fingerprint(source, sort_class_members):
    tree = ast.parse(source)

    def dump(node):
        if isinstance(node, ast.ClassDef):
            members = [dump(n) for n in node.body]
            if sort_class_members:
                members.sort()
            head = ast.dump(ast.ClassDef(name=node.name, bases=node.bases, keywords=node.keywords,
                                         body=[], decorator_list=node.decorator_list))
            return head + "{" + "|".join(members) + "}"
        return ast.dump(node)

    body = [dump(n) for n in tree.body]
    imports = sorted(d for n, d in zip(tree.body, body) if isinstance(n, (ast.Import, ast.ImportFrom)))
    rest = [d for n, d in zip(tree.body, body) if not isinstance(n, (ast.Import, ast.ImportFrom))]
    return hashlib.sha256("\n".join(imports + rest).encode()).hexdigest()[:16]


def run_corpus(sort_class_members, golden):
    total = 0
    prints = {}
    for label, protos, parameter in [
        ("shop", SHOP, ""),
        ("shop-root", SHOP, "typing.root"),
        ("shop-310", SHOP, "typing.310"),
        ("shop-pydantic", SHOP, "pydantic_dataclasses"),
        ("bare", BARE, ""),
        ("bare-310", BARE, "typing.310"),
    ]:
        pydantic = "pydantic" in parameter
        services, packages = describe(protos)
        root, files = generate(protos, parameter)
        for name in sorted(files):
            if files[name].strip():
                prints[f"{label}:{name}"] = fingerprint(files[name], sort_class_members)
        for (package, service), rpcs in services.items():
            Stub, Base = check_structure(root, package, service, rpcs, pydantic)
            if rpcs:
                total += run(check_calls(root, Stub, Base, rpcs, pydantic), timeout=100)
                if label in ("shop", "bare-310") :
                    total += run(check_options(root, Stub, Base, rpcs, pydantic), timeout=100)
    if golden is None:
        print("GOLDEN = " + repr(prints))
    else:
        assert prints == golden, {k: (v, golden.get(k)) for k, v in prints.items() if golden.get(k) != v}
    return total

GOLDEN = {'shop:shop/__init__.py': 'f17fcae47257d7a0', 'shop:shop/common/__init__.py': '3b1c1e66c50e528d', 'shop:shop/v1/__init__.py': '5d3628830d4809be', 'shop:shop/v1/deep/er/__init__.py': 'fe312304b2c175b8', 'shop:shop/v1/sub/__init__.py': 'db0397e4eec49d47', 'shop-root:shop/__init__.py': 'f17fcae47257d7a0', 'shop-root:shop/common/__init__.py': '3b1c1e66c50e528d', 'shop-root:shop/v1/__init__.py': 'da8e990e009befdb', 'shop-root:shop/v1/deep/er/__init__.py': 'fe312304b2c175b8', 'shop-root:shop/v1/sub/__init__.py': 'cfec559215cec0d0', 'shop-310:shop/__init__.py': 'f17fcae47257d7a0', 'shop-310:shop/common/__init__.py': '3b1c1e66c50e528d', 'shop-310:shop/v1/__init__.py': 'f50bad92170c2121', 'shop-310:shop/v1/deep/er/__init__.py': 'fe312304b2c175b8', 'shop-310:shop/v1/sub/__init__.py': '6c43d5e6f258d701', 'shop-pydantic:shop/__init__.py': '4406a873cf4c54a4', 'shop-pydantic:shop/common/__init__.py': 'eba998f2167d0885', 'shop-pydantic:shop/v1/__init__.py': 'b33410bf9e305408', 'shop-pydantic:shop/v1/deep/er/__init__.py': '136a1e79a40f75ab', 'shop-pydantic:shop/v1/sub/__init__.py': '36007e3a1fc10529', 'bare:__init__.py': '991ae3fe5a254780', 'bare-310:__init__.py': '900bd4436aea8c8a'}

if __name__ == "__main__":
    n = run_corpus(sort_class_members=True, golden=GOLDEN)
    print(f"C11 equiv OK ({n} calls)")
