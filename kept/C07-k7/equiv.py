"""Equivalence check for the refactored Message.load (C07, keep1).

Exits 0 on the pristine tree and with the refactor applied.

Parts:
 1. model-based random histories over a message with four oneof groups
    (construct / set / parse onto the same instance / from_dict / copy /
    deepcopy / pickle), checking which_one_of, attribute access, the
    encoding decoded field by field and to_dict after every step;
 2. decoding of hand-built wire streams (members in any order, repeated
    occurrences, unknown fields, wrong wire types, packed chunks, maps)
    into fresh and non-fresh instances, compared with google.protobuf;
 3. a digest over every observable of part 2, recorded on the pristine tree.
"""
import copy
import hashlib
import io
import json
import pickle
import random
import struct
from dataclasses import dataclass
from typing import Dict, List

import betterproto
from betterproto import parse_fields, which_one_of


class Color(betterproto.Enum):
    ZERO = 0
    RED = 1
    BLUE = 2
    NEG = -1


@dataclass(eq=False, repr=False)
class Sub(betterproto.Message):
    x: int = betterproto.int32_field(1)
    s: str = betterproto.string_field(2)


@dataclass(eq=False, repr=False)
class Empty(betterproto.Message):
    pass


@dataclass(eq=False, repr=False)
class Msg(betterproto.Message):
    plain: int = betterproto.int32_field(1)
    d_first: int = betterproto.uint32_field(30, group="g4")
    a_int: int = betterproto.int32_field(2, group="g1")
    a_str: str = betterproto.string_field(3, group="g1")
    a_enum: Color = betterproto.enum_field(4, group="g1")
    a_sub: Sub = betterproto.message_field(5, group="g1")
    name: str = betterproto.string_field(6)
    b_bool: bool = betterproto.bool_field(7, group="g2")
    b_bytes: bytes = betterproto.bytes_field(8, group="g2")
    b_double: float = betterproto.double_field(9, group="g2")
    b_sint: int = betterproto.sint64_field(10, group="g2")
    b_sub: Sub = betterproto.message_field(20, group="g2")
    b_empty: Empty = betterproto.message_field(21, group="g2")
    c_only: int = betterproto.uint32_field(11, group="g3")
    items: List[int] = betterproto.int32_field(12)
    d_last: str = betterproto.string_field(31, group="g4")
    child: Sub = betterproto.message_field(13)
    subs: List[Sub] = betterproto.message_field(14)
    names: List[str] = betterproto.string_field(15)
    counts: Dict[str, int] = betterproto.map_field(
        16, betterproto.TYPE_STRING, betterproto.TYPE_INT32
    )
    by_id: Dict[int, Sub] = betterproto.map_field(
        17, betterproto.TYPE_INT32, betterproto.TYPE_MESSAGE
    )
    ratios: List[float] = betterproto.float_field(18)
    colors: List[Color] = betterproto.enum_field(19)


GROUPS = {
    "g1": ["a_int", "a_str", "a_enum", "a_sub"],
    "g2": ["b_bool", "b_bytes", "b_double", "b_sint", "b_sub", "b_empty"],
    "g3": ["c_only"],
    "g4": ["d_first", "d_last"],
}
GROUP_OF = {m: g for g, ms in GROUPS.items() for m in ms}
NUMBER = {
    name: meta.number for name, meta in Msg._betterproto.meta_by_field_name.items()
}
JSON_KEY = {m: betterproto.Casing.CAMEL(m) for m in NUMBER}

VALUES = {
    "a_int": [0, 1, -1, 2**31 - 1, -(2**31)],
    "a_str": ["", "x", "héllo"],
    "a_enum": [Color.ZERO, Color.RED, Color.BLUE, Color.NEG],
    "a_sub": [lambda: Sub(), lambda: Sub(x=0), lambda: Sub(x=3), lambda: Sub(s="q", x=-1)],
    "b_bool": [False, True],
    "b_bytes": [b"", b"\x00", b"ab"],
    "b_double": [0.0, 1.5, -2.0],
    "b_sint": [0, -1, 2**40, -(2**63)],
    "b_sub": [lambda: Sub(), lambda: Sub(s=""), lambda: Sub(x=9)],
    "b_empty": [lambda: Empty()],
    "c_only": [0, 1, 2**32 - 1],
    "d_first": [0, 5],
    "d_last": ["", "z"],
}


def pick(rng, member):
    v = rng.choice(VALUES[member])
    return v() if callable(v) else v


def plain_value(v):
    if isinstance(v, betterproto.Message):
        return (type(v).__name__, bytes(v))
    return v


def wire_of(member, value):
    return bytes(Msg(**{member: value}))


def json_of(member, value):
    return Msg(**{member: value}).to_dict()[JSON_KEY[member]]


def check(m, model, where):
    raw = bytes(m)
    present = {}
    for f in parse_fields(raw):
        present.setdefault(f.number, []).append(f)
    d = m.to_dict()
    assert json.loads(m.to_json()) == json.loads(json.dumps(d)), where
    for group, members in GROUPS.items():
        sel = model[group]
        name, value = which_one_of(m, group)
        if sel is None:
            assert (name, value) == ("", None), (where, group, name, value)
        else:
            assert name == sel[0], (where, group, name, sel)
            assert plain_value(value) == sel[1], (where, group, value, sel)
        for member in members:
            if sel is not None and member == sel[0]:
                assert plain_value(getattr(m, member)) == sel[1], (where, member)
                assert len(present.get(NUMBER[member], ())) == 1, (where, member, raw)
                assert JSON_KEY[member] in d, (where, member, d)
            else:
                try:
                    getattr(m, member)
                except AttributeError:
                    pass
                else:
                    raise AssertionError((where, "readable unselected", member))
                assert NUMBER[member] not in present, (where, member, raw)
                assert JSON_KEY[member] not in d, (where, member, d)
    assert len(m) == len(raw), where
    again = Msg().parse(raw)
    back = Msg().from_dict(d)
    for other in (again, back):
        for group in GROUPS:
            n2, v2 = which_one_of(other, group)
            sel = model[group]
            if sel is None:
                assert (n2, v2) == ("", None), (where, group)
            else:
                assert n2 == sel[0] and plain_value(v2) == sel[1], (where, group, n2)


def empty_model():
    return {g: None for g in GROUPS}


def random_members(rng):
    out = []
    for group, members in GROUPS.items():
        if rng.random() < 0.5:
            member = rng.choice(members)
            out.append((member, pick(rng, member)))
    rng.shuffle(out)
    return out


def run_history(seed, steps=12):
    rng = random.Random(seed)
    log = []
    kw = {}
    model = empty_model()
    for member, value in random_members(rng):
        kw[member] = value
        model[GROUP_OF[member]] = (member, plain_value(value))
    if rng.random() < 0.3:
        kw["plain"] = rng.choice([0, 7])
    m = Msg(**kw)
    log.append(("construct", sorted(kw)))
    check(m, model, (seed, list(log)))
    for _ in range(steps):
        op = rng.choice(
            ["set", "set", "set_plain", "parse", "parse", "parse_fresh", "from_dict",
             "from_dict_cls", "copy", "deepcopy", "pickle", "read", "from_json"]
        )
        if op == "set":
            member = rng.choice(list(GROUP_OF))
            value = pick(rng, member)
            setattr(m, member, value)
            model[GROUP_OF[member]] = (member, plain_value(value))
            log.append((op, member, plain_value(value)))
        elif op == "set_plain":
            which = rng.choice(["plain", "name", "items", "child", "counts"])
            if which == "plain":
                m.plain = rng.choice([0, 3])
            elif which == "name":
                m.name = rng.choice(["", "k"])
            elif which == "items":
                m.items = rng.choice([[], [1, 2]])
            elif which == "counts":
                m.counts = rng.choice([{}, {"a": 1}])
            else:
                m.child = rng.choice([Sub(), Sub(x=1)])
            log.append((op, which))
        elif op in ("parse", "parse_fresh"):
            n = rng.randint(0, 5)
            chunks = []
            new = {}
            for _i in range(n):
                member = rng.choice(list(GROUP_OF))
                value = pick(rng, member)
                chunks.append(wire_of(member, value))
                new[GROUP_OF[member]] = (member, plain_value(value))
            for _i in range(rng.randint(0, 2)):
                extra = rng.choice(
                    [Msg(plain=5), Msg(items=[1, 2]), Msg(counts={"k": 2}),
                     Msg(subs=[Sub(), Sub(x=1)]), Msg(names=["", "n"]),
                     Msg(child=Sub(s="c")), Msg(by_id={0: Sub()})]
                )
                chunks.insert(rng.randint(0, len(chunks)), bytes(extra))
            data = b"".join(chunks)
            if op == "parse":
                m.parse(data)
                model.update(new)
            else:
                m = Msg.FromString(data) if rng.random() < 0.5 else Msg().parse(data)
                model = empty_model()
                model.update(new)
            log.append((op, data))
        elif op in ("from_dict", "from_json"):
            new = {}
            dct = {}
            for member, value in random_members(rng):
                key = JSON_KEY[member] if rng.random() < 0.5 else member
                dct[key] = json_of(member, value)
                new[GROUP_OF[member]] = (member, plain_value(value))
            if op == "from_dict":
                m.from_dict(dct)
            else:
                m.from_json(json.dumps(dct))
            model.update(new)
            log.append((op, dct))
        elif op == "from_dict_cls":
            new = {}
            dct = {}
            for member, value in random_members(rng):
                dct[JSON_KEY[member]] = json_of(member, value)
                new[GROUP_OF[member]] = (member, plain_value(value))
            m = Msg.from_dict(dct)
            model = empty_model()
            model.update(new)
            log.append((op, dct))
        elif op == "copy":
            m = copy.copy(m)
            log.append((op,))
        elif op == "deepcopy":
            m = copy.deepcopy(m)
            log.append((op,))
        elif op == "pickle":
            m = pickle.loads(pickle.dumps(m))
            log.append((op,))
        elif op == "read":
            for member in GROUP_OF:
                try:
                    getattr(m, member)
                except AttributeError:
                    pass
            m.plain, m.name, m.items, m.child, m.counts
            m.to_dict(), bytes(m), m.to_pydict()
            log.append((op,))
        check(m, model, (seed, list(log)))


# ---------------------------------------------------------------------------
# Part 2/3: hand-built wire streams, compared with google.protobuf
# ---------------------------------------------------------------------------


def varint(n):
    n &= (1 << 64) - 1
    out = bytearray()
    while True:
        b = n & 0x7F
        n >>= 7
        if n:
            out.append(b | 0x80)
        else:
            out.append(b)
            return bytes(out)


def key(number, wire_type):
    return varint((number << 3) | wire_type)


def f_varint(number, n):
    return key(number, 0) + varint(n)


def f_len(number, payload):
    return key(number, 2) + varint(len(payload)) + payload


def f_fixed64(number, payload8):
    return key(number, 1) + payload8


def f_fixed32(number, payload4):
    return key(number, 5) + payload4


def zigzag(n):
    return (n << 1) ^ (n >> 63)


def build_gpb():
    from google.protobuf import descriptor_pb2, descriptor_pool, message_factory

    F = descriptor_pb2.FieldDescriptorProto
    fdp = descriptor_pb2.FileDescriptorProto(
        name="c07_keep1.proto", package="c07k1", syntax="proto3"
    )
    en = fdp.enum_type.add(name="Color")
    for n, v in (("ZERO", 0), ("RED", 1), ("BLUE", 2), ("NEG", -1)):
        en.value.add(name=n, number=v)
    sub = fdp.message_type.add(name="Sub")
    sub.field.add(name="x", number=1, type=F.TYPE_INT32, label=F.LABEL_OPTIONAL)
    sub.field.add(name="s", number=2, type=F.TYPE_STRING, label=F.LABEL_OPTIONAL)
    fdp.message_type.add(name="Empty")
    msg = fdp.message_type.add(name="Msg")
    for g in ("g1", "g2", "g3", "g4"):
        msg.oneof_decl.add(name=g)

    def add(name, number, ftype, oneof=None, type_name=None, repeated=False):
        fld = msg.field.add(
            name=name, number=number, type=ftype,
            label=F.LABEL_REPEATED if repeated else F.LABEL_OPTIONAL,
        )
        if oneof is not None:
            fld.oneof_index = oneof
        if type_name:
            fld.type_name = type_name

    add("plain", 1, F.TYPE_INT32)
    add("a_int", 2, F.TYPE_INT32, 0)
    add("a_str", 3, F.TYPE_STRING, 0)
    add("a_enum", 4, F.TYPE_ENUM, 0, ".c07k1.Color")
    add("a_sub", 5, F.TYPE_MESSAGE, 0, ".c07k1.Sub")
    add("name", 6, F.TYPE_STRING)
    add("b_bool", 7, F.TYPE_BOOL, 1)
    add("b_bytes", 8, F.TYPE_BYTES, 1)
    add("b_double", 9, F.TYPE_DOUBLE, 1)
    add("b_sint", 10, F.TYPE_SINT64, 1)
    add("b_sub", 20, F.TYPE_MESSAGE, 1, ".c07k1.Sub")
    add("b_empty", 21, F.TYPE_MESSAGE, 1, ".c07k1.Empty")
    add("c_only", 11, F.TYPE_UINT32, 2)
    add("d_first", 30, F.TYPE_UINT32, 3)
    add("d_last", 31, F.TYPE_STRING, 3)
    add("items", 12, F.TYPE_INT32, repeated=True)
    add("child", 13, F.TYPE_MESSAGE, type_name=".c07k1.Sub")
    add("subs", 14, F.TYPE_MESSAGE, type_name=".c07k1.Sub", repeated=True)
    add("names", 15, F.TYPE_STRING, repeated=True)
    add("ratios", 18, F.TYPE_FLOAT, repeated=True)
    add("colors", 19, F.TYPE_ENUM, type_name=".c07k1.Color", repeated=True)
    pool = descriptor_pool.DescriptorPool()
    pool.Add(fdp)
    return message_factory.GetMessageClass(pool.FindMessageTypeByName("c07k1.Msg"))


def member_chunks(rng):
    """One wire occurrence of a random oneof member (valid encoding)."""
    member = rng.choice(list(GROUP_OF))
    n = NUMBER[member]
    if member == "a_int":
        return f_varint(n, rng.choice([0, 1, -1, 2**31 - 1, -(2**31), 300]))
    if member == "a_str":
        return f_len(n, rng.choice(["", "x", "hé"]).encode())
    if member == "a_enum":
        return f_varint(n, rng.choice([0, 1, 2, -1]))
    if member in ("a_sub", "b_sub"):
        inner = rng.choice(
            [b"", f_varint(1, 0), f_varint(1, 7), f_len(2, b"q"),
             f_varint(1, 1) + f_varint(1, 2), f_len(2, b"") + f_varint(1, -5)]
        )
        return f_len(n, inner)
    if member == "b_bool":
        return f_varint(n, rng.choice([0, 1]))
    if member == "b_bytes":
        return f_len(n, rng.choice([b"", b"\x00", b"ab\xff"]))
    if member == "b_double":
        return f_fixed64(n, struct.pack("<d", rng.choice([0.0, 1.5, -2.0, 1e300])))
    if member == "b_sint":
        return f_varint(n, zigzag(rng.choice([0, -1, 1, 2**40, -(2**63)])))
    if member == "b_empty":
        return f_len(n, b"")
    if member == "c_only":
        return f_varint(n, rng.choice([0, 1, 2**32 - 1]))
    if member == "d_first":
        return f_varint(n, rng.choice([0, 5]))
    if member == "d_last":
        return f_len(n, rng.choice([b"", b"z"]))
    raise AssertionError(member)


def other_chunks(rng):
    """Non-oneof content: plain, repeated (packed and unpacked), nested, unknown."""
    kind = rng.randrange(12)
    if kind == 0:
        return f_varint(1, rng.choice([0, 5, -3]))
    if kind == 1:
        return f_len(6, rng.choice([b"", b"nm"]))
    if kind == 2:  # packed chunk of items
        return f_len(12, b"".join(varint(v) for v in rng.choice([[], [1], [1, 2, -1]])))
    if kind == 3:  # unpacked occurrence of items
        return f_varint(12, rng.choice([0, 9]))
    if kind == 4:
        return f_len(13, rng.choice([b"", f_varint(1, 4)]))
    if kind == 5:
        return f_len(14, rng.choice([b"", f_len(2, b"s")]))
    if kind == 6:
        return f_len(15, rng.choice([b"", b"nn"]))
    if kind == 7:  # packed / unpacked floats
        if rng.random() < 0.5:
            return f_len(18, struct.pack("<2f", 1.0, -0.5))
        return f_fixed32(18, struct.pack("<f", 2.5))
    if kind == 8:
        if rng.random() < 0.5:
            return f_len(19, varint(1) + varint(0) + varint(-1))
        return f_varint(19, rng.choice([0, 2]))
    if kind == 9:  # unknown field numbers, all wire types
        return rng.choice(
            [f_varint(100, 1), f_len(101, b"zz"), f_fixed32(102, b"\x01\x02\x03\x04"),
             f_fixed64(103, b"\x00" * 8), f_varint(2047, 3)]
        )
    if kind == 10:  # known oneof member numbers with a mismatching wire type
        return rng.choice(
            [f_len(2, b"ab"), f_varint(3, 7), f_fixed32(9, b"\x00" * 4),
             f_fixed64(7, b"\x00" * 8), f_varint(5, 1), f_len(4, b"\x01")]
        )
    return b""


def describe(m):
    """Every observable of a betterproto message, as a JSON-able structure."""
    out = {
        "bytes": bytes(m).hex(),
        "len": len(m),
        "dict": m.to_dict(),
        "dict_all": m.to_dict(include_default_values=True),
        "pydict": repr(m.to_pydict()),
        "repr": repr(m),
        "unknown": m._unknown_fields.hex(),
        "wire": m._serialized_on_wire,
        "groups": {},
        "child_wire": m.child._serialized_on_wire,
    }
    for group, members in GROUPS.items():
        name, value = which_one_of(m, group)
        out["groups"][group] = [name, repr(plain_value(value))]
        for member in members:
            out["groups"][member] = [hasattr(m, member), m.is_set(member)]
    return out


def compare_with_gpb(m, g):
    for group, members in GROUPS.items():
        name, value = which_one_of(m, group)
        assert (g.WhichOneof(group) or "") == name, (group, name, g.WhichOneof(group))
        if name:
            gv = getattr(g, name)
            if isinstance(value, betterproto.Message):
                assert gv.SerializeToString() == bytes(value), (name, value)
            else:
                assert gv == value, (name, gv, value)
    assert list(g.items) == m.items
    assert list(g.names) == m.names
    assert [s.SerializeToString() for s in g.subs] == [bytes(s) for s in m.subs]
    assert list(g.ratios) == m.ratios
    assert list(g.colors) == [int(c) for c in m.colors]
    assert g.plain == m.plain and g.name == m.name


def wire_corpus():
    GMsg = build_gpb()
    digest = hashlib.sha256()
    compared = [0]
    rng = random.Random(20260707)
    for case in range(1500):
        streams = []
        for _s in range(rng.randint(1, 3)):
            chunks = []
            for _i in range(rng.randint(0, 6)):
                chunks.append(member_chunks(rng) if rng.random() < 0.65 else other_chunks(rng))
            streams.append(b"".join(chunks))
        # successive parses into the same instance (fresh for the first one)
        m = Msg()
        g = GMsg()
        seen_messages = set()
        comparable = True
        if rng.random() < 0.4:
            member = rng.choice(list(GROUP_OF))
            value = pick(rng, member)
            setattr(m, member, value)
            g.MergeFromString(bytes(m))
            seen_messages.add(NUMBER[member])
        for data in streams:
            how = rng.randrange(3)
            if how == 0:
                m.parse(data)
            elif how == 1:
                m.load(io.BytesIO(data))
            else:
                m.load(io.BytesIO(varint(len(data)) + data), betterproto.SIZE_DELIMITED)
            digest.update(json.dumps(describe(m), sort_keys=True).encode())
            # google.protobuf merges a sub-message that occurs again where betterproto
            # replaces it: stop comparing once a message-typed field was seen twice.
            for f in parse_fields(data):
                if f.number in (5, 20, 13) and f.wire_type == 2:
                    if f.number in seen_messages:
                        comparable = False
                    seen_messages.add(f.number)
            g.MergeFromString(data)
            if comparable:
                compare_with_gpb(m, g)
                compared[0] += 1
        # what was decoded survives its own round trip
        again = Msg().parse(bytes(m))
        for group in GROUPS:
            a, b = which_one_of(again, group), which_one_of(m, group)
            assert a[0] == b[0] and plain_value(a[1]) == plain_value(b[1]), (case, group)
    assert compared[0] > 1000, compared
    return digest.hexdigest()


EXPECTED_DIGEST = "f237bf73e9f7f83aa1ed60f8abb521d9ce8dee5a4a6b9071c4d0e2045dfbb5df"


def fixed_cases():
    # later member on the wire wins, also when it occurred before
    data = f_varint(2, 5) + f_len(3, b"s") + f_varint(2, 0)
    m = Msg().parse(data)
    assert which_one_of(m, "g1") == ("a_int", 0)
    assert not hasattr(m, "a_str")
    assert bytes(m) == f_varint(2, 0)
    assert m.to_dict() == {"aInt": 0}
    # decoding onto a message that has another member selected displaces it
    m = Msg(a_sub=Sub(x=1), b_bytes=b"k", d_last="z", c_only=0)
    m.parse(f_len(3, b"") + f_len(21, b""))
    assert which_one_of(m, "g1") == ("a_str", "")
    assert which_one_of(m, "g2")[0] == "b_empty"
    assert which_one_of(m, "g3") == ("c_only", 0)
    assert which_one_of(m, "g4") == ("d_last", "z")
    for gone in ("a_sub", "a_int", "a_enum", "b_bytes", "b_sub", "d_first"):
        assert not hasattr(m, gone), gone
    assert [f.number for f in parse_fields(bytes(m))] == [3, 21, 11, 31]
    assert m.to_dict() == {"aStr": "", "bEmpty": {}, "cOnly": 0, "dLast": "z"}
    # a stream without members leaves the selection alone
    m.parse(f_varint(1, 4) + f_len(12, varint(1) + varint(2)) + f_varint(12, 3))
    assert which_one_of(m, "g1") == ("a_str", "")
    assert m.items == [1, 2, 3] and m.plain == 4
    # the same member again replaces its value
    m.parse(f_len(3, b"new"))
    assert which_one_of(m, "g1") == ("a_str", "new")
    # containers are extended across parses, maps updated
    m.parse(f_len(16, f_len(1, b"k") + f_varint(2, 1)) + f_len(14, b"") + f_len(12, b""))
    m.parse(f_len(16, f_len(1, b"k") + f_varint(2, 2)) + f_len(14, f_varint(1, 1)))
    assert m.counts == {"k": 2} and len(m.subs) == 2 and m.items == [1, 2, 3]
    # a message-typed field decoded twice keeps the last occurrence
    m.parse(f_len(13, f_varint(1, 1)) + f_len(13, f_len(2, b"t")))
    assert m.child.x == 0 and m.child.s == "t"
    # a user-assigned non-list on a repeated field is replaced by the occurrence
    m2 = Msg()
    m2.items = (1, 2)
    m2.parse(f_varint(12, 7))
    assert m2.items == 7
    m3 = Msg()
    m3.items = (1, 2)
    m3.parse(f_len(12, varint(7) + varint(8)))
    assert m3.items == [7, 8]


if __name__ == "__main__":
    fixed_cases()
    for seed in range(450):
        run_history(seed)
    got = wire_corpus()
    assert got == EXPECTED_DIGEST, got
    print("equiv ok")
