"""C15 keep1: varint encoding (dump_varint / encode_varint / size_varint) as used for the
seconds / nanos of Timestamp and Duration fields.

Checks the three functions against an independent reference encoder and against
google.protobuf, then checks whole messages with Timestamp / Duration fields against the
reference implementation (bytes, sizes, delimited streams, decode).
"""
import random
from dataclasses import dataclass
from datetime import datetime, timedelta, timezone
from io import BytesIO
from typing import Dict, List, Optional

from google.protobuf import duration_pb2, timestamp_pb2
from google.protobuf.internal import encoder as pb_encoder

import betterproto
from betterproto import dump_varint, encode_varint, size_varint


def ref_varint(value: int) -> bytes:
    if value < 0:
        value &= (1 << 64) - 1
    out = bytearray()
    while True:
        b = value & 0x7F
        value >>= 7
        if value:
            out.append(b | 0x80)
        else:
            out.append(b)
            return bytes(out)


rng = random.Random(1501)
values = [0, 1, 2, 126, 127, 128, 129, 255, 256, 16383, 16384, 2**21 - 1, 2**21]
for k in range(1, 65):
    values += [2**k - 1, 2**k, 2**k + 1, -(2**k) + 1, -(2**k), -(2**k) - 1]
values = [v for v in values if -(1 << 63) <= v < (1 << 64)]
values += [-1, -2, -999_999_000, -1000, -(1 << 63), (1 << 63) - 1, (1 << 64) - 1]
values += [-62135596800, 253402300799, 315_576_000_000, -315_576_000_000, 999_999_000]
for _ in range(20000):
    bits = rng.randint(1, 64)
    v = rng.getrandbits(bits)
    values.append(v)
    if v < (1 << 63):
        values.append(-v)

for v in values:
    want = ref_varint(v)
    got = encode_varint(v)
    assert type(got) is bytes and got == want, (v, got, want)
    assert size_varint(v) == len(want), (v, size_varint(v), len(want))
    buf = BytesIO()
    dump_varint(v, buf)
    assert buf.getvalue() == want, v
    if 0 <= v < (1 << 64):
        assert pb_encoder._VarintBytes(v) == want, v
        assert pb_encoder._VarintSize(v) == len(want), v
    if -(1 << 63) <= v < (1 << 63):
        assert pb_encoder._SignedVarintSize(v) == len(want), v
        pieces = []
        pb_encoder._SignedVarintEncoder()(pieces.append, v)
        assert b"".join(pieces) == want, v

# bools and int subclasses are accepted as ints
assert encode_varint(True) == b"\x01" and encode_varint(False) == b"\x00"
assert size_varint(True) == 1 and size_varint(False) == 1

# values above 64 bits are not rejected, they just take more bytes (unchanged behaviour)
for v in (1 << 64, (1 << 70) + 5, (1 << 77) - 1):
    assert encode_varint(v) == ref_varint(v) and size_varint(v) == len(ref_varint(v))

# error path: below int64
for v in (-(1 << 63) - 1, -(1 << 64), -(10**30)):
    for fn in (encode_varint, size_varint, lambda x: dump_varint(x, BytesIO())):
        try:
            fn(v)
        except ValueError as e:
            assert "64-bit" in str(e)
        else:
            raise AssertionError(f"{v} accepted")


# ---------------------------------------------------------------- whole messages
@dataclass(eq=False, repr=False)
class TsMsg(betterproto.Message):
    ts: datetime = betterproto.message_field(1)


@dataclass(eq=False, repr=False)
class DurMsg(betterproto.Message):
    d: timedelta = betterproto.message_field(1)


@dataclass(eq=False, repr=False)
class Big(betterproto.Message):
    ts: datetime = betterproto.message_field(1)
    d: timedelta = betterproto.message_field(2)
    tss: List[datetime] = betterproto.message_field(3)
    ds: List[timedelta] = betterproto.message_field(4)
    mts: Dict[str, datetime] = betterproto.map_field(
        5, betterproto.TYPE_STRING, betterproto.TYPE_MESSAGE
    )
    mds: Dict[int, timedelta] = betterproto.map_field(
        6, betterproto.TYPE_INT64, betterproto.TYPE_MESSAGE
    )
    ots: Optional[datetime] = betterproto.message_field(2000, optional=True)
    od: Optional[timedelta] = betterproto.message_field(300000, optional=True)


def field1(payload: bytes) -> bytes:
    """Strip the `tag 1, length` frame of a message holding one sub-message field."""
    if not payload:
        return b""
    assert payload[0] == 0x0A
    n = payload[1]
    assert n < 0x80 and len(payload) == 2 + n
    return payload[2:]


EPOCH = datetime(1970, 1, 1, tzinfo=timezone.utc)
MIN_DT = datetime(1, 1, 1, tzinfo=timezone.utc)
MAX_DT = datetime(9999, 12, 31, 23, 59, 59, 999999, tzinfo=timezone.utc)
SPAN_US = (MAX_DT - MIN_DT) // timedelta(microseconds=1)
MAX_S = 315_576_000_000


def rand_dt() -> datetime:
    mode = rng.random()
    if mode < 0.3:
        us = rng.randint(-5 * 10**6, 5 * 10**6)
        dt = EPOCH + timedelta(microseconds=us)
    elif mode < 0.4:
        dt = EPOCH + timedelta(seconds=rng.randint(-(2**33), 2**33))
    else:
        dt = MIN_DT + timedelta(microseconds=rng.randint(0, SPAN_US))
    if rng.random() < 0.5:
        off = timedelta(minutes=rng.randint(-14 * 60, 14 * 60))
        try:
            dt = dt.astimezone(timezone(off))
        except OverflowError:
            pass
    return dt


def rand_td() -> timedelta:
    magnitude = rng.choice((10**3, 10**6, 3 * 10**6, 10**9, 2**54, MAX_S * 10**6))
    us = rng.randint(-magnitude, magnitude)
    if rng.random() < 0.2:
        us -= us % 10**6
    return timedelta(microseconds=us)


dts = [EPOCH, MIN_DT, MAX_DT, EPOCH - timedelta(microseconds=1), EPOCH + timedelta(microseconds=1),
       EPOCH - timedelta(seconds=1), EPOCH + timedelta(seconds=2**31), EPOCH + timedelta(seconds=2**32),
       EPOCH + timedelta(microseconds=2**53 + 1), EPOCH - timedelta(microseconds=2**53 + 1)]
dts += [rand_dt() for _ in range(3000)]
tds = [timedelta(0), timedelta(microseconds=1), timedelta(microseconds=-1), timedelta(seconds=-1),
       timedelta(seconds=-1.5), timedelta(seconds=-0.5), timedelta(seconds=MAX_S), timedelta(seconds=-MAX_S),
       timedelta(microseconds=2**53 + 1), -timedelta(microseconds=2**53 + 1)]
tds += [rand_td() for _ in range(3000)]

for dt in dts:
    ref = timestamp_pb2.Timestamp()
    ref.FromDatetime(dt)
    assert 0 <= ref.nanos < 10**9
    m = TsMsg(ts=dt)
    raw = bytes(m)
    assert field1(raw) == ref.SerializeToString(), dt
    assert len(m) == len(raw), dt
    assert TsMsg().parse(raw).ts == dt, dt

for td in tds:
    ref = duration_pb2.Duration()
    ref.FromTimedelta(td)
    assert ref.seconds * ref.nanos >= 0
    m = DurMsg(d=td)
    raw = bytes(m)
    assert field1(raw) == ref.SerializeToString(), td
    assert len(m) == len(raw), td
    assert DurMsg().parse(raw).d == td, td

# larger messages: sizes, delimited streams (length prefix is a varint), round trip
stream = BytesIO()
originals = []
for i in range(400):
    n = rng.randint(0, 4)
    msg = Big(
        ts=rand_dt(),
        d=rand_td(),
        tss=[rand_dt() for _ in range(n)] + ([EPOCH] if i % 7 == 0 else []),
        ds=[rand_td() for _ in range(n)] + ([timedelta(0)] if i % 5 == 0 else []),
        mts={f"k{j}": rand_dt() for j in range(n)},
        mds={rng.randint(-(2**40), 2**40): rand_td() for _ in range(n)},
    )
    if i % 3 == 0:
        msg.ots = rand_dt()
    if i % 4 == 0:
        msg.od = rand_td() if i % 8 else timedelta(0)
    raw = bytes(msg)
    assert len(msg) == len(raw)
    back = Big().parse(raw)
    assert bytes(back) == raw
    for name in ("ts", "d", "tss", "ds", "mts", "mds", "ots", "od"):
        assert getattr(back, name) == getattr(msg, name), (i, name)
    msg.dump(stream, betterproto.SIZE_DELIMITED)
    originals.append(raw)

stream.seek(0)
for raw in originals:
    assert bytes(Big().load(stream, betterproto.SIZE_DELIMITED)) == raw
assert stream.read() == b""

print(f"ok: {len(values)} varints, {len(dts)} datetimes, {len(tds)} timedeltas, {len(originals)} messages")
