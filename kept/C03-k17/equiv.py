"""Equivalence check for keep1 (C03): field kind/cardinality descriptors of plugin/models.py."""
import glob
import hashlib
import os
import sys
import tempfile

WT = "/tmp/wt/R12C03"
sys.path.insert(0, WT + "/src")

import betterproto  # noqa: E402
from betterproto.lib.google.protobuf import (  # noqa: E402
    DescriptorProto,
    FieldDescriptorProto,
    FieldDescriptorProtoLabel,
    FieldDescriptorProtoType,
    FieldOptions,
    FileDescriptorProto,
    FileDescriptorSet,
    MessageOptions,
    OneofDescriptorProto,
)
from betterproto.lib.google.protobuf.compiler import CodeGeneratorRequest  # noqa: E402
from betterproto.plugin import compiler as plugin_compiler  # noqa: E402
from betterproto.plugin import models  # noqa: E402
from betterproto.plugin import parser as plugin_parser  # noqa: E402

assert betterproto.__file__.startswith(WT), betterproto.__file__
plugin_compiler.subprocess.check_output = lambda cmd, input, encoding: input
models.monkey_patch_oneof_index()

EXTRA_PROTO = r'''
syntax = "proto3";
package extra.pkg;
import "google/protobuf/wrappers.proto";
import "google/protobuf/timestamp.proto";
import "google/protobuf/duration.proto";

// An enum with aliases and negative numbers
enum Color {
  option allow_alias = true;
  COLOR_UNKNOWN = 0;
  COLOR_RED = 1;
  COLOR_CRIMSON = 1;
  COLOR_NEGATIVE = -5;
}

message Scalars {
  double f_double = 1; float f_float = 2; int32 f_int32 = 3; int64 f_int64 = 4;
  uint32 f_uint32 = 5; uint64 f_uint64 = 6; sint32 f_sint32 = 7; sint64 f_sint64 = 8;
  fixed32 f_fixed32 = 9; fixed64 f_fixed64 = 10; sfixed32 f_sfixed32 = 11;
  sfixed64 f_sfixed64 = 12; bool f_bool = 13; string f_string = 14; bytes f_bytes = 15;
  repeated double r_double = 21; repeated float r_float = 22; repeated int32 r_int32 = 23;
  repeated int64 r_int64 = 24; repeated uint32 r_uint32 = 25; repeated uint64 r_uint64 = 26;
  repeated sint32 r_sint32 = 27; repeated sint64 r_sint64 = 28; repeated fixed32 r_fixed32 = 29;
  repeated fixed64 r_fixed64 = 30; repeated sfixed32 r_sfixed32 = 31;
  repeated sfixed64 r_sfixed64 = 32; repeated bool r_bool = 33; repeated string r_string = 34;
  repeated bytes r_bytes = 35; repeated Color r_color = 36; repeated Scalars r_self = 37;
  optional double o_double = 41; optional int32 o_int32 = 43; optional bool o_bool = 53;
  optional string o_string = 54; optional bytes o_bytes = 55; optional Color o_color = 56;
  optional Scalars o_self = 57;
}

message Maps {
  map<int32, string> m_int32 = 1; map<int64, int64> m_int64 = 2; map<uint32, bool> m_uint32 = 3;
  map<uint64, bytes> m_uint64 = 4; map<sint32, double> m_sint32 = 5; map<sint64, float> m_sint64 = 6;
  map<fixed32, Color> m_fixed32 = 7; map<fixed64, Maps> m_fixed64 = 8;
  map<sfixed32, Scalars> m_sfixed32 = 9; map<sfixed64, google.protobuf.Timestamp> m_sfixed64 = 10;
  map<bool, google.protobuf.Int32Value> m_bool = 11; map<string, google.protobuf.Duration> m_string = 12;
  map<string, Nested.Inner> m_nested = 13;
  map<string, int32> snake_case_map = 14;
  message Nested {
    message Inner { int32 x = 1; map<string, Inner> again = 2; }
    enum Kind { KIND_A = 0; B = 1; }
    Inner inner = 1; Kind kind = 2;
  }
  // hand written look-alike, not a map
  message LookalikeEntry { string key = 1; int32 value = 2; }
  repeated LookalikeEntry lookalike = 20;
}

message OneOfs {
  oneof first { int32 a = 1; string b = 2; Color c = 3; OneOfs d = 4; google.protobuf.BoolValue e = 5; }
  int32 between = 6;
  oneof second { bytes f = 7; google.protobuf.Timestamp g = 8; google.protobuf.Duration h = 9; }
  optional int32 opt = 10;
  oneof single { double only = 11; }
  optional google.protobuf.StringValue opt_wrapped = 12;
}

message WellKnown {
  google.protobuf.DoubleValue w_double = 1; google.protobuf.FloatValue w_float = 2;
  google.protobuf.Int32Value w_int32 = 3; google.protobuf.Int64Value w_int64 = 4;
  google.protobuf.UInt32Value w_uint32 = 5; google.protobuf.UInt64Value w_uint64 = 6;
  google.protobuf.BoolValue w_bool = 7; google.protobuf.StringValue w_string = 8;
  google.protobuf.BytesValue w_bytes = 9; google.protobuf.Timestamp ts = 10;
  google.protobuf.Duration dur = 11; repeated google.protobuf.Timestamp r_ts = 12;
  repeated google.protobuf.Int32Value r_w = 13;
}

message Keywords {
  int32 int = 1; string str = 2; bool bool = 3; float float = 4; bytes bytes = 5;
  repeated int32 list = 6; int32 from = 7; int32 class = 8; int32 None = 9;
  map<string, int32> dict = 10; optional string type = 11;
  oneof in { int32 is = 12; string lambda = 13; }
}

message A { B b = 1; repeated A as = 2; }
message B { A a = 1; map<string, B> bs = 2; }
'''


def _protoc(proto_dir, names, out):
    from grpc_tools import protoc
    import grpc_tools

    inc = os.path.join(os.path.dirname(grpc_tools.__file__), "_proto")
    rc = protoc.main(
        ["protoc", f"-I{proto_dir}", f"-I{inc}", "--include_imports",
         "--include_source_info", f"--descriptor_set_out={out}", *names]
    )
    assert rc == 0, (proto_dir, names)
    with open(out, "rb") as fh:
        return fh.read()


def build_requests():
    """(label, serialized FileDescriptorSet, files to generate) for the corpus."""
    reqs = []
    tmp = tempfile.mkdtemp()
    for d in sorted(glob.glob(WT + "/tests/inputs/*/")):
        names = sorted(
            os.path.relpath(p, d) for p in glob.glob(d + "**/*.proto", recursive=True)
        )
        if not names:
            continue
        label = os.path.basename(d.rstrip("/"))
        reqs.append((label, _protoc(d, names, os.path.join(tmp, label + ".bin")), names))
    extra_dir = os.path.join(tmp, "extra")
    os.makedirs(extra_dir)
    with open(os.path.join(extra_dir, "extra.proto"), "w") as fh:
        fh.write(EXTRA_PROTO)
    reqs.append(("extra", _protoc(extra_dir, ["extra.proto"], os.path.join(tmp, "x.bin")), ["extra.proto"]))
    return reqs


def make_request(fds_bytes, names, parameter):
    fds = FileDescriptorSet().parse(fds_bytes)
    return CodeGeneratorRequest(
        file_to_generate=list(names), parameter=parameter, proto_file=fds.file
    )


def run_plugin(fds_bytes, names, parameter):
    """Runs generate_code and returns {file name: content}."""
    response = plugin_parser.generate_code(make_request(fds_bytes, names, parameter))
    return {f.name: f.content for f in response.file}


def normalise(content):
    """The stubbed-out ruff would sort the import block; imports_end is a set whose
    iteration order depends on the per-process string hash seed, so every run of
    consecutive top-level import lines is sorted before comparing."""
    out, run = [], []
    for line in content.split("\n"):
        if line.startswith(("from ", "import ")):
            run.append(line)
            continue
        out.extend(sorted(run))
        run = []
        out.append(line)
    out.extend(sorted(run))
    return "\n".join(out)


def corpus_digest(reqs, parameters=("", "pydantic_dataclasses", "typing.root", "typing.310", "INCLUDE_GOOGLE")):
    cwd = os.getcwd()
    os.chdir(tempfile.mkdtemp())
    sys_stderr = sys.stderr
    sys.stderr = open(os.devnull, "w")
    try:
        h = hashlib.sha256()
        n = 0
        for label, data, names in reqs:
            for parameter in parameters:
                files = run_plugin(data, names, parameter)
                assert files, label
                for name in sorted(files):
                    n += 1
                    h.update(repr((label, parameter, name, normalise(files[name]))).encode())
        return n, h.hexdigest()
    finally:
        sys.stderr = sys_stderr
        os.chdir(cwd)


def check_generated_package_against_descriptor(reqs):
    """Imports the package generated for EXTRA_PROTO and compares every dataclass
    field with the descriptor as parsed by google.protobuf (independent oracle)."""
    import dataclasses
    import importlib

    from google.protobuf import descriptor_pb2

    from betterproto.compile.naming import pythonize_class_name

    label, data, names = reqs[-1]
    assert label == "extra"
    out = tempfile.mkdtemp()
    cwd = os.getcwd()
    os.chdir(out)
    err, sys.stderr = sys.stderr, open(os.devnull, "w")
    try:
        files = run_plugin(data, names, "")
    finally:
        sys.stderr = err
        os.chdir(cwd)
    for name, content in files.items():
        path = os.path.join(out, name)
        os.makedirs(os.path.dirname(path), exist_ok=True)
        with open(path, "w") as fh:
            fh.write(content)
    sys.path.insert(0, out)
    mod = importlib.import_module("extra.pkg")
    fds = descriptor_pb2.FileDescriptorSet.FromString(data)
    fdp = [f for f in fds.file if f.name == "extra.proto"][0]
    T = descriptor_pb2.FieldDescriptorProto
    type_names = {v.number: v.name for v in T.Type.DESCRIPTOR.values}
    checked = 0

    def walk(msgs, prefix):
        for m in msgs:
            yield prefix + m.name, m
            yield from walk(m.nested_type, prefix + m.name + "_")

    def walk_enums(fdp):
        for e in fdp.enum_type:
            yield e.name, e
        for flat, m in walk(fdp.message_type, ""):
            for e in m.enum_type:
                yield flat + "_" + e.name, e

    for flat, m in walk(fdp.message_type, ""):
        if m.options.map_entry:
            continue
        cls = getattr(mod, pythonize_class_name(flat))
        by_number = {
            f.metadata["betterproto"].number: f for f in dataclasses.fields(cls)
        }
        assert len(by_number) == len(m.field) == len(dataclasses.fields(cls)), flat
        entries = {n.name: n for n in m.nested_type if n.options.map_entry}
        for fd in m.field:
            meta = by_number[fd.number].metadata["betterproto"]
            entry = entries.get(fd.type_name.split(".")[-1]) if fd.type == T.TYPE_MESSAGE else None
            if entry is not None:
                assert meta.proto_type == "map", (flat, fd.name)
                assert meta.map_types == (
                    type_names[entry.field[0].type][5:].lower(),
                    type_names[entry.field[1].type][5:].lower(),
                ), (flat, fd.name, meta.map_types)
            else:
                assert meta.proto_type == type_names[fd.type][5:].lower(), (flat, fd.name)
                assert meta.map_types is None
            in_oneof = fd.HasField("oneof_index") and not fd.proto3_optional
            assert meta.group == (m.oneof_decl[fd.oneof_index].name if in_oneof else None), (flat, fd.name, meta.group)
            assert bool(meta.optional) == bool(fd.proto3_optional), (flat, fd.name)
            wrapper = fd.type_name.startswith(".google.protobuf.") and fd.type_name.endswith("Value")
            assert (meta.wraps is not None) == (wrapper and entry is None), (flat, fd.name)
            checked += 1
    for flat, e in walk_enums(fdp):
        cls = getattr(mod, pythonize_class_name(flat))
        numbers = {member.value for member in cls}
        assert numbers == {v.number for v in e.value}, flat
        checked += 1
    return checked

GOLDEN = (825, "11c0161326dec4b527511a324c0f499934246c424279da3c6306ffa9f54f002e")


# ---------------------------------------------------------------------------
# unit level: FieldCompiler.field_type / packed / repeated / datetime_imports and
# the proto types of MapEntryCompiler against the original formulas
# ---------------------------------------------------------------------------
T = FieldDescriptorProtoType
L = FieldDescriptorProtoLabel
REF_PACKED = (
    T.TYPE_DOUBLE, T.TYPE_FLOAT, T.TYPE_INT64, T.TYPE_UINT64, T.TYPE_INT32,
    T.TYPE_FIXED64, T.TYPE_FIXED32, T.TYPE_BOOL, T.TYPE_UINT32, T.TYPE_SFIXED32,
    T.TYPE_SFIXED64, T.TYPE_SINT32, T.TYPE_SINT64,
)
EXPECTED_FIELD_TYPE = {
    1: "double", 2: "float", 3: "int64", 4: "uint64", 5: "int32", 6: "fixed64",
    7: "fixed32", 8: "bool", 9: "string", 10: "group", 11: "message", 12: "bytes",
    13: "uint32", 14: "enum", 15: "sfixed32", 16: "sfixed64", 17: "sint32", 18: "sint64",
}


def ref_field_type(t):
    return FieldDescriptorProtoType(t).name.lower().replace("type_", "")


def ref_datetime_imports(annotation):
    imports = set()
    if "timedelta" in annotation:
        imports.add("timedelta")
    if "datetime" in annotation:
        imports.add("datetime")
    return imports


assert sorted(models.PROTO_PACKED_TYPES) == sorted(REF_PACKED)
assert len(models.PROTO_PACKED_TYPES) == 13
for n in range(-3, 40):
    assert (n in models.PROTO_PACKED_TYPES) == (n in REF_PACKED), n
    assert (n in models.PROTO_PACKED_TYPES) == (n in {1, 2, 3, 4, 5, 6, 7, 8, 13, 15, 16, 17, 18})
assert {int(t): ref_field_type(t) for t in T} == EXPECTED_FIELD_TYPE


def new_output(package="unit.pkg", pydantic=False):
    request = models.PluginRequestCompiler(plugin_request_obj=CodeGeneratorRequest())
    out = models.OutputTemplate(
        parent_request=request,
        package_proto_obj=FileDescriptorProto(name="unit.proto", package=package),
        pydantic_dataclasses=pydantic,
    )
    request.output_packages[package] = out
    return out


TYPE_NAMES = {
    T.TYPE_MESSAGE: [".unit.pkg.Other", ".google.protobuf.Timestamp", ".google.protobuf.Duration",
                     ".google.protobuf.Int32Value", ".google.protobuf.StringValue", ".other.Datetimedelta",
                     ".unit.pkg.Msg.FEntry"],
    T.TYPE_ENUM: [".unit.pkg.Kind", ".elsewhere.Kind"],
}
KEY_TYPES = [T.TYPE_INT32, T.TYPE_INT64, T.TYPE_UINT32, T.TYPE_UINT64, T.TYPE_SINT32, T.TYPE_SINT64,
             T.TYPE_FIXED32, T.TYPE_FIXED64, T.TYPE_SFIXED32, T.TYPE_SFIXED64, T.TYPE_BOOL, T.TYPE_STRING]
VALUE_TYPES = [t for t in T if t != T.TYPE_GROUP]

count = 0
src = FileDescriptorProto(name="unit.proto", package="unit.pkg")
for raw in (False, True):  # enum member / plain int as decoded from the wire
    for t in T:
        if t == T.TYPE_GROUP:
            continue
        for type_name in TYPE_NAMES.get(t, [""]):
            for label in (L.LABEL_OPTIONAL, L.LABEL_REPEATED, L.LABEL_REQUIRED):
                for p3opt in (False, True):
                    if p3opt and label != L.LABEL_OPTIONAL:
                        continue
                    for with_entry in (False, True):
                        out = new_output()
                        fd = FieldDescriptorProto(
                            name="f", number=7, type=int(t) if raw else t,
                            label=int(label) if raw else label,
                            type_name=type_name, proto3_optional=p3opt,
                        )
                        nested = []
                        if with_entry:
                            nested.append(DescriptorProto(
                                name="FEntry",
                                field=[FieldDescriptorProto(name="key", number=1, type=T.TYPE_STRING, label=L.LABEL_OPTIONAL),
                                       FieldDescriptorProto(name="value", number=2, type=T.TYPE_INT32, label=L.LABEL_OPTIONAL)],
                                options=MessageOptions(map_entry=True),
                            ))
                        msg = DescriptorProto(name="Msg", field=[fd], nested_type=nested)
                        mc = models.MessageCompiler(source_file=src, parent=out, proto_obj=msg, path=[4, 0],
                                                    typing_compiler=out.typing_compiler)
                        fc = models.FieldCompiler(source_file=src, parent=mc, proto_obj=fd, path=[4, 0, 2, 0],
                                                  typing_compiler=out.typing_compiler)
                        assert fc.field_type == ref_field_type(t) == EXPECTED_FIELD_TYPE[int(t)]
                        assert type(fc.field_type) is str
                        is_a_map = models.is_map(fd, msg)
                        assert is_a_map == (with_entry and type_name.endswith(".FEntry"))
                        # FieldCompiler.repeated asks is_map about its MessageCompiler parent,
                        # which has no nested_type: never a map there
                        assert models.is_map(fd, mc) is False
                        ref_repeated = label == L.LABEL_REPEATED and not models.is_map(fd, mc)
                        assert fc.repeated is ref_repeated, (t, label, type_name)
                        assert fc.packed is (ref_repeated and t in REF_PACKED), (t, label)
                        ann = fc.annotation
                        assert fc.datetime_imports == ref_datetime_imports(ann), ann
                        assert type(fc.datetime_imports) is set
                        assert out.datetime_imports == ref_datetime_imports(ann)
                        assert fc.get_field_string().startswith(
                            f"f: {ann} = betterproto.{EXPECTED_FIELD_TYPE[int(t)]}_field(7"
                        )
                        count += 1
# unknown type numbers are rejected the same way
for bad in (0, 19, 99, -1):
    out = new_output()
    fd = FieldDescriptorProto(name="f", number=1, type=bad)
    mc = models.MessageCompiler(source_file=src, parent=out, proto_obj=DescriptorProto(name="M", field=[fd]),
                                path=[4, 0], typing_compiler=out.typing_compiler)
    try:
        models.FieldCompiler(source_file=src, parent=mc, proto_obj=fd, path=[4, 0, 2, 0],
                             typing_compiler=out.typing_compiler)
    except NotImplementedError:
        pass  # py_type, reached from add_imports_to before field_type is ever asked
    else:
        raise AssertionError(bad)

# map entries: every key kind x every value kind, names with underscores / capitals
maps = 0
for fname, ename in (("f", "FEntry"), ("snake_case_map", "SnakeCaseMapEntry"), ("mixedCase", "MixedCaseEntry")):
    for k in KEY_TYPES:
        for v in VALUE_TYPES:
            for vt in TYPE_NAMES.get(v, [""])[:5]:
                for raw in (False, True):
                    out = new_output()
                    entry = DescriptorProto(
                        name=ename,
                        field=[FieldDescriptorProto(name="key", number=1, type=int(k) if raw else k, label=L.LABEL_OPTIONAL),
                               FieldDescriptorProto(name="value", number=2, type=int(v) if raw else v, label=L.LABEL_OPTIONAL, type_name=vt)],
                        options=MessageOptions(map_entry=True),
                    )
                    fd = FieldDescriptorProto(name=fname, number=3, type=T.TYPE_MESSAGE, label=L.LABEL_REPEATED,
                                              type_name=".unit.pkg.Msg." + ename)
                    msg = DescriptorProto(name="Msg", field=[fd], nested_type=[entry])
                    assert models.is_map(fd, msg)
                    mc = models.MessageCompiler(source_file=src, parent=out, proto_obj=msg, path=[4, 0],
                                                typing_compiler=out.typing_compiler)
                    me = models.MapEntryCompiler(source_file=src, parent=mc, proto_obj=fd, path=[4, 0, 2, 0],
                                                 typing_compiler=out.typing_compiler)
                    assert me.proto_k_type == FieldDescriptorProtoType(k).name == "TYPE_" + EXPECTED_FIELD_TYPE[int(k)].upper()
                    assert me.proto_v_type == FieldDescriptorProtoType(v).name == "TYPE_" + EXPECTED_FIELD_TYPE[int(v)].upper()
                    assert type(me.proto_k_type) is str and type(me.proto_v_type) is str
                    assert me.field_type == "map" and me.repeated is False and me.packed is False
                    assert me.betterproto_field_args == [f"betterproto.{me.proto_k_type}", f"betterproto.{me.proto_v_type}"]
                    assert hasattr(betterproto, me.proto_k_type) and hasattr(betterproto, me.proto_v_type)
                    assert me.datetime_imports == ref_datetime_imports(me.annotation)
                    assert me.get_field_string().endswith(
                        f"betterproto.map_field(3, betterproto.{me.proto_k_type}, betterproto.{me.proto_v_type})"
                    )
                    # the two helper FieldCompilers were registered as children, key first
                    assert [c.proto_obj.name for c in me.fields] == ["key", "value"]
                    maps += 1

# ---------------------------------------------------------------------------
# end to end: plugin output for tests/inputs + the extra schema
# ---------------------------------------------------------------------------
reqs = build_requests()
checked = check_generated_package_against_descriptor(reqs)
n_files, digest = corpus_digest(reqs)
assert (n_files, digest) == GOLDEN, (n_files, digest)  # pristine-tree digest
print(f"equiv OK: {count} field cases, {maps} map cases, {checked} generated classes fields/enums checked, "
      f"{n_files} generated files match the golden digest")
