"""Equivalence check for the per-class metadata that every C14 mechanism reads.

ProtoClassMetadata (built once per message class) provides the tables behind
lazy defaults (default_gen), the oneof guard in __getattribute__ and the sibling
reset in __setattr__ (oneof_group_by_field / oneof_field_by_group), the field
order used by copy / deepcopy / repr (sorted_field_names), the decoder's lookups
(field_name_by_number, cls_by_field) and the dict loaders (field_name_by_key).

The script recomputes every table independently (dataclasses + typing
introspection only) for a zoo of hand-written message classes and for every
message class shipped in betterproto.lib, compares them with what the library
built, and then checks the behaviour that depends on them: lazy defaults,
oneof bookkeeping, and the C14 statement itself (observers are pure; copy,
deepcopy and pickle are faithful and independent) on random messages.

It must pass unchanged before and after the refactor.
"""
import copy
import dataclasses
import inspect
import pickle
import random
import sys
import types
import typing
from dataclasses import dataclass
from datetime import datetime, timedelta, timezone
from typing import Dict, List, Optional, Union

import betterproto
from betterproto import Casing, FieldMetadata
from betterproto.lib.std.google import protobuf as std_pb

rng = random.Random(1014)
EPOCH = datetime(1970, 1, 1, tzinfo=timezone.utc)


# ------------------------------------------------------------------------ the zoo
class Kind(betterproto.Enum):
    K_ZERO = 0
    K_ONE = 1
    K_NEG = -2


@dataclass(eq=False, repr=False)
class Leaf(betterproto.Message):
    n: int = betterproto.int32_field(1)
    tags: List[str] = betterproto.string_field(2)


@dataclass(eq=False, repr=False)
class Void(betterproto.Message):
    pass


@dataclass(eq=False, repr=False)
class Plain(betterproto.Message):
    # numbers deliberately out of declaration order
    zeta: int = betterproto.int64_field(26)
    alpha: str = betterproto.string_field(1)
    mid: bytes = betterproto.bytes_field(13)
    flag: bool = betterproto.bool_field(2)
    ratio: float = betterproto.double_field(1000)
    kind: Kind = betterproto.enum_field(3)
    leaf: Leaf = betterproto.message_field(4)
    void: Void = betterproto.message_field(5)
    when: datetime = betterproto.message_field(6)
    span: timedelta = betterproto.message_field(7)
    big: int = betterproto.fixed64_field(536870911)  # largest field number


@dataclass(eq=False, repr=False)
class Containers(betterproto.Message):
    ints: List[int] = betterproto.sint32_field(1)
    names: List[str] = betterproto.string_field(2)
    kinds: List[Kind] = betterproto.enum_field(3)
    leaves: List[Leaf] = betterproto.message_field(4)
    whens: List[datetime] = betterproto.message_field(5)
    spans: List[timedelta] = betterproto.message_field(6)
    counts: Dict[str, int] = betterproto.map_field(
        7, betterproto.TYPE_STRING, betterproto.TYPE_INT64
    )
    by_id: Dict[int, Leaf] = betterproto.map_field(
        8, betterproto.TYPE_UINT32, betterproto.TYPE_MESSAGE
    )
    kinds_by_name: Dict[str, Kind] = betterproto.map_field(
        9, betterproto.TYPE_STRING, betterproto.TYPE_ENUM
    )
    flags: Dict[bool, bytes] = betterproto.map_field(
        10, betterproto.TYPE_BOOL, betterproto.TYPE_BYTES
    )
    # PEP 585 builtin generics
    modern: list[int] = betterproto.uint64_field(11)
    modern_map: dict[str, str] = betterproto.map_field(
        12, betterproto.TYPE_STRING, betterproto.TYPE_STRING
    )
    wrapped_list: List[int] = betterproto.message_field(
        13, wraps=betterproto.TYPE_INT32
    )


@dataclass(eq=False, repr=False)
class Optionals(betterproto.Message):
    a: Optional[int] = betterproto.int32_field(1, optional=True)
    b: Optional[str] = betterproto.string_field(2, optional=True)
    c: Optional[Leaf] = betterproto.message_field(3, optional=True)
    d: Optional[Kind] = betterproto.enum_field(4, optional=True)
    e: Optional[datetime] = betterproto.message_field(5, optional=True)
    f: Union[bytes, None] = betterproto.bytes_field(6, optional=True)
    # PEP 604 unions
    g: int | None = betterproto.sint64_field(7, optional=True)
    h: Leaf | None = betterproto.message_field(8, optional=True)
    # wrapper types
    w_int: Optional[int] = betterproto.message_field(9, wraps=betterproto.TYPE_INT64)
    w_str: Optional[str] = betterproto.message_field(10, wraps=betterproto.TYPE_STRING)
    w_bool: bool | None = betterproto.message_field(11, wraps=betterproto.TYPE_BOOL)
    w_float: Optional[float] = betterproto.message_field(
        12, wraps=betterproto.TYPE_DOUBLE
    )


@dataclass(eq=False, repr=False)
class Choices(betterproto.Message):
    # two groups, interleaved with plain fields and with each other
    head: int = betterproto.int32_field(1)
    x_int: int = betterproto.int32_field(10, group="x")
    y_str: str = betterproto.string_field(4, group="y")
    x_str: str = betterproto.string_field(3, group="x")
    mid: str = betterproto.string_field(2)
    y_leaf: Leaf = betterproto.message_field(5, group="y")
    x_leaf: Leaf = betterproto.message_field(6, group="x")
    x_kind: Kind = betterproto.enum_field(7, group="x")
    y_void: Void = betterproto.message_field(8, group="y")
    x_when: datetime = betterproto.message_field(9, group="x")
    lone: bytes = betterproto.bytes_field(11, group="single")
    tail: List[int] = betterproto.int32_field(12)


@dataclass(eq=False, repr=False)
class Tree(betterproto.Message):
    # forward references given as strings, recursion
    value: int = betterproto.int32_field(1)
    left: "Tree" = betterproto.message_field(2)
    right: "Tree" = betterproto.message_field(3)
    children: List["Tree"] = betterproto.message_field(4)
    index: Dict[str, "Tree"] = betterproto.map_field(
        5, betterproto.TYPE_STRING, betterproto.TYPE_MESSAGE
    )
    maybe: Optional["Tree"] = betterproto.message_field(6, optional=True)
    alt: "Leaf" = betterproto.message_field(7, group="pick")
    alt_tree: "Tree" = betterproto.message_field(8, group="pick")


@dataclass(eq=False, repr=False)
class Casings(betterproto.Message):
    address_line_1: str = betterproto.string_field(1)
    address_line1: str = betterproto.string_field(2)
    camelCase: int = betterproto.int32_field(3)
    camel_case: int = betterproto.int32_field(4)
    type_: str = betterproto.string_field(5)
    UPPER: str = betterproto.string_field(6)
    snake_case_name: str = betterproto.string_field(7)
    snakeCaseName: str = betterproto.string_field(8)


@dataclass(eq=False, repr=False)
class PydanticStyle(betterproto.Message):
    # every oneof member optional, as the pydantic mode declares them
    p_int: Optional[int] = betterproto.int32_field(1, optional=True, group="p")
    p_str: Optional[str] = betterproto.string_field(2, optional=True, group="p")
    p_leaf: Optional[Leaf] = betterproto.message_field(3, optional=True, group="p")
    other: int = betterproto.int32_field(4)


ZOO = [Leaf, Void, Plain, Containers, Optionals, Choices, Tree, Casings, PydanticStyle]


def library_classes():
    found = []
    modules = [std_pb]
    try:
        from betterproto.lib.std.google.protobuf import compiler as std_compiler

        modules.append(std_compiler)
    except Exception:  # pragma: no cover
        pass
    try:  # the pydantic flavour of the same classes (every oneof member optional)
        from betterproto.lib.pydantic.google import protobuf as pydantic_pb

        modules.append(pydantic_pb)
    except Exception:  # pragma: no cover - pydantic not installed
        pass
    for module in modules:
        for _, obj in sorted(vars(module).items()):
            if (
                inspect.isclass(obj)
                and issubclass(obj, betterproto.Message)
                and obj is not betterproto.Message
                and dataclasses.is_dataclass(obj)
                and obj.__module__ == module.__name__
            ):
                found.append(obj)
    return found


# ------------------------------------------------- independent table computation
def hints_of(cls):
    return typing.get_type_hints(cls, vars(sys.modules[cls.__module__]), {})


def is_union(hint):
    return typing.get_origin(hint) in (Union, types.UnionType)


def expected_default_kind(hint):
    """('none' | 'list' | 'dict' | 'enum' | 'datetime' | 'call', payload)"""
    origin = typing.get_origin(hint)
    if is_union(hint):
        return "none", None
    if origin is list:
        return "list", None
    if origin is dict:
        return "dict", None
    if origin is not None:
        return "call", hint
    if issubclass(hint, betterproto.Enum):
        return "enum", hint
    if hint is datetime:
        return "datetime", None
    return "call", hint


def check_tables(cls):
    meta = cls._betterproto
    assert cls._betterproto is meta, "metadata must be cached per class"
    fields = dataclasses.fields(cls)
    hints = hints_of(cls)
    names = [f.name for f in fields]
    metas = {f.name: f.metadata["betterproto"] for f in fields}

    # meta_by_field_name: declaration order matters (dump / to_dict iterate it)
    assert list(meta.meta_by_field_name) == names, (cls, list(meta.meta_by_field_name), names)
    for name in names:
        assert meta.meta_by_field_name[name] is metas[name]
        assert meta.meta_by_field_name[name] is FieldMetadata.get(cls.__dataclass_fields__[name])

    # field_name_by_number and sorted_field_names
    assert meta.field_name_by_number == {metas[n].number: n for n in names}
    assert list(meta.field_name_by_number) == [metas[n].number for n in names]
    by_number = sorted(names, key=lambda n: metas[n].number)
    assert type(meta.sorted_field_names) is tuple
    assert list(meta.sorted_field_names) == by_number
    assert sorted(meta.sorted_field_names) == sorted(names)

    # oneof tables
    exp_group_by_field = {n: metas[n].group for n in names if metas[n].group}
    assert meta.oneof_group_by_field == exp_group_by_field
    assert list(meta.oneof_group_by_field) == list(exp_group_by_field)
    exp_groups = {}
    for f in fields:
        if metas[f.name].group:
            exp_groups.setdefault(metas[f.name].group, []).append(f)
    assert list(meta.oneof_field_by_group) == list(exp_groups)
    for group, members in exp_groups.items():
        got = meta.oneof_field_by_group[group]
        assert type(got) is set and len(got) == len(members)
        assert all(any(g is m for g in got) for m in members)
        assert {g.name for g in got} == {m.name for m in members}

    # default_gen
    assert list(meta.default_gen) == names
    for name in names:
        gen = meta.default_gen[name]
        kind, payload = expected_default_kind(hints[name])
        if kind == "none":
            assert gen is type(None) and gen() is None
        elif kind == "list":
            assert gen is list
        elif kind == "dict":
            assert gen is dict
        elif kind == "enum":
            assert gen.__self__ is payload and gen.__func__ is payload.try_value.__func__
            zero = gen()
            assert type(zero) is payload and zero == 0
        elif kind == "datetime":
            assert gen is betterproto.datetime_default_gen and gen() == EPOCH
        else:
            assert gen is payload
        assert cls._get_field_default_gen(cls.__dataclass_fields__[name]) == gen

    # cls_by_field
    expected_keys = []
    for name in names:
        hint = hints[name]
        args = typing.get_args(hint)
        if metas[name].proto_type == betterproto.TYPE_MAP:
            expected_keys += [name, f"{name}.value"]
            entry = meta.cls_by_field[name]
            assert issubclass(entry, betterproto.Message) and entry.__name__ == "Entry"
            entry_fields = dataclasses.fields(entry)
            assert [f.name for f in entry_fields] == ["key", "value"]
            assert [f.type for f in entry_fields] == [args[0], args[1]]
            key_meta, value_meta = (FieldMetadata.get(f) for f in entry_fields)
            assert (key_meta.number, key_meta.proto_type) == (1, metas[name].map_types[0])
            assert (value_meta.number, value_meta.proto_type) == (2, metas[name].map_types[1])
            assert meta.cls_by_field[f"{name}.value"] is args[1]
        else:
            expected_keys.append(name)
            assert meta.cls_by_field[name] is (args[0] if args else hint), name
        # _cls_for itself
        field = cls.__dataclass_fields__[name]
        assert cls._cls_for(field) is (args[0] if args else hint)
        assert cls._cls_for(field, index=-1) is hint or cls._cls_for(field, index=-1) == hint
        if len(args) > 1:
            assert cls._cls_for(field, index=1) is args[1]
    assert list(meta.cls_by_field) == expected_keys

    # field_name_by_key
    exp_keys = {}
    for name in names:
        for casing in (Casing.CAMEL, Casing.SNAKE):
            exp_keys.setdefault(casing(name).rstrip("_"), name)
    for name in names:
        exp_keys[name] = name
    assert meta.field_name_by_key == exp_keys


# -------------------------------------------------------------------- behaviour
def check_lazy_defaults(cls):
    hints = hints_of(cls)
    a, b = cls(), cls()
    before = bytes(a)
    assert before == b""
    for name, fmeta in cls._betterproto.meta_by_field_name.items():
        kind, payload = expected_default_kind(hints[name])
        if fmeta.group:
            for obj in (a, b):
                try:
                    getattr(obj, name)
                except AttributeError:
                    pass
                else:
                    raise AssertionError(f"{cls.__name__}.{name}: unset oneof member readable")
            assert not a.is_set(name)
            continue
        va, vb = getattr(a, name), getattr(b, name)
        if kind == "none":
            assert va is None and vb is None
        elif kind == "list":
            assert va == [] and type(va) is list and va is not vb
            assert getattr(a, name) is va, "mutable default must be kept"
        elif kind == "dict":
            assert va == {} and type(va) is dict and va is not vb
            assert getattr(a, name) is va
        elif kind == "enum":
            assert type(va) is payload and va == 0
        elif kind == "datetime":
            assert va == EPOCH
        else:
            assert type(va) is payload and va == payload()
            if issubclass(payload, betterproto.Message):
                assert va is not vb and getattr(a, name) is va
                assert not betterproto.serialized_on_wire(va)
        assert not a.is_set(name), (cls.__name__, name)
    assert bytes(a) == b"" and len(a) == 0 and not a and a == cls()
    assert not betterproto.serialized_on_wire(a)
    for clone in (copy.copy(a), copy.deepcopy(a), pickle.loads(pickle.dumps(a))):
        assert clone == a and bytes(clone) == b""
        for name in cls._betterproto.meta_by_field_name:
            assert not clone.is_set(name)


def check_oneofs(cls):
    meta = cls._betterproto
    for group, members in meta.oneof_field_by_group.items():
        ordered = [n for n in meta.meta_by_field_name if n in {f.name for f in members}]
        m = cls()
        assert betterproto.which_one_of(m, group) == ("", None)
        for name in ordered + ordered[::-1]:
            value = sample_value(cls, name, depth=1, force=True)
            setattr(m, name, value)
            assert betterproto.which_one_of(m, group)[0] == name
            for other in ordered:
                if other != name:
                    assert object.__getattribute__(m, other) is betterproto.PLACEHOLDER
                    assert not m.is_set(other)
                    try:
                        getattr(m, other)
                    except AttributeError:
                        pass
                    else:
                        raise AssertionError("displaced oneof member still readable")
            for how, clone in clones_of(m):
                assert betterproto.which_one_of(clone, group)[0] == name, how
                assert clone == m and bytes(clone) == bytes(m), how
        # other groups are untouched
        for other_group in meta.oneof_field_by_group:
            if other_group != group:
                assert betterproto.which_one_of(m, other_group) == ("", None)


INTS = [0, 1, -1, 127, 128, 2**31 - 1, -(2**31)]
TEXTS = ["", "a", "héllo", "x" * 40]
WHENS = [EPOCH, datetime(2026, 10, 5, 1, 2, 3, 456789, tzinfo=timezone.utc),
         datetime(1969, 12, 31, 23, 59, 59, 999999, tzinfo=timezone.utc)]
SPANS = [timedelta(0), timedelta(seconds=5, microseconds=7), timedelta(days=-2, microseconds=1)]
SCALARS = {
    "int32": INTS, "sint32": INTS, "sfixed32": INTS,
    "int64": INTS + [2**63 - 1, -(2**63)], "sint64": INTS + [2**63 - 1, -(2**63)],
    "sfixed64": INTS + [2**63 - 1], "uint32": [0, 1, 2**32 - 1], "fixed32": [0, 7, 2**32 - 1],
    "uint64": [0, 1, 2**64 - 1], "fixed64": [0, 9, 2**64 - 1],
    "bool": [False, True], "string": TEXTS, "bytes": [b"", b"\x00\xff", b"abc"],
    "double": [0.0, 1.5, -2.25, 1e300], "float": [0.0, 1.5, -2.25, 65536.0],
}


def sample_scalar(proto_type, enum_cls=None):
    if proto_type == "enum":
        return enum_cls.try_value(rng.choice([0, 1, -2, 9]))
    return rng.choice(SCALARS[proto_type])


def sample_message(cls, depth):
    m = cls()
    if depth > 1:
        return m
    chosen_groups = set()
    for name, fmeta in cls._betterproto.meta_by_field_name.items():
        if rng.random() < 0.5:
            continue
        if fmeta.group:
            if fmeta.group in chosen_groups:
                continue
            chosen_groups.add(fmeta.group)
        value = sample_value(cls, name, depth)
        if value is not None:
            setattr(m, name, value)
    return m


def sample_value(cls, name, depth, force=False):
    meta = cls._betterproto
    fmeta = meta.meta_by_field_name[name]
    target = meta.cls_by_field[name]
    gen = meta.default_gen[name]
    pt = fmeta.proto_type
    if pt == betterproto.TYPE_MAP:
        kt, vt = fmeta.map_types
        value_cls = meta.cls_by_field[f"{name}.value"]
        out = {}
        for _ in range(rng.randrange(0, 4)):
            key = sample_scalar(kt)
            if vt == "message":
                out[key] = sample_message(value_cls, depth + 1)
            else:
                out[key] = sample_scalar(vt, value_cls)
        return out

    def one():
        if pt != "message":
            return sample_scalar(pt, target)
        if target is datetime:
            return rng.choice(WHENS)
        if target is timedelta:
            return rng.choice(SPANS)
        if fmeta.wraps:
            return sample_scalar(fmeta.wraps)
        return sample_message(target, depth + 1)

    if gen is list:
        return [one() for _ in range(rng.randrange(0, 4))]
    if gen is type(None) and not force and rng.random() < 0.2:
        return None
    return one()


def tracks_presence(cls, name):
    """Fields whose is_set() survives the wire (a plain scalar, or a datetime /
    timedelta, that was explicitly set to its zero value is simply not sent)."""
    meta = cls._betterproto
    fmeta = meta.meta_by_field_name[name]
    if fmeta.optional or fmeta.group or fmeta.wraps:
        return True
    if meta.default_gen[name] in (list, dict):
        return True
    return fmeta.proto_type == "message" and meta.cls_by_field[name] not in (
        datetime,
        timedelta,
    )


def snapshot(m, wire_only=False):
    meta = type(m)._betterproto
    return (
        bytes(m),
        tuple(
            m.is_set(n)
            for n in meta.meta_by_field_name
            if not wire_only or tracks_presence(type(m), n)
        ),
        tuple(betterproto.which_one_of(m, g)[0] for g in meta.oneof_field_by_group),
        betterproto.serialized_on_wire(m),
    )


def clones_of(m):
    return [
        ("copy", copy.copy(m)),
        ("deepcopy", copy.deepcopy(m)),
        ("pickle", pickle.loads(pickle.dumps(m))),
    ]


def to_pydict_observer(m):
    try:
        return m.to_pydict()
    except AttributeError as exc:
        # to_pydict cannot convert repeated Timestamp / Duration fields (before and
        # after the refactor alike); it still must not modify the message.
        assert "to_pydict" in str(exc), exc


def run_observers(m):
    order = [
        lambda: bytes(m), lambda: len(m), lambda: bool(m), lambda: repr(m),
        lambda: m == m, lambda: m.to_dict(), lambda: m.to_json(),
        lambda: to_pydict_observer(m), lambda: m.to_dict(Casing.SNAKE),
        lambda: [getattr(m, n, None) for n in type(m)._betterproto.meta_by_field_name],
    ]
    rng.shuffle(order)
    for observer in order:
        observer()


def mutate(m):
    """Change something in m (in place where possible); returns True if done."""
    meta = type(m)._betterproto
    names = list(meta.meta_by_field_name)
    rng.shuffle(names)
    for name in names:
        fmeta = meta.meta_by_field_name[name]
        if fmeta.group:
            continue
        gen = meta.default_gen[name]
        if gen is list:
            getattr(m, name).append(sample_value(type(m), name, 1, force=True)[:1] or None)
            if getattr(m, name)[-1] is None:
                getattr(m, name).pop()
                continue
            getattr(m, name)[-1] = getattr(m, name)[-1][0]
            return True
        if gen is dict and fmeta.map_types[1] != "message":
            kt, vt = fmeta.map_types
            key = sample_scalar(kt)
            new = sample_scalar(vt, meta.cls_by_field[f"{name}.value"])
            if getattr(m, name).get(key, object()) == new:
                continue
            getattr(m, name)[key] = new
            return True
        if fmeta.proto_type in ("int32", "int64", "sint32", "sint64"):
            setattr(m, name, (getattr(m, name) or 0) + 1)
            return True
        if fmeta.proto_type == "string" and not fmeta.wraps:
            setattr(m, name, (getattr(m, name) or "") + "!")
            return True
    return False


def check_c14(cls, rounds):
    for _ in range(rounds):
        m = sample_message(cls, 0)
        before = snapshot(m)
        frozen = pickle.dumps(m)
        run_observers(m)
        assert snapshot(m) == before, cls.__name__
        assert pickle.dumps(m) == frozen
        for how, clone in clones_of(m):
            assert type(clone) is cls
            assert clone == m and m == clone, (cls.__name__, how)
            wire = how == "pickle"
            assert snapshot(clone, wire)[:3] == snapshot(m, wire)[:3], (
                cls.__name__, how, snapshot(clone, wire), snapshot(m, wire)
            )
        assert snapshot(m) == before
        # independence of deep / unpickled copies
        for how, clone in clones_of(m)[1:]:
            if mutate(clone):
                assert bytes(clone) != before[0] or clone != m, (cls.__name__, how)
            assert snapshot(m) == before, (cls.__name__, how)
        # and the other way round
        deep = copy.deepcopy(m)
        reference = snapshot(deep)
        mutate(m)
        assert snapshot(deep) == reference


def check_decoding(cls, rounds):
    """field_name_by_number / cls_by_field drive parse(): round trips must hold."""
    for _ in range(rounds):
        m = sample_message(cls, 0)
        data = bytes(m)
        back = cls().parse(data)
        assert back == m and bytes(back) == data
        # unknown numbers are kept verbatim
        junk = b"\xf8\xff\xff\xff\x0f\x01" + b"\xf2\xff\xff\xff\x0f\x02hi"
        known = set(cls._betterproto.field_name_by_number)
        if 0x1FFFFFFF not in known and 0x1FFFFFFE not in known:
            with_junk = cls().parse(data + junk)
            assert with_junk == m and bytes(with_junk) == data + junk
            for how, clone in clones_of(with_junk):
                assert bytes(clone) == data + junk, how
        # dict loaders use field_name_by_key
        for casing in (Casing.CAMEL, Casing.SNAKE):
            try:
                as_dict = m.to_dict(casing)
            except Exception:
                continue
            again = cls().from_dict(as_dict)
            assert bytes(cls().from_dict(again.to_dict(casing))) == bytes(again)


def check_casing_keys():
    keys = Casings._betterproto.field_name_by_key
    # exact names always map to themselves, derived keys to the first declarer
    assert keys["address_line_1"] == "address_line_1"
    assert keys["address_line1"] == "address_line1"
    assert keys["addressLine1"] == "address_line_1"
    assert keys["camelCase"] == "camelCase" and keys["camel_case"] == "camel_case"
    assert keys["type"] == "type_" and keys["type_"] == "type_"
    assert keys["snakeCaseName"] == "snakeCaseName"
    assert keys["snake_case_name"] == "snake_case_name"
    m = Casings().from_dict(
        {"addressLine1": "one", "address_line1": "two", "type": "t", "snakeCaseName": "s"}
    )
    assert (m.address_line_1, m.address_line1, m.type_, m.snakeCaseName) == ("one", "two", "t", "s")
    assert m.snake_case_name == ""


def check_bad_declarations():
    """Error paths of the metadata builder stay the same."""

    @dataclass(eq=False, repr=False)
    class NotAField(betterproto.Message):
        x: int = 0

    try:
        NotAField._betterproto
    except KeyError as exc:
        assert exc.args == ("betterproto",)
    else:
        raise AssertionError("plain dataclass field accepted")

    @dataclass(eq=False, repr=False)
    class Unresolvable(betterproto.Message):
        x: "DoesNotExistAnywhere" = betterproto.message_field(1)  # noqa: F821

    try:
        Unresolvable._betterproto
    except NameError:
        pass
    else:
        raise AssertionError("unresolvable annotation accepted")


if __name__ == "__main__":
    lib = library_classes()
    assert len(lib) > 40, len(lib)
    for cls in ZOO + lib:
        check_tables(cls)
        check_lazy_defaults(cls)
    check_casing_keys()
    check_bad_declarations()
    for cls in ZOO:
        check_oneofs(cls)
        check_c14(cls, 80)
        check_decoding(cls, 40)
    for cls in (std_pb.Value, std_pb.Struct, std_pb.FieldDescriptorProto, std_pb.Any,
                std_pb.FileOptions, std_pb.Type, std_pb.Api):
        check_oneofs(cls)
    print(f"keep2 equiv: all checks passed ({len(ZOO)} + {len(lib)} classes)")
