"""Equivalence check for the table-driven ``_wire_type_matches`` / ``_pack_fmt``.

Part 1 checks the two helpers directly against an independent specification.
Part 2 drives them through Message.dump / Message.load with SIZE_DELIMITED
framing: all scalar kinds (singular, packed, unpacked), readers with an older or
diverging schema (wire type mismatch -> unknown field), cut streams, and a
cross-check against google.protobuf's length-prefixed reader / writer.
"""
import random
import struct
from dataclasses import dataclass
from io import BytesIO
from typing import Dict, List

import betterproto
from betterproto import SIZE_DELIMITED

rnd = random.Random(0xC10)

# ---------------------------------------------------------------------------
# Part 1: the helpers themselves
# ---------------------------------------------------------------------------
VARINT = {"enum", "bool", "int32", "int64", "uint32", "uint64", "sint32", "sint64"}
FIX32 = {"float", "fixed32", "sfixed32"}
FIX64 = {"double", "fixed64", "sfixed64"}
LEN = {"string", "bytes", "message", "map"}
ALL_TYPES = sorted(VARINT | FIX32 | FIX64 | LEN)
assert len(ALL_TYPES) == 18


def spec_matches(wire_type, proto_type, repeated):
    if wire_type == 0:
        return proto_type in VARINT
    if wire_type == 5:
        return proto_type in FIX32
    if wire_type == 1:
        return proto_type in FIX64
    if wire_type == 2:
        return proto_type in LEN or (
            repeated and proto_type in (VARINT | FIX32 | FIX64)
        )
    return False


checked = 0
for wire_type in range(-3, 12):
    for proto_type in ALL_TYPES + ["group", "", "INT32", "float32", "str"]:
        for repeated in (False, True):
            got = betterproto._wire_type_matches(wire_type, proto_type, repeated)
            want = spec_matches(wire_type, proto_type, repeated)
            assert got is want, (wire_type, proto_type, repeated, got, want)
            checked += 1
assert checked == 15 * 23 * 2

FMT = {
    "double": "<d",
    "float": "<f",
    "fixed32": "<I",
    "fixed64": "<Q",
    "sfixed32": "<i",
    "sfixed64": "<q",
}
for proto_type in ALL_TYPES + ["group", ""]:
    if proto_type in FMT:
        assert betterproto._pack_fmt(proto_type) == FMT[proto_type]
        assert isinstance(betterproto._pack_fmt(proto_type), str)
    else:
        try:
            betterproto._pack_fmt(proto_type)
        except KeyError as e:
            assert e.args == (proto_type,)
        else:
            raise AssertionError(proto_type)

# the constants the tables are built from are unchanged
assert betterproto.WIRE_VARINT_TYPES == [
    "enum", "bool", "int32", "int64", "uint32", "uint64", "sint32", "sint64"]
assert betterproto.WIRE_FIXED_32_TYPES == ["float", "fixed32", "sfixed32"]
assert betterproto.WIRE_FIXED_64_TYPES == ["double", "fixed64", "sfixed64"]
assert betterproto.WIRE_LEN_DELIM_TYPES == ["string", "bytes", "message", "map"]
assert set(betterproto.PACKED_TYPES) == VARINT | FIX32 | FIX64
assert (betterproto.WIRE_VARINT, betterproto.WIRE_FIXED_64,
        betterproto.WIRE_LEN_DELIM, betterproto.WIRE_FIXED_32) == (0, 1, 2, 5)


# ---------------------------------------------------------------------------
# Part 2: end to end through dump / load
# ---------------------------------------------------------------------------
class Color(betterproto.Enum):
    ZERO = 0
    ONE = 1
    BIG = 2147483647
    NEG = -1


@dataclass(eq=False, repr=False)
class Sub(betterproto.Message):
    x: int = betterproto.sint64_field(1)
    name: str = betterproto.string_field(2)


@dataclass(eq=False, repr=False)
class All(betterproto.Message):
    i32: int = betterproto.int32_field(1)
    i64: int = betterproto.int64_field(2)
    u32: int = betterproto.uint32_field(3)
    u64: int = betterproto.uint64_field(4)
    s32: int = betterproto.sint32_field(5)
    s64: int = betterproto.sint64_field(6)
    b: bool = betterproto.bool_field(7)
    e: Color = betterproto.enum_field(8)
    f32: int = betterproto.fixed32_field(9)
    sf32: int = betterproto.sfixed32_field(10)
    f64: int = betterproto.fixed64_field(11)
    sf64: int = betterproto.sfixed64_field(12)
    fl: float = betterproto.float_field(13)
    db: float = betterproto.double_field(14)
    s: str = betterproto.string_field(15)
    by: bytes = betterproto.bytes_field(16)
    sub: Sub = betterproto.message_field(17)
    r_i32: List[int] = betterproto.int32_field(21)
    r_i64: List[int] = betterproto.int64_field(22)
    r_u32: List[int] = betterproto.uint32_field(23)
    r_u64: List[int] = betterproto.uint64_field(24)
    r_s32: List[int] = betterproto.sint32_field(25)
    r_s64: List[int] = betterproto.sint64_field(26)
    r_b: List[bool] = betterproto.bool_field(27)
    r_e: List[Color] = betterproto.enum_field(28)
    r_f32: List[int] = betterproto.fixed32_field(29)
    r_sf32: List[int] = betterproto.sfixed32_field(30)
    r_f64: List[int] = betterproto.fixed64_field(31)
    r_sf64: List[int] = betterproto.sfixed64_field(32)
    r_fl: List[float] = betterproto.float_field(33)
    r_db: List[float] = betterproto.double_field(34)
    r_s: List[str] = betterproto.string_field(35)
    r_by: List[bytes] = betterproto.bytes_field(36)
    r_sub: List[Sub] = betterproto.message_field(37)
    m: Dict[str, int] = betterproto.map_field(40, "string", "sint32")
    m2: Dict[int, Sub] = betterproto.map_field(41, "fixed64", "message")


# A reader that knows only some fields, and several of them with ANOTHER type than
# the writer used (so they arrive with a wire type that does not match).
@dataclass(eq=False, repr=False)
class Diverged(betterproto.Message):
    i32: str = betterproto.string_field(1)          # varint arrives
    i64: int = betterproto.fixed64_field(2)         # varint arrives
    u32: int = betterproto.uint32_field(3)          # same
    f32: int = betterproto.int32_field(9)           # fixed32 arrives
    f64: float = betterproto.float_field(11)        # fixed64 arrives
    fl: float = betterproto.double_field(13)        # fixed32 arrives
    s: int = betterproto.sint32_field(15)           # len-delim arrives
    by: bytes = betterproto.bytes_field(16)         # same
    sub: int = betterproto.fixed32_field(17)        # len-delim arrives
    r_i32: int = betterproto.int32_field(21)        # packed run for a singular scalar
    r_i64: List[int] = betterproto.sint64_field(22) # packed run, other varint flavour
    r_f32: List[bytes] = betterproto.bytes_field(29) # packed run read as one blob
    r_s: int = betterproto.int32_field(35)          # strings for a singular scalar
    m: bool = betterproto.bool_field(40)            # map entries for a singular scalar


@dataclass(eq=False, repr=False)
class Old(betterproto.Message):
    i32: int = betterproto.int32_field(1)
    s: str = betterproto.string_field(15)
    r_db: List[float] = betterproto.double_field(34)


I32 = [0, 1, -1, 127, 128, -128, 2**31 - 1, -(2**31)]
I64 = I32 + [2**63 - 1, -(2**63), 2**35, -(2**35)]
U32 = [0, 1, 127, 128, 2**32 - 1]
U64 = U32 + [2**64 - 1, 2**63]
FL = [0.0, 1.5, -0.25, float("inf"), -float("inf"), 2.0**127, -(2.0**-126), 2.0**-149]
DB = FL + [1e308, -1e-308, 0.1]
STR = ["", "a", "hello", "é中\U0001F600", "x" * 130]
BY = [b"", b"\x00", b"\xff" * 3, bytes(range(256))]


def pick(pool, allow_default=True):
    return rnd.choice(pool)


def some(pool):
    return [rnd.choice(pool) for _ in range(rnd.choice([0, 1, 2, 5]))]


def random_sub():
    return Sub(x=pick(I64), name=pick(STR))


def random_all():
    m = All()
    setters = {
        "i32": lambda: pick(I32), "i64": lambda: pick(I64), "u32": lambda: pick(U32),
        "u64": lambda: pick(U64), "s32": lambda: pick(I32), "s64": lambda: pick(I64),
        "b": lambda: pick([True, False]), "e": lambda: pick(list(Color)),
        "f32": lambda: pick(U32), "sf32": lambda: pick(I32), "f64": lambda: pick(U64),
        "sf64": lambda: pick(I64), "fl": lambda: pick(FL), "db": lambda: pick(DB),
        "s": lambda: pick(STR), "by": lambda: pick(BY), "sub": random_sub,
        "r_i32": lambda: some(I32), "r_i64": lambda: some(I64),
        "r_u32": lambda: some(U32), "r_u64": lambda: some(U64),
        "r_s32": lambda: some(I32), "r_s64": lambda: some(I64),
        "r_b": lambda: some([True, False]), "r_e": lambda: some(list(Color)),
        "r_f32": lambda: some(U32), "r_sf32": lambda: some(I32),
        "r_f64": lambda: some(U64), "r_sf64": lambda: some(I64),
        "r_fl": lambda: some(FL), "r_db": lambda: some(DB),
        "r_s": lambda: some(STR), "r_by": lambda: some(BY),
        "r_sub": lambda: [random_sub() for _ in range(rnd.choice([0, 1, 3]))],
        "m": lambda: {pick(STR): pick(I32) for _ in range(rnd.choice([0, 1, 3]))},
        "m2": lambda: {pick(U64): random_sub() for _ in range(rnd.choice([0, 1, 2]))},
    }
    names = list(setters)
    for name in rnd.sample(names, rnd.choice([0, 1, 3, 8, len(names)])):
        setattr(m, name, setters[name]())
    return m


def varint(n):
    out = bytearray()
    while True:
        b = n & 0x7F
        n >>= 7
        if n:
            out.append(b | 0x80)
        else:
            out.append(b)
            return bytes(out)


def field_raws(data):
    return sorted(f.raw for f in betterproto.parse_fields(data))


def write_stream(messages):
    stream = BytesIO()
    ends = []
    for m in messages:
        m.dump(stream, SIZE_DELIMITED)
        ends.append(stream.tell())
    return stream.getvalue(), ends


def read_all(data, classes):
    stream = BytesIO(data)
    out = []
    for cls in classes:
        out.append((cls().load(stream, SIZE_DELIMITED), stream.tell()))
    assert stream.read() == b""
    return out


def check_cuts(data, ends, messages, cuts):
    for cut in cuts:
        stream = BytesIO(data[:cut])
        for m in messages:
            try:
                got = type(m)().load(stream, SIZE_DELIMITED)
            except (EOFError, ValueError, struct.error):
                break
            assert got == m and bytes(got) == bytes(m), cut


# -- 2a. same schema: framing, round trip, positions, cuts
for round_no in range(60):
    messages = [random_all() for _ in range(rnd.choice([1, 2, 4]))]
    if round_no % 3 == 0:
        messages.insert(rnd.randrange(len(messages) + 1), All())
        messages.append(Sub())
        messages.append(random_sub())
    data, ends = write_stream(messages)
    assert data == b"".join(varint(len(bytes(m))) + bytes(m) for m in messages)
    for (got, pos), m, end in zip(read_all(data, [type(m) for m in messages]), messages, ends):
        assert got == m, (got, m)
        assert bytes(got) == bytes(m)
        assert pos == end
    if len(data) <= 400:
        cuts = range(len(data) + 1)
    else:
        cuts = sorted(set(rnd.sample(range(len(data) + 1), 150)) | set(ends) | {0, 1, 2})
    check_cuts(data, ends, messages, cuts)

# -- 2b. readers with an older / diverging schema: every frame is consumed exactly,
#        nothing is lost (mismatching fields are kept verbatim as unknown fields)
kept_as_unknown = 0
for round_no in range(80):
    messages = [random_all() for _ in range(3)]
    data, ends = write_stream(messages)
    for reader in (Diverged, Old):
        stream = BytesIO(data)
        for m, end in zip(messages, ends):
            got = reader().load(stream, SIZE_DELIMITED)
            assert stream.tell() == end
            assert len(got) == len(bytes(got)) == len(bytes(m))
            assert field_raws(bytes(got)) == field_raws(bytes(m))
            kept_as_unknown += len(got._unknown_fields) > 0
            # and the result is itself a well-framed message again
            again = BytesIO()
            got.dump(again, SIZE_DELIMITED)
            again.seek(0)
            back = All().load(again, SIZE_DELIMITED)
            assert again.read() == b""
            assert back == m, (reader, back, m)
        assert stream.read() == b""
assert kept_as_unknown > 100

# which fields of Diverged are (not) accepted, at distinguished inputs
w = All(i32=5, i64=6, u32=7, f32=8, f64=9, fl=1.5, s="abc", by=b"xy", sub=Sub(x=1),
        r_i32=[1, 2], r_i64=[-1, 3], r_f32=[65, 66], r_s=["p"], m={"k": 1})
stream = BytesIO()
w.dump(stream, SIZE_DELIMITED)
stream.seek(0)
d = Diverged().load(stream, SIZE_DELIMITED)
assert stream.read() == b""
assert d.i32 == "" and d.i64 == 0 and d.u32 == 7 and d.f32 == 0 and d.f64 == 0.0
assert d.fl == 0.0 and d.s == 0 and d.by == b"xy" and d.sub == 0 and d.r_i32 == 0
# int64 -1 is the varint 2**64-1, which read as sint64 is -2**63; 3 reads as -2
assert d.r_i64 == [-(2**63), -2]
assert d.r_f32 == [b"A\x00\x00\x00B\x00\x00\x00"]
assert d.r_s == 0 and d.m is False
assert field_raws(bytes(d)) == field_raws(bytes(w))

# -- 2c. the framing is the one google.protobuf reads and writes
from google.protobuf import descriptor_pb2, descriptor_pool, message_factory, proto

F = descriptor_pb2.FieldDescriptorProto
fdp = descriptor_pb2.FileDescriptorProto(name="c10_keep1.proto", package="c10k1", syntax="proto3")
enum = fdp.enum_type.add(name="Color")
for name, number in (("ZERO", 0), ("ONE", 1), ("BIG", 2147483647), ("NEG", -1)):
    enum.value.add(name=name, number=number)
sub = fdp.message_type.add(name="Sub")
sub.field.add(name="x", number=1, type=F.TYPE_SINT64, label=F.LABEL_OPTIONAL)
sub.field.add(name="name", number=2, type=F.TYPE_STRING, label=F.LABEL_OPTIONAL)
allm = fdp.message_type.add(name="All")
scalars = [
    ("i32", F.TYPE_INT32), ("i64", F.TYPE_INT64), ("u32", F.TYPE_UINT32),
    ("u64", F.TYPE_UINT64), ("s32", F.TYPE_SINT32), ("s64", F.TYPE_SINT64),
    ("b", F.TYPE_BOOL), ("e", F.TYPE_ENUM), ("f32", F.TYPE_FIXED32),
    ("sf32", F.TYPE_SFIXED32), ("f64", F.TYPE_FIXED64), ("sf64", F.TYPE_SFIXED64),
    ("fl", F.TYPE_FLOAT), ("db", F.TYPE_DOUBLE), ("s", F.TYPE_STRING),
    ("by", F.TYPE_BYTES), ("sub", F.TYPE_MESSAGE),
]
for idx, (name, ftype) in enumerate(scalars):
    for prefix, base, label in (("", 1, F.LABEL_OPTIONAL), ("r_", 21, F.LABEL_REPEATED)):
        f = allm.field.add(name=prefix + name, number=base + idx, type=ftype, label=label)
        if ftype == F.TYPE_ENUM:
            f.type_name = ".c10k1.Color"
        if ftype == F.TYPE_MESSAGE:
            f.type_name = ".c10k1.Sub"
for entry_name, number, ktype, vtype in (("MEntry", 40, F.TYPE_STRING, F.TYPE_SINT32),
                                         ("M2Entry", 41, F.TYPE_FIXED64, F.TYPE_MESSAGE)):
    entry = allm.nested_type.add(name=entry_name)
    entry.options.map_entry = True
    entry.field.add(name="key", number=1, type=ktype, label=F.LABEL_OPTIONAL)
    v = entry.field.add(name="value", number=2, type=vtype, label=F.LABEL_OPTIONAL)
    if vtype == F.TYPE_MESSAGE:
        v.type_name = ".c10k1.Sub"
    allm.field.add(name=entry_name[:-5].lower(), number=number, type=F.TYPE_MESSAGE,
                   label=F.LABEL_REPEATED, type_name=".c10k1.All." + entry_name)
pool = descriptor_pool.DescriptorPool()
pool.Add(fdp)
GAll = message_factory.GetMessageClass(pool.FindMessageTypeByName("c10k1.All"))
GSub = message_factory.GetMessageClass(pool.FindMessageTypeByName("c10k1.Sub"))

for round_no in range(40):
    messages = [random_all() for _ in range(3)] + [All(), random_sub(), Sub()]
    rnd.shuffle(messages)
    gclasses = [GAll if isinstance(m, All) else GSub for m in messages]
    data, ends = write_stream(messages)
    # betterproto -> google
    stream = BytesIO(data)
    gmsgs = []
    for gcls, m, end in zip(gclasses, messages, ends):
        g = proto.parse_length_prefixed(gcls, stream)
        assert g is not None and stream.tell() == end
        assert type(m)().parse(g.SerializeToString()) == m
        gmsgs.append(g)
    # google -> betterproto
    gstream = BytesIO()
    for g in gmsgs:
        proto.serialize_length_prefixed(g, gstream)
    gstream.seek(0)
    for m in messages:
        assert type(m)().load(gstream, SIZE_DELIMITED) == m
    assert gstream.read() == b""

print("keep1 equiv: OK")
