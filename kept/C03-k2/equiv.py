"""Equivalence check for plugin/parser.py:read_protobuf_type (map / oneof / plain field
classification, message vs enum dispatch, skipping of map-entry messages).

The intermediate model the function builds (which compiler class every field gets, in
which order, with which path / parent / typing compiler) is compared with a
classification derived independently from google.protobuf's view of the same
FileDescriptorSet, for the default and the pydantic_dataclasses mode; then the plugin
is run end to end, its output imported and the dataclass metadata compared with the
descriptors again.
"""
import contextlib
import dataclasses
import importlib
import io
import os
import sys
import tempfile

from google.protobuf import descriptor_pb2
from google.protobuf.compiler import plugin_pb2
from grpc_tools import protoc as grpc_protoc

import betterproto
import betterproto.plugin.compiler as plugin_compiler
from betterproto.lib.google.protobuf import (
    DescriptorProto,
    EnumDescriptorProto,
    ServiceDescriptorProto,
)
from betterproto.lib.google.protobuf.compiler import CodeGeneratorRequest
from betterproto.plugin import parser
from betterproto.plugin.models import (
    EnumDefinitionCompiler,
    FieldCompiler,
    MapEntryCompiler,
    MessageCompiler,
    OneOfFieldCompiler,
    OutputTemplate,
    PluginRequestCompiler,
    PydanticOneOfFieldCompiler,
    monkey_patch_oneof_index,
)
from betterproto.plugin.typing_compiler import (
    DirectImportTypingCompiler,
    NoTyping310TypingCompiler,
    TypingImportTypingCompiler,
)

plugin_compiler.subprocess.check_output = lambda cmd, input, encoding: input
monkey_patch_oneof_index()
FD = descriptor_pb2.FieldDescriptorProto

KEY_KINDS = ["int32", "int64", "uint32", "uint64", "sint32", "sint64", "fixed32", "fixed64",
             "sfixed32", "sfixed64", "bool", "string"]
MAIN = """
syntax = "proto3";
package eq.kinds;
import "google/protobuf/wrappers.proto";
import "google/protobuf/timestamp.proto";

// top level enum
enum Mood { MOOD_UNKNOWN = 0; MOOD_SAD = -1; MOOD_HAPPY = 1; }

message Empty {}

message Plain {
  int32 a = 1;
  string b = 2;
  repeated bytes c = 3;
  Mood mood = 4;
  Plain self = 5;
  repeated Plain kids = 6;
}

message OnlyOneof {
  oneof first {            // oneof_index == 0, first field of the message
    int32 x = 1;
    string y = 2;
  }
}

message Mixed {
  optional int32 opt_before = 1;       // synthetic oneof, declared before the real ones
  oneof alpha { int32 a1 = 2; Plain a2 = 3; google.protobuf.BoolValue a3 = 4; }
  map<string, int32> counts = 5;
  optional Plain opt_msg = 6;
  oneof beta { Mood b1 = 7; bytes b2 = 8; }
  repeated int32 nums = 9;
  map<int32, Plain> by_id = 10;
  optional google.protobuf.Int32Value opt_wrapped = 11;
  google.protobuf.Timestamp when = 12;
  oneof single { Empty only = 13; }
  optional Mood opt_mood = 14;
  int32 class = 15;                    // keyword
  map<string, Mood> float = 16;        // builtin type name, map of enum
}

message Maps {
%s
  map<string, Maps> rec = 40;
  map<string, google.protobuf.StringValue> wrapped = 41;
  map<string, google.protobuf.Timestamp> stamps = 42;
  // a field that merely looks like a map: repeated message called <Field>Entry
  repeated FakeEntry fake = 43;
  message FakeEntry { string key = 1; int32 value = 2; }
  // field and entry names with underscores / digits
  map<string, string> snake_case_name = 44;
  map<string, string> with_2_digits = 45;
  map<string, string> camelCase = 46;
}

message Outer {
  enum Kind { KIND_A = 0; KIND_B = 2; }
  message Inner {
    oneof pick { int32 i = 1; Kind k = 2; }
    map<string, Inner> more = 3;
    message Innermost { optional string s = 1; repeated Kind ks = 2; }
    Innermost im = 4;
  }
  Inner inner = 1;
  Kind kind = 2;
  oneof choose { Inner.Innermost deep = 3; Kind k2 = 4; }
}
""" % "\n".join(f"  map<{k}, {k}> m_{k} = {i + 1};" for i, k in enumerate(KEY_KINDS))
SECOND = """
syntax = "proto3";
package eq.kinds;
import "main.proto";
message Later { oneof o { Plain p = 1; Outer.Inner oi = 2; } map<string, Later> again = 3; Mood mood = 4; }
enum Tail { TAIL_ZERO = 0; }
"""


def compile_protos(files):
    with tempfile.TemporaryDirectory() as src:
        for name, text in files.items():
            with open(os.path.join(src, name), "w") as fh:
                fh.write(text)
        out = os.path.join(src, "fds.bin")
        wkt = os.path.join(os.path.dirname(grpc_protoc.__file__), "_proto")
        rc = grpc_protoc.main(["protoc", f"-I{src}", f"-I{wkt}", "--include_imports", "--include_source_info",
                               f"--descriptor_set_out={out}", *files])
        assert rc == 0
        fds = descriptor_pb2.FileDescriptorSet()
        with open(out, "rb") as fh:
            fds.ParseFromString(fh.read())
    req = plugin_pb2.CodeGeneratorRequest(file_to_generate=list(files))
    req.proto_file.extend(fds.file)
    return fds, req.SerializeToString()


fds, req_bytes = compile_protos({"main.proto": MAIN, "second.proto": SECOND})


def expected_items(fd):
    """What traverse() yields for a file, from google.protobuf's descriptors:
    (kind, flattened name, path, descriptor) in traversal order (enums first)."""
    out = []

    def walk(path, enums, msgs, prefix):
        for i, e in enumerate(enums(None)):
            out.append(("enum", f"{prefix}_{e.name}", [*path(True), i], e))
        for i, m in enumerate(msgs(None)):
            out.append(("message", f"{prefix}_{m.name}", [*path(False), i], m))
            here = [*path(False), i]
            walk(lambda is_enum, here=here: [*here, 4 if is_enum else 3],
                 lambda _, m=m: m.enum_type, lambda _, m=m: m.nested_type, f"{prefix}_{m.name}")

    walk(lambda is_enum: [5] if is_enum else [4], lambda _: fd.enum_type, lambda _: fd.message_type, "")
    return out


def classify(msg, field):
    entry = next((n for n in msg.nested_type if n.options.map_entry and field.type_name.endswith("." + msg.name + "." + n.name)), None)
    if entry is not None:
        return "map"
    if field.HasField("oneof_index") and not field.proto3_optional:
        return "oneof"
    return "plain"


n_checked = 0
for pydantic in (False, True):
    for tc_cls in (DirectImportTypingCompiler, TypingImportTypingCompiler, NoTyping310TypingCompiler):
        request = CodeGeneratorRequest().parse(req_bytes)
        request_data = PluginRequestCompiler(plugin_request_obj=request)
        for proto_file, pb_file in zip(request.proto_file, fds.file):
            assert proto_file.name == pb_file.name
            tc = tc_cls()
            out = OutputTemplate(parent_request=request_data, package_proto_obj=proto_file,
                                 typing_compiler=tc, pydantic_dataclasses=pydantic)
            out.input_files.append(proto_file)
            want = expected_items(pb_file)
            got = []
            for item, path in parser.traverse(proto_file):
                before = (len(out.messages), len(out.enums))
                result = parser.read_protobuf_type(source_file=proto_file, item=item, path=path, output_package=out)
                assert result is None
                got.append((item, path, before))
            assert len(got) == len(want), (proto_file.name, len(got), len(want))
            messages, enums = iter(out.messages), iter(out.enums)
            for (item, path, before), (kind, flat_name, want_path, desc) in zip(got, want):
                assert item.name == flat_name and path == want_path, (item.name, flat_name, path, want_path)
                if kind == "enum":
                    assert isinstance(item, EnumDescriptorProto)
                    model = next(enums)
                    assert type(model) is EnumDefinitionCompiler
                    assert model.proto_obj is item and model.parent is out and model.path == path
                    assert model.source_file is proto_file and model.typing_compiler is tc
                    assert [e.value for e in model.entries] == [v.number for v in desc.value]
                    assert model.fields == []
                    continue
                assert isinstance(item, DescriptorProto)
                if desc.options.map_entry:
                    continue  # skipped: nothing may have been registered (checked below)
                model = next(messages)
                assert type(model) is MessageCompiler
                assert model.proto_obj is item and model.parent is out and model.path == path
                assert model.source_file is proto_file and model.typing_compiler is tc
                assert len(model.fields) == len(desc.field) == len(item.field)
                for index, (fc, bp_field, pb_field) in enumerate(zip(model.fields, item.field, desc.field)):
                    kind_of_field = classify(desc, pb_field)
                    want_cls = {"map": MapEntryCompiler, "plain": FieldCompiler,
                                "oneof": PydanticOneOfFieldCompiler if pydantic else OneOfFieldCompiler}[kind_of_field]
                    assert type(fc) is want_cls, (flat_name, pb_field.name, type(fc).__name__, want_cls.__name__)
                    assert fc.proto_obj is bp_field and fc.parent is model
                    assert fc.path == path + [2, index] and fc.path is not path
                    assert fc.source_file is proto_file and fc.typing_compiler is tc
                    assert fc.proto_obj.number == pb_field.number and fc.proto_name == pb_field.name
                    text = fc.get_field_string()
                    if kind_of_field == "map":
                        assert f"betterproto.map_field({pb_field.number}, betterproto.TYPE_" in text, text
                    elif kind_of_field == "oneof":
                        assert f'group="{desc.oneof_decl[pb_field.oneof_index].name}"' in text, text
                    else:
                        assert "group=" not in text and "map_field" not in text, text
                    assert ("optional=True" in text) == (pb_field.proto3_optional or (pydantic and kind_of_field == "oneof")), text
                    n_checked += 1
            assert next(messages, None) is None and next(enums, None) is None
            # map entry messages are skipped silently and registered nowhere
            n_entries = sum(1 for k, _, _, d in want if k == "message" and d.options.map_entry)
            assert len(out.messages) == sum(1 for k, *_ in want if k == "message") - n_entries
            assert len(out.enums) == sum(1 for k, *_ in want if k == "enum")
            assert not out.services
            if proto_file.name == "main.proto":
                assert n_entries == len(KEY_KINDS) + 3 + 3 + 3 + 1, n_entries

            # anything that is neither a message nor an enum is ignored
            snapshot = (list(out.messages), list(out.enums), set(out.imports_end))
            for junk in (ServiceDescriptorProto(name="S"), None, "Plain", 5):
                assert parser.read_protobuf_type(source_file=proto_file, item=junk, path=[6, 0], output_package=out) is None
            assert snapshot == (out.messages, out.enums, out.imports_end)
            # positional call, argument order (item, path, source_file, output_package)
            extra = EnumDescriptorProto(name="_Extra")
            parser.read_protobuf_type(extra, [5, 9], proto_file, out)
            assert out.enums[-1].proto_obj is extra and out.enums[-1].path == [5, 9]

# ------------------------------------------------------------------ end to end
for run, option in enumerate(("", "pydantic_dataclasses", "typing.310", "typing.root,pydantic_dataclasses")):
    request = CodeGeneratorRequest().parse(req_bytes)
    request.parameter = option
    with contextlib.redirect_stderr(io.StringIO()):
        response = parser.generate_code(request)
    assert sorted(f.name for f in response.file) == ["__init__.py", "eq/__init__.py", "eq/kinds/__init__.py"]
    root, top = tempfile.mkdtemp(), f"k2gen{run}"
    for f in response.file:
        target = os.path.join(root, top, f.name)
        os.makedirs(os.path.dirname(target), exist_ok=True)
        with open(target, "w") as fh:
            fh.write(f.content)
    sys.path.insert(0, root)
    mod = importlib.import_module(f"{top}.eq.kinds")
    sys.path.remove(root)
    pydantic = "pydantic_dataclasses" in option

    schema_msgs, schema_enums = {}, {}
    for pb_file in fds.file:
        if pb_file.package != "eq.kinds":
            continue
        for kind, flat_name, _, desc in expected_items(pb_file):
            if kind == "enum":
                schema_enums[flat_name] = desc
            elif not desc.options.map_entry:
                schema_msgs[flat_name] = desc
    gen_msgs = {n: c for n, c in vars(mod).items() if isinstance(c, type) and issubclass(c, betterproto.Message) and c.__module__ == mod.__name__}
    gen_enums = {n: c for n, c in vars(mod).items() if isinstance(c, type) and issubclass(c, betterproto.Enum) and c.__module__ == mod.__name__}
    flat = lambda s: s.replace("_", "").lower()
    assert sorted(map(flat, gen_msgs)) == sorted(map(flat, schema_msgs)), sorted(gen_msgs)
    assert sorted(map(flat, gen_enums)) == sorted(map(flat, schema_enums)), sorted(gen_enums)
    assert len(gen_msgs) == len(schema_msgs) == 10 and len(gen_enums) == len(schema_enums) == 3
    by_flat = {flat(n): c for n, c in gen_msgs.items()}
    for flat_name, desc in schema_msgs.items():
        cls = by_flat[flat(flat_name)]
        fields = {f.metadata["betterproto"].number: f.metadata["betterproto"] for f in dataclasses.fields(cls)}
        assert sorted(fields) == sorted(f.number for f in desc.field)
        assert len(dataclasses.fields(cls)) == len(desc.field)
        for pb_field in desc.field:
            meta = fields[pb_field.number]
            kind_of_field = classify(desc, pb_field)
            assert (meta.proto_type == "map") == (kind_of_field == "map"), (flat_name, pb_field.name)
            assert meta.group == (desc.oneof_decl[pb_field.oneof_index].name if kind_of_field == "oneof" else None)
            assert bool(meta.optional) == (pb_field.proto3_optional or (pydantic and kind_of_field == "oneof"))
            if kind_of_field == "map":
                entry = next(n for n in desc.nested_type if pb_field.type_name.endswith("." + n.name))
                names = {v: k[5:].lower() for k, v in FD.Type.items()}
                assert meta.map_types == (names[entry.field[0].type], names[entry.field[1].type])
            n_checked += 1
        if not pydantic:
            assert cls().parse(bytes(cls())) == cls()
    for flat_name, desc in schema_enums.items():
        cls = next(c for n, c in gen_enums.items() if flat(n) == flat(flat_name))
        assert sorted(int(m) for m in cls.__members__.values()) == sorted(v.number for v in desc.value)
    if not pydantic:
        m = mod.Mixed(a2=mod.Plain(a=1), counts={"x": 1}, b1=mod.Mood(-1), class_=4)
        assert betterproto.which_one_of(m, "alpha")[0] == "a2" and betterproto.which_one_of(m, "beta")[0] == "b1"
        assert mod.Mixed().parse(bytes(m)) == m

print(f"keep2 equiv OK ({n_checked} field checks)")
