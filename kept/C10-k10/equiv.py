"""Equivalence check for moving the body of the load_fields generator into a
plain function that Message.load calls directly.

Covers: the public load_fields generator against an independent field parser
written here (values, raw bytes, stream position after every field, the exact
sequence of read() sizes, errors on malformed / truncated input), Message.load
with size None / explicit / 0 / SIZE_DELIMITED, unknown fields, older reader
schema, streams written and read by google.protobuf, and every cut point.
"""
import io
import random
from dataclasses import dataclass
from typing import Dict, List

import betterproto
from betterproto import SIZE_DELIMITED
from google.protobuf import descriptor_pb2, descriptor_pool, message_factory, proto

rnd = random.Random(2020)


# ------------------------------------------------------------ reference side
def ref_varint(v):
    if v < 0:
        v += 1 << 64
    out = bytearray()
    while True:
        b = v & 0x7F
        v >>= 7
        if v:
            out.append(b | 0x80)
        else:
            out.append(b)
            return bytes(out)


class Cut(Exception):
    pass


class Bad(Exception):
    pass


def ref_read_varint(data, pos, reads):
    """-> value, new pos; appends the read() sizes the library is expected to issue."""
    result = 0
    for i in range(10):
        reads.append(1)
        if pos >= len(data):
            raise Cut()
        b = data[pos]
        pos += 1
        result |= (b & 0x7F) << (7 * i)
        if not b & 0x80:
            return result, pos
    raise Bad()


def ref_fields(data):
    """Yields (number, wire_type, value, raw, end_pos, reads) or raises Cut / Bad."""
    pos = 0
    while True:
        reads = []
        start = pos
        if pos >= len(data):
            reads.append(1)
            yield None, None, None, None, pos, reads
            return
        tag, pos = ref_read_varint(data, pos, reads)
        number, wt = tag >> 3, tag & 7
        if number == 0:
            raise Bad()
        if wt == 0:
            value, pos = ref_read_varint(data, pos, reads)
        elif wt in (1, 5):
            n = 8 if wt == 1 else 4
            reads.append(n)
            if pos + n > len(data):
                raise Cut()
            value, pos = data[pos : pos + n], pos + n
        elif wt == 2:
            n, pos = ref_read_varint(data, pos, reads)
            reads.append(n)
            if pos + n > len(data):
                raise Cut()
            value, pos = data[pos : pos + n], pos + n
        else:
            raise Bad()
        yield number, wt, value, data[start:pos], pos, reads


class Recorder(io.BytesIO):
    def __init__(self, data):
        super().__init__(data)
        self.sizes = []

    def read(self, n=-1):
        self.sizes.append(n)
        return super().read(n)


def check_load_fields(data):
    """load_fields(data) behaves exactly like ref_fields(data)."""
    stream = Recorder(data)
    gen = betterproto.load_fields(stream)
    ref = ref_fields(data)
    n = 0
    while True:
        stream.sizes.clear()
        try:
            want = next(ref)
        except Cut:
            try:
                next(gen)
            except EOFError:
                return n, "cut"
            raise AssertionError(f"expected EOFError for {data!r}")
        except Bad:
            try:
                next(gen)
            except ValueError:
                return n, "bad"
            raise AssertionError(f"expected ValueError for {data!r}")
        number, wt, value, raw, end, reads = want
        if number is None:
            assert next(gen, None) is None
            assert stream.sizes == reads and stream.tell() == end
            # and it stays exhausted
            assert next(gen, None) is None
            return n, "end"
        got = next(gen)
        assert isinstance(got, betterproto.ParsedField)
        assert (got.number, got.wire_type, got.value, got.raw) == (number, wt, value, raw), (got, want)
        assert type(got.raw) is bytes
        # nothing is read ahead of the field that was handed out
        assert stream.tell() == end, (stream.tell(), end)
        assert stream.sizes == reads, (stream.sizes, reads)
        n += 1


def rand_field():
    number = rnd.choice((1, 2, 15, 16, 17, 2047, 2048, (1 << 29) - 1, rnd.randrange(1, 1 << 29)))
    wt = rnd.choice((0, 0, 1, 2, 2, 5))
    tag = ref_varint((number << 3) | wt)
    if rnd.random() < 0.1:
        # over-long (non canonical) tag: still a valid varint
        tag = tag[:-1] + bytes([tag[-1] | 0x80]) + b"\x00"
    if wt == 0:
        v = rnd.choice((0, 1, 127, 128, 300, (1 << 63), (1 << 64) - 1, rnd.randrange(1 << 64)))
        body = ref_varint(v)
        if rnd.random() < 0.1 and len(body) < 9:
            body = body[:-1] + bytes([body[-1] | 0x80]) + b"\x00"
    elif wt == 1:
        body = bytes(rnd.randrange(256) for _ in range(8))
    elif wt == 5:
        body = bytes(rnd.randrange(256) for _ in range(4))
    else:
        n = rnd.choice((0, 1, 2, 127, 128, 129, 300, rnd.randrange(0, 50)))
        body = ref_varint(n) + bytes(rnd.randrange(256) for _ in range(n))
    return tag + body


outcomes = {"end": 0, "cut": 0, "bad": 0}
for _ in range(300):
    data = b"".join(rand_field() for _ in range(rnd.randrange(0, 6)))
    _, how = check_load_fields(data)
    assert how == "end"
    outcomes[how] += 1
    # every prefix of a well-formed buffer
    step = 1 if len(data) < 200 else 7
    for cut in range(0, len(data), step):
        _, how = check_load_fields(data[:cut])
        outcomes[how] += 1
# malformed input
for data in [
    b"\x00", b"\x00\x00", b"\x05\x00\x00\x00\x00",  # field number 0
    b"\x0b", b"\x0c", b"\x0e\x00", b"\x0f", b"\x08\x01\x0b",  # wire types 3, 4, 6, 7
    b"\xff" * 10 + b"\x01", b"\x80" * 10 + b"\x00",  # tag varint too long
    b"\x08" + b"\xff" * 10 + b"\x01",  # value varint too long
    b"\x0a" + b"\xff" * 10,  # length varint too long
    b"\x0a\xff\xff\xff\xff\x0f", b"\x0a\x05abcd",  # announced payload missing
    b"\x80", b"\x08\x80", b"\x0d\x01\x02\x03", b"\x09" + b"\x01" * 7,
]:
    _, how = check_load_fields(data)
    assert how in ("cut", "bad"), (data, how)
    outcomes[how] += 1
assert outcomes["cut"] > 1000 and outcomes["bad"] >= 10


# ------------------------------------------------------------------ messages
@dataclass(eq=False, repr=False)
class Inner(betterproto.Message):
    a: int = betterproto.int32_field(1)
    s: str = betterproto.string_field(2)


@dataclass(eq=False, repr=False)
class Wide(betterproto.Message):
    i: int = betterproto.int64_field(1)
    name: str = betterproto.string_field(2)
    packed: List[int] = betterproto.sint32_field(3)
    fx: float = betterproto.double_field(4)
    inner: Inner = betterproto.message_field(5)
    tags: List[str] = betterproto.string_field(6)
    m: Dict[str, int] = betterproto.map_field(
        7, betterproto.TYPE_STRING, betterproto.TYPE_INT32
    )
    f32: int = betterproto.fixed32_field(8)
    rf: List[float] = betterproto.float_field(9)
    kids: List[Inner] = betterproto.message_field(10)
    extra: bytes = betterproto.bytes_field(2000)


@dataclass(eq=False, repr=False)
class Narrow(betterproto.Message):
    """Older schema: fewer fields, and number 8 used to be a string."""

    i: int = betterproto.int64_field(1)
    name: str = betterproto.string_field(2)
    tags: List[str] = betterproto.string_field(6)
    f32: str = betterproto.string_field(8)


@dataclass(eq=False, repr=False)
class Other(betterproto.Message):
    flag: bool = betterproto.bool_field(1)
    blob: bytes = betterproto.bytes_field(2)


F = descriptor_pb2.FieldDescriptorProto
O, R = F.LABEL_OPTIONAL, F.LABEL_REPEATED
fdp = descriptor_pb2.FileDescriptorProto(name="c10_keep2.proto", package="c10k2", syntax="proto3")
d = fdp.message_type.add(name="Inner")
d.field.add(name="a", number=1, type=F.TYPE_INT32, label=O)
d.field.add(name="s", number=2, type=F.TYPE_STRING, label=O)
d = fdp.message_type.add(name="Wide")
for name, num, typ, label, tn in [
    ("i", 1, F.TYPE_INT64, O, None),
    ("name", 2, F.TYPE_STRING, O, None),
    ("packed", 3, F.TYPE_SINT32, R, None),
    ("fx", 4, F.TYPE_DOUBLE, O, None),
    ("inner", 5, F.TYPE_MESSAGE, O, ".c10k2.Inner"),
    ("tags", 6, F.TYPE_STRING, R, None),
    ("m", 7, F.TYPE_MESSAGE, R, ".c10k2.Wide.MEntry"),
    ("f32", 8, F.TYPE_FIXED32, O, None),
    ("rf", 9, F.TYPE_FLOAT, R, None),
    ("kids", 10, F.TYPE_MESSAGE, R, ".c10k2.Inner"),
    ("extra", 2000, F.TYPE_BYTES, O, None),
]:
    f = d.field.add(name=name, number=num, type=typ, label=label)
    if tn:
        f.type_name = tn
e = d.nested_type.add(name="MEntry")
e.options.map_entry = True
e.field.add(name="key", number=1, type=F.TYPE_STRING, label=O)
e.field.add(name="value", number=2, type=F.TYPE_INT32, label=O)
d = fdp.message_type.add(name="Other")
d.field.add(name="flag", number=1, type=F.TYPE_BOOL, label=O)
d.field.add(name="blob", number=2, type=F.TYPE_BYTES, label=O)
pool = descriptor_pool.Default()
pool.Add(fdp)
G = {
    Wide: message_factory.GetMessageClass(pool.FindMessageTypeByName("c10k2.Wide")),
    Other: message_factory.GetMessageClass(pool.FindMessageTypeByName("c10k2.Other")),
    Inner: message_factory.GetMessageClass(pool.FindMessageTypeByName("c10k2.Inner")),
}


def pick_str():
    return "".join(rnd.choice("aé€ z") for _ in range(rnd.choice((0, 1, 3, 40, 130))))


def rand_inner():
    return Inner(a=rnd.choice((0, -1, 150, rnd.randint(-(1 << 31), (1 << 31) - 1))), s=pick_str())


def rand_wide():
    m = Wide()
    p = rnd.random
    if p() < 0.5: m.i = rnd.choice((1, -1, 1 << 40, -(1 << 63)))
    if p() < 0.5: m.name = pick_str()
    if p() < 0.5: m.packed = [rnd.randint(-70000, 70000) for _ in range(rnd.randrange(70))]
    if p() < 0.5: m.fx = rnd.random()
    if p() < 0.5: m.inner = rnd.choice((Inner(), rand_inner()))
    if p() < 0.5: m.tags = [pick_str() for _ in range(rnd.randrange(4))]
    if p() < 0.5: m.m = {pick_str(): rnd.randint(-5, 5) for _ in range(rnd.randrange(4))}
    if p() < 0.5: m.f32 = rnd.randrange(1 << 32)
    if p() < 0.5: m.rf = [float(rnd.randrange(100)) for _ in range(rnd.randrange(5))]
    if p() < 0.5: m.kids = [rnd.choice((Inner(), rand_inner())) for _ in range(rnd.randrange(4))]
    if p() < 0.5: m.extra = bytes(rnd.randrange(256) for _ in range(rnd.choice((1, 5, 200))))
    return m


def rand_msg():
    c = rnd.random()
    if c < 0.1:
        return rnd.choice((Wide, Other, Inner))()  # empty
    if c < 0.6:
        return rand_wide()
    if c < 0.7:
        # carries unknown fields: written by Wide, read by the older schema
        return Narrow().parse(bytes(rand_wide()))
    if c < 0.85:
        return Other(flag=rnd.choice((True, False)), blob=bytes(rnd.randrange(256) for _ in range(rnd.randrange(5))))
    return rand_inner()


def same(got, want):
    return type(got) is type(want) and got == want and bytes(got) == bytes(want)


for round_no in range(60):
    messages = [rand_msg() for _ in range(rnd.randrange(1, 9))]
    buf = io.BytesIO()
    ends = []
    for m in messages:
        m.dump(buf, SIZE_DELIMITED)
        ends.append(buf.tell())
    data = buf.getvalue()
    assert data == b"".join(ref_varint(len(bytes(m))) + bytes(m) for m in messages)

    # successive delimited loads, each consuming exactly its own frame
    s = Recorder(data)
    start = 0
    for m, end in zip(messages, ends):
        s.sizes.clear()
        got = type(m)().load(s, SIZE_DELIMITED)
        assert same(got, m) and s.tell() == end
        assert got._serialized_on_wire is True
        # never asked the stream for more than the frame holds
        assert sum(s.sizes) == end - start, (s.sizes, start, end)
        start = end
    try:
        Wide().load(s, SIZE_DELIMITED)
    except EOFError:
        pass
    else:
        raise AssertionError("expected EOFError at the end of the stream")

    # same frames through load(size=<explicit>) and load(size=None) / parse
    pos = 0
    for m, end in zip(messages, ends):
        payload = bytes(m)
        prefix = len(ref_varint(len(payload)))
        s = io.BytesIO(data)
        s.seek(pos + prefix)
        got = type(m)().load(s, len(payload))
        assert same(got, m) and s.tell() == end
        assert same(type(m)().load(io.BytesIO(payload)), m)
        assert same(type(m)().parse(payload), m)
        if len(payload) > 1:
            # a declared size that ends inside a field / beyond the data is refused
            for wrong in (len(payload) - 1, len(data) - pos - prefix + 1):
                s = io.BytesIO(data)
                s.seek(pos + prefix)
                try:
                    got = type(m)().load(s, wrong)
                except (ValueError, EOFError):
                    pass
                else:
                    # only acceptable when `wrong` happens to be a field boundary
                    assert s.tell() == pos + prefix + wrong
        pos = end

    # older reader schema for the Wide frames: framing identical, content kept
    s = io.BytesIO(data)
    for m, end in zip(messages, ends):
        cls = Narrow if isinstance(m, Wide) else type(m)
        got = cls().load(s, SIZE_DELIMITED)
        assert s.tell() == end
        assert same(got, cls().parse(bytes(m)))
        if isinstance(m, Wide):
            assert bytes(Wide().parse(bytes(got))) == bytes(Wide().parse(bytes(m)))

    # google.protobuf reads our stream, and we read what it writes
    known = [(m, end) for m, end in zip(messages, ends)]
    gs = io.BytesIO(data)
    gout = io.BytesIO()
    for m, end in known:
        gcls = G[Wide if isinstance(m, Narrow) else type(m)]
        g = proto.parse_length_prefixed(gcls, gs)
        assert g is not None and gs.tell() == end
        proto.serialize_length_prefixed(g, gout)
    assert proto.parse_length_prefixed(G[Wide], gs) is None
    gs = io.BytesIO(gout.getvalue())
    for m, end in known:
        cls = Wide if isinstance(m, Narrow) else type(m)
        got = cls().load(gs, SIZE_DELIMITED)
        assert got == cls().parse(bytes(m))
    assert gs.read() == b""

    # every cut point (sub-sampled for long streams)
    step = 1 if len(data) <= 400 else 5
    for cut in list(range(0, len(data), step)) + ends + [len(data)]:
        s = io.BytesIO(data[:cut])
        for m, end in zip(messages, ends):
            try:
                got = type(m)().load(s, SIZE_DELIMITED)
            except (EOFError, ValueError):
                assert end > cut
                break
            assert same(got, m) and s.tell() == end and end <= cut

# an empty frame must not consume anything but its prefix, whatever follows
s = io.BytesIO(b"\x00\x00\x02\x08\x01")
assert bytes(Other().load(s, SIZE_DELIMITED)) == b"" and s.tell() == 1
assert bytes(Other().load(s, SIZE_DELIMITED)) == b"" and s.tell() == 2
assert Other().load(s, SIZE_DELIMITED) == Other(flag=True) and s.tell() == 5
s = io.BytesIO(b"\x08\x01")
assert Other().load(s, 0) == Other() and s.tell() == 0
# overrun: announced size ends inside the field
for data in (b"\x01\x08\x01", b"\x03\x12\x05hello"):
    try:
        Other().load(io.BytesIO(data), SIZE_DELIMITED)
    except (ValueError, EOFError) as exc:
        kind = type(exc).__name__
    else:
        raise AssertionError("expected an error")
try:
    Other().load(io.BytesIO(b"\x01\x08\x01"), SIZE_DELIMITED)
except ValueError as exc:
    assert "can only read either 0 or 2 bytes" in str(exc), exc
try:
    Other().load(io.BytesIO(b"\x04\x08\x01"), SIZE_DELIMITED)
except ValueError as exc:
    assert "was only able to read 2 bytes" in str(exc), exc
else:
    raise AssertionError("expected ValueError")

print("keep2 equiv: OK", outcomes)
