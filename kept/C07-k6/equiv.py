"""Equivalence checks for the binary encoder: Message.dump / __bytes__ / __len__.

* golden encodings of hand-picked boundary cases (default-valued selected oneof
  members of every kind, unselected members, optional / wrapper fields, empty
  messages, repeated and map fields),
* random operation histories applied in lock-step to a betterproto message and to
  the same message in google.protobuf (built from a descriptor at run time); after
  every step the two encodings must be byte-identical, len() must agree with the
  encoding, the size-delimited form must be prefix + encoding, and the oneof
  exclusivity must be visible in the encoding decoded field by field.
"""
import io
import random
from dataclasses import dataclass
from typing import Dict, List, Optional

import betterproto
from betterproto import which_one_of

from google.protobuf import descriptor_pb2, descriptor_pool, message_factory
from google.protobuf import wrappers_pb2  # noqa: F401  (registers wrappers.proto)


# ----------------------------------------------------------------------------------
# betterproto side (fields declared in field-number order, as protoc would emit them)
class Kind(betterproto.Enum):
    ZERO = 0
    ONE = 1
    TWO = 2


@dataclass(eq=False, repr=False)
class Empty(betterproto.Message):
    pass


@dataclass(eq=False, repr=False)
class Sub(betterproto.Message):
    val: int = betterproto.int32_field(1)
    a: int = betterproto.int32_field(2, group="inner")
    b: str = betterproto.string_field(3, group="inner")


@dataclass(eq=False, repr=False)
class Msg(betterproto.Message):
    plain: int = betterproto.int32_field(1)
    num: int = betterproto.int32_field(2, group="g1")
    text: str = betterproto.string_field(3, group="g1")
    sub: Sub = betterproto.message_field(4, group="g1")
    kind: Kind = betterproto.enum_field(5, group="g2")
    flag: bool = betterproto.bool_field(6, group="g2")
    blob: bytes = betterproto.bytes_field(7, group="g2")
    dbl: float = betterproto.double_field(8, group="g2")
    nothing: Empty = betterproto.message_field(9, group="g1")
    child: Sub = betterproto.message_field(10)
    hollow: Empty = betterproto.message_field(11)
    items: List[int] = betterproto.int32_field(12)
    subs: List[Sub] = betterproto.message_field(13)
    table: Dict[str, Sub] = betterproto.map_field(
        14, betterproto.TYPE_STRING, betterproto.TYPE_MESSAGE
    )
    single: int = betterproto.sint64_field(15, group="g3")
    opt: Optional[int] = betterproto.int32_field(16, optional=True)
    opt_s: Optional[str] = betterproto.string_field(17, optional=True)
    names: List[str] = betterproto.string_field(18)
    label: str = betterproto.string_field(19)
    raw: bytes = betterproto.bytes_field(20)
    f32: int = betterproto.fixed32_field(21)
    flt: float = betterproto.float_field(22)
    wrapped: Optional[int] = betterproto.message_field(23, wraps=betterproto.TYPE_INT32)
    counts: Dict[int, int] = betterproto.map_field(
        24, betterproto.TYPE_INT32, betterproto.TYPE_INT64
    )


GROUPS = {
    "g1": ("num", "text", "sub", "nothing"),
    "g2": ("kind", "flag", "blob", "dbl"),
    "g3": ("single",),
}
GROUP_OF = {m: g for g, ms in GROUPS.items() for m in ms}
NUMBER = {
    name: betterproto.FieldMetadata.get(f).number
    for name, f in Msg.__dataclass_fields__.items()
}


# ----------------------------------------------------------------------------------
# google.protobuf side
def build_google():
    F = descriptor_pb2.FieldDescriptorProto
    fd = descriptor_pb2.FileDescriptorProto(
        name="c07_equiv.proto", package="c07eq", syntax="proto3"
    )
    fd.dependency.append("google/protobuf/wrappers.proto")
    enum = fd.enum_type.add(name="Kind")
    for i, n in enumerate(("ZERO", "ONE", "TWO")):
        enum.value.add(name=n, number=i)
    fd.message_type.add(name="Empty")
    sub = fd.message_type.add(name="Sub")
    sub.oneof_decl.add(name="inner")
    sub.field.add(name="val", number=1, type=F.TYPE_INT32, label=F.LABEL_OPTIONAL)
    sub.field.add(name="a", number=2, type=F.TYPE_INT32, label=F.LABEL_OPTIONAL, oneof_index=0)
    sub.field.add(name="b", number=3, type=F.TYPE_STRING, label=F.LABEL_OPTIONAL, oneof_index=0)

    msg = fd.message_type.add(name="Msg")
    for n in ("g1", "g2", "g3", "_opt", "_opt_s"):
        msg.oneof_decl.add(name=n)

    def add(name, number, type_, label=F.LABEL_OPTIONAL, **kw):
        return msg.field.add(name=name, number=number, type=type_, label=label, **kw)

    add("plain", 1, F.TYPE_INT32)
    add("num", 2, F.TYPE_INT32, oneof_index=0)
    add("text", 3, F.TYPE_STRING, oneof_index=0)
    add("sub", 4, F.TYPE_MESSAGE, type_name=".c07eq.Sub", oneof_index=0)
    add("kind", 5, F.TYPE_ENUM, type_name=".c07eq.Kind", oneof_index=1)
    add("flag", 6, F.TYPE_BOOL, oneof_index=1)
    add("blob", 7, F.TYPE_BYTES, oneof_index=1)
    add("dbl", 8, F.TYPE_DOUBLE, oneof_index=1)
    add("nothing", 9, F.TYPE_MESSAGE, type_name=".c07eq.Empty", oneof_index=0)
    add("child", 10, F.TYPE_MESSAGE, type_name=".c07eq.Sub")
    add("hollow", 11, F.TYPE_MESSAGE, type_name=".c07eq.Empty")
    add("items", 12, F.TYPE_INT32, F.LABEL_REPEATED)
    add("subs", 13, F.TYPE_MESSAGE, F.LABEL_REPEATED, type_name=".c07eq.Sub")
    entry = msg.nested_type.add(name="TableEntry")
    entry.options.map_entry = True
    entry.field.add(name="key", number=1, type=F.TYPE_STRING, label=F.LABEL_OPTIONAL)
    entry.field.add(
        name="value", number=2, type=F.TYPE_MESSAGE, label=F.LABEL_OPTIONAL,
        type_name=".c07eq.Sub",
    )
    add("table", 14, F.TYPE_MESSAGE, F.LABEL_REPEATED, type_name=".c07eq.Msg.TableEntry")
    add("single", 15, F.TYPE_SINT64, oneof_index=2)
    add("opt", 16, F.TYPE_INT32, oneof_index=3, proto3_optional=True)
    add("opt_s", 17, F.TYPE_STRING, oneof_index=4, proto3_optional=True)
    add("names", 18, F.TYPE_STRING, F.LABEL_REPEATED)
    add("label", 19, F.TYPE_STRING)
    add("raw", 20, F.TYPE_BYTES)
    add("f32", 21, F.TYPE_FIXED32)
    add("flt", 22, F.TYPE_FLOAT)
    add("wrapped", 23, F.TYPE_MESSAGE, type_name=".google.protobuf.Int32Value")
    entry = msg.nested_type.add(name="CountsEntry")
    entry.options.map_entry = True
    entry.field.add(name="key", number=1, type=F.TYPE_INT32, label=F.LABEL_OPTIONAL)
    entry.field.add(name="value", number=2, type=F.TYPE_INT64, label=F.LABEL_OPTIONAL)
    add("counts", 24, F.TYPE_MESSAGE, F.LABEL_REPEATED, type_name=".c07eq.Msg.CountsEntry")

    pool = descriptor_pool.Default()
    pool.Add(fd)
    get = lambda n: message_factory.GetMessageClass(pool.FindMessageTypeByName(n))
    return get("c07eq.Msg"), get("c07eq.Sub")


GMsg, GSub = build_google()


# ----------------------------------------------------------------------------------
def varint(n: int) -> bytes:
    return betterproto.encode_varint(n)


def check_encoding(bp: Msg, where, reference: Optional[bytes] = None) -> bytes:
    data = bytes(bp)
    assert bp.SerializeToString() == data, where
    assert len(bp) == len(data), (where, len(bp), len(data))
    with io.BytesIO() as stream:
        bp.dump(stream)
        assert stream.getvalue() == data, where
    with io.BytesIO() as stream:
        bp.dump(stream, delimit=betterproto.SIZE_DELIMITED)
        assert stream.getvalue() == varint(len(data)) + data, where
    if reference is not None:
        assert data == reference, (where, data.hex(), reference.hex())
    # oneof exclusivity as seen in the encoding, decoded field by field
    seen = [f.number for f in betterproto.parse_fields(data)]
    for group, members in GROUPS.items():
        name, _ = which_one_of(bp, group)
        for member in members:
            assert (NUMBER[member] in seen) == (member == name), (where, member, name)
    # decoding the encoding again gives the same encoding and the same selection
    again = Msg().parse(data)
    assert bytes(again) == data, where
    for group in GROUPS:
        assert which_one_of(again, group)[0] == which_one_of(bp, group)[0], (where, group)
    return data


# ----------------------------------------------------------------------------------
# 1. golden encodings
GOLDEN = [
    (lambda: Msg(), b""),
    (lambda: Msg(plain=0), b""),
    (lambda: Msg(num=0), b"\x10\x00"),
    (lambda: Msg(text=""), b"\x1a\x00"),
    (lambda: Msg(sub=Sub()), b"\x22\x00"),
    (lambda: Msg(sub=Sub(a=0)), b"\x22\x02\x10\x00"),
    (lambda: Msg(sub=Sub(b="")), b"\x22\x02\x1a\x00"),
    (lambda: Msg(nothing=Empty()), b"\x4a\x00"),
    (lambda: Msg(kind=Kind.ZERO), b"\x28\x00"),
    (lambda: Msg(flag=False), b"\x30\x00"),
    (lambda: Msg(blob=b""), b"\x3a\x00"),
    (lambda: Msg(dbl=0.0), b"\x41" + b"\x00" * 8),
    (lambda: Msg(single=0), b"\x78\x00"),
    (lambda: Msg(single=-1), b"\x78\x01"),
    (lambda: Msg(num=0, kind=Kind.ZERO, single=0), b"\x10\x00\x28\x00\x78\x00"),
    (lambda: Msg(opt=0), b"\x80\x01\x00"),
    (lambda: Msg(opt=None), b""),
    (lambda: Msg(opt_s=""), b"\x8a\x01\x00"),
    (lambda: Msg(wrapped=0), b"\xba\x01\x00"),
    (lambda: Msg(wrapped=3), b"\xba\x01\x02\x08\x03"),
    (lambda: Msg(wrapped=None), b""),
    (lambda: Msg(label="", raw=b"", f32=0, flt=0.0), b""),
    (lambda: Msg(child=Sub()), b""),
    (lambda: Msg(child=Sub(val=0)), b"\x52\x00"),
    (lambda: Msg(hollow=Empty()), b"\x5a\x00"),
    (lambda: Msg(items=[]), b""),
    (lambda: Msg(items=[0]), b"\x62\x01\x00"),
    (lambda: Msg(subs=[Sub()]), b"\x6a\x00"),
    (lambda: Msg(names=[""]), b"\x92\x01\x00"),
    (lambda: Msg(counts={0: 0}), b"\xc2\x01\x04\x08\x00\x10\x00"),
    (lambda: Msg(table={"": Sub()}), b"\x72\x00"),
]
for i, (make, expected) in enumerate(GOLDEN):
    check_encoding(make(), f"golden {i}", expected)

# the same defaults assigned after construction (selection through __setattr__)
m = Msg()
for member, value, expected in (
    ("num", 0, b"\x10\x00"),
    ("text", "", b"\x1a\x00"),
    ("sub", Sub(), b"\x22\x00"),
    ("nothing", Empty(), b"\x4a\x00"),
    ("num", 0, b"\x10\x00"),
):
    setattr(m, member, value)
    check_encoding(m, f"assign default {member}", expected)
for member, value, expected in (
    ("kind", Kind.ZERO, b"\x10\x00\x28\x00"),
    ("flag", False, b"\x10\x00\x30\x00"),
    ("blob", b"", b"\x10\x00\x3a\x00"),
    ("dbl", 0.0, b"\x10\x00\x41" + b"\x00" * 8),
):
    setattr(m, member, value)
    check_encoding(m, f"assign default {member}", expected)

# reading fields (which materialises mutable defaults) puts nothing on the wire
m = Msg()
m.child, m.hollow, m.items, m.subs, m.table, m.counts, m.names
check_encoding(m, "after reads", b"")

# unknown fields are appended after the known ones
m = Msg(text="").parse(b"\xa0\x06\x01")
check_encoding(m, "unknown", b"\x1a\x00\xa0\x06\x01")


# ----------------------------------------------------------------------------------
# 2. random histories in lock-step with google.protobuf
def g_sub(s: Sub):
    g = GSub(val=s.val)
    name, value = which_one_of(s, "inner")
    if name:
        setattr(g, name, value)
    return g


SUBS = [
    lambda: Sub(),
    lambda: Sub(val=3),
    lambda: Sub(a=0),
    lambda: Sub(a=5, val=1),
    lambda: Sub(b=""),
    lambda: Sub(b="q"),
]


def step(r: random.Random, bp: Msg, g):
    kind = r.randrange(22)
    if kind == 0:
        v = r.choice([0, 1, -1, 2**31 - 1, -(2**31)])
        bp.num = v
        g.num = v
    elif kind == 1:
        v = r.choice(["", "x", "héllo", "a" * 200])
        bp.text = v
        g.text = v
    elif kind == 2:
        s = r.choice(SUBS)()
        bp.sub = s
        g.sub.CopyFrom(g_sub(s))  # CopyFrom selects the member even when empty
        g.sub.SetInParent()
    elif kind == 3:
        bp.nothing = Empty()
        g.nothing.SetInParent()
    elif kind == 4:
        v = r.choice([Kind.ZERO, Kind.ONE, Kind.TWO])
        bp.kind = v
        g.kind = int(v)
    elif kind == 5:
        v = r.choice([False, True])
        bp.flag = v
        g.flag = v
    elif kind == 6:
        v = r.choice([b"", b"\x00", b"abc"])
        bp.blob = v
        g.blob = v
    elif kind == 7:
        v = r.choice([0.0, 1.5, -2.25, 1e300])
        bp.dbl = v
        g.dbl = v
    elif kind == 8:
        v = r.choice([0, -1, 1, -(2**40), 2**62])
        bp.single = v
        g.single = v
    elif kind == 9:
        v = r.choice([0, 0, 7, -7])
        bp.plain = v
        g.plain = v
    elif kind == 10:
        v = r.choice([None, 0, 5])
        bp.opt = v
        if v is None:
            g.ClearField("opt")
        else:
            g.opt = v
    elif kind == 11:
        v = r.choice([None, "", "s"])
        bp.opt_s = v
        if v is None:
            g.ClearField("opt_s")
        else:
            g.opt_s = v
    elif kind == 12:
        v = r.choice([None, 0, 9])
        bp.wrapped = v
        g.ClearField("wrapped")
        if v is not None:
            g.wrapped.value = v
            g.wrapped.SetInParent()
    elif kind == 13:
        s = r.choice(SUBS[1:])()  # built with arguments, hence present
        bp.child = s
        g.child.CopyFrom(g_sub(s))
        g.child.SetInParent()
    elif kind == 14:
        bp.hollow = Empty()
        g.hollow.SetInParent()
    elif kind == 15:
        v = r.choice([0, 1, -1, 300])
        bp.items.append(v)
        g.items.append(v)
    elif kind == 16:
        s = r.choice(SUBS)()
        bp.subs.append(s)
        g.subs.append(g_sub(s))
    elif kind == 17:
        v = r.choice(["", "n"])
        bp.names.append(v)
        g.names.append(v)
    elif kind == 18:
        v, w, x, y = r.choice([("", b"", 0, 0.0), ("L", b"\x01", 2**32 - 1, 0.5)])
        bp.label, bp.raw, bp.f32, bp.flt = v, w, x, y
        g.label, g.raw, g.f32, g.flt = v, w, x, y
    elif kind == 19:
        # one key only, non-default key and value: entries encode identically
        s = r.choice([Sub(val=3), Sub(a=5, val=1), Sub(b="q")])
        bp.table["k"] = s
        g.table["k"].CopyFrom(g_sub(s))
        k, v = 7, r.choice([1, -1, 2**40])
        bp.counts[k] = v
        g.counts[k] = v
    elif kind == 20:
        # in-place change of the selected message member
        if which_one_of(bp, "g1")[0] == "sub":
            v = r.choice([0, 4])
            bp.sub.a = v
            g.sub.a = v
    else:
        # decode the google encoding of a small message into the betterproto one
        other = GMsg()
        for _ in range(r.randrange(0, 3)):
            which = r.randrange(4)
            if which == 0:
                other.num = r.choice([0, 2])
            elif which == 1:
                other.text = r.choice(["", "t"])
            elif which == 2:
                other.flag = r.choice([False, True])
            else:
                other.kind = r.choice([0, 2])
        data = other.SerializeToString(deterministic=True)
        bp.parse(data)
        g.MergeFromString(data)
    return kind


total = 0
for seed in range(150):
    r = random.Random(seed)
    bp, g = Msg(), GMsg()
    for n in range(40):
        kind = step(r, bp, g)
        where = f"seed {seed} step {n} op {kind}"
        reference = g.SerializeToString(deterministic=True)
        check_encoding(bp, where, reference)
        for group in GROUPS:
            assert which_one_of(bp, group)[0] == (g.WhichOneof(group) or ""), (where, group)
        total += 1

print(f"ok: {len(GOLDEN)} golden cases, {total} states compared with google.protobuf")
