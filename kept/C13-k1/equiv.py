"""
C13 equivalence check for the dispatch in compile.importing.get_type_reference.

1. For every ordered pair of package paths of depth 0..3 over a small alphabet (plus a
   number of special package names), several type kinds, unwrap on/off and pydantic
   on/off, get_type_reference must return exactly the strings of a frozen reference
   model, and the emitted import line - interpreted relative to the importing
   package - must denote the package of the referenced type.
2. End to end: packages in every relative position are generated with the plugin,
   imported, and the references must resolve to the generated classes.
"""
import atexit
import importlib
import itertools
import os
import re
import shutil
import sys
import tempfile
import typing

import grpc_tools
from grpc_tools import protoc
from google.protobuf import descriptor_pb2
from google.protobuf.compiler import plugin_pb2

import betterproto
import betterproto.lib.google.protobuf as bundled
import betterproto.lib.pydantic.google.protobuf as bundled_pydantic
from betterproto.casing import pascal_case, safe_snake_case, sanitize_name
from betterproto.compile.importing import get_type_reference
from betterproto.lib.google.protobuf.compiler import CodeGeneratorRequest
from betterproto.plugin import compiler as plugin_compiler
from betterproto.plugin.models import monkey_patch_oneof_index
from betterproto.plugin.parser import generate_code
from betterproto.plugin.typing_compiler import (
    DirectImportTypingCompiler,
    NoTyping310TypingCompiler,
    TypingImportTypingCompiler,
)

# --------------------------------------------------------------------------- part 1
ALPHABET = ["a", "b", "ab"]
PACKAGES = [[]]
for depth in (1, 2, 3):
    PACKAGES += [list(p) for p in itertools.product(ALPHABET, repeat=depth)]
SPECIAL = [
    ["google"], ["google", "protobuf"], ["google", "protobuf", "compiler"],
    ["google", "api"], ["foo", "bar"], ["foo", "barista", "x"], ["foo", "v1"],
    ["bar", "v1"], ["foo", "bar", "v1"], ["betterproto", "lib"], ["x", "betterproto"],
    ["a", "b", "c", "d"], ["a", "b", "c", "d", "e"], ["p", "q", "r", "s"], ["a_b", "c"],
]
TYPES = ["Msg", "Msg.Inner", "Color", "Msg.Inner.Deep", "lower_case", "HTTPThing.Sub"]


def model(cur, tgt, type_name, pydantic):
    """Frozen reference model: (reference string, import line or None)."""
    py_type = sanitize_name(pascal_case(type_name))
    if tgt == ["google", "protobuf"] and cur != tgt:
        tgt = ["betterproto", "lib"] + (["pydantic"] if pydantic else []) + tgt
    if tgt[:1] == ["betterproto"]:
        dotted = ".".join(tgt)
        alias = safe_snake_case(dotted)
        return f'"{alias}.{py_type}"', f"import {dotted} as {alias}"
    if cur == tgt:
        return f'"{py_type}"', None
    if tgt[: len(cur)] == cur:  # descendant
        rel = tgt[len(cur):]
        if len(rel) == 1:
            return f'"{rel[0]}.{py_type}"', f"from . import {rel[0]}"
        alias = "_".join(rel)
        return (
            f'"{alias}.{py_type}"',
            f"from .{'.'.join(rel[:-1])} import {rel[-1]} as {alias}",
        )
    if cur[: len(tgt)] == tgt:  # ancestor
        up = len(cur) - len(tgt)
        if tgt:
            alias = "_" + "_" * up + tgt[-1] + "__"
            return f'"{alias}.{py_type}"', f"from ..{'.' * up} import {tgt[-1]} as {alias}"
        alias = "_" * up + py_type + "__"
        return f'"{alias}"', f"from .{'.' * up} import {py_type} as {alias}"
    n = 0
    while n < min(len(cur), len(tgt)) and cur[n] == tgt[n]:
        n += 1
    up = len(cur) - n
    alias = "_" * up + safe_snake_case(".".join(tgt[n:])) + "__"
    return (
        f'"{alias}.{py_type}"',
        f"from .{'.' * up}{'.'.join(tgt[n:-1])} import {tgt[-1]} as {alias}",
    )


def denoted(cur, line, ref, py_type):
    """Resolve `line` the way Python would inside package <root>.cur and return the
    absolute (package path, attribute path) that `ref` evaluates to."""
    ref = ref.strip('"')
    if line is None:
        return cur, ref
    m = re.fullmatch(r"import ([\w.]+) as (\w+)", line)
    if m:
        assert ref == f"{m.group(2)}.{py_type}"
        return m.group(1).split("."), py_type
    m = re.fullmatch(r"from (\.+)([\w.]*) import (\w+)(?: as (\w+))?", line)
    assert m, line
    dots, tail, name, alias = m.groups()
    base = ["<root>"] + cur
    base = base[: len(base) - (len(dots) - 1)]
    assert base, f"relative import beyond the root: {line} in {cur}"
    base = base + (tail.split(".") if tail else [])
    bound = alias or name
    if ref == bound:  # imported the class itself (type of the root package)
        return base[1:], name
    assert ref == f"{bound}.{py_type}", (ref, line)
    return base[1:] + [name], py_type


def check(cur, tgt, type_name, unwrap, pydantic, tc):
    imports = set()
    ref = get_type_reference(
        package=".".join(cur),
        imports=imports,
        source_type="." + ".".join(tgt + [type_name]),
        typing_compiler=tc,
        unwrap=unwrap,
        pydantic=pydantic,
    )
    exp_ref, exp_import = model(cur, tgt, type_name, pydantic)
    ctx = (cur, tgt, type_name, unwrap, pydantic)
    assert ref == exp_ref, (ctx, ref, exp_ref)
    assert imports == ({exp_import} if exp_import else set()), (ctx, imports, exp_import)
    py_type = sanitize_name(pascal_case(type_name))
    pkg, attr = denoted(cur, exp_import, ref, py_type)
    want = tgt
    if tgt == ["google", "protobuf"] and cur != tgt:
        want = ["betterproto", "lib"] + (["pydantic"] if pydantic else []) + tgt
    assert pkg == want and attr == py_type, (ctx, pkg, attr)


count = 0
ALL = PACKAGES + SPECIAL
for cur in ALL:
    for tgt in ALL:
        for type_name in TYPES:
            for unwrap in (True, False):
                for pydantic in (False, True):
                    check(cur, tgt, type_name, unwrap, pydantic, DirectImportTypingCompiler())
                    count += 1
print(f"part 1a: {count} (package, package, type) combinations match the model")

# imports accumulate in one set when many references coexist
for cur in PACKAGES:
    imports, expected = set(), set()
    for tgt in PACKAGES:
        get_type_reference(
            package=".".join(cur), imports=imports,
            source_type="." + ".".join(tgt + ["Msg"]),
            typing_compiler=DirectImportTypingCompiler(),
        )
        line = model(cur, tgt, "Msg", False)[1]
        if line:
            expected.add(line)
    assert imports == expected, cur
print("part 1b: accumulated import sets match")

# well-known types
WRAPPERS = {
    "DoubleValue": "float", "FloatValue": "float", "Int32Value": "int",
    "Int64Value": "int", "UInt32Value": "int", "UInt64Value": "int",
    "BoolValue": "bool", "StringValue": "str", "BytesValue": "bytes",
}
OTHER_WKT = ["Any", "Empty", "Struct", "Value", "ListValue", "FieldMask", "NullValue",
             "EnumValue", "Duration", "Timestamp"]
for cur in ALL:
    package = ".".join(cur)
    for tc_cls, opt in (
        (DirectImportTypingCompiler, "Optional[{}]"),
        (TypingImportTypingCompiler, "typing.Optional[{}]"),
        (NoTyping310TypingCompiler, '"{} | None"'),
    ):
        for pydantic in (False, True):
            for name, scalar in WRAPPERS.items():
                imports = set()
                ref = get_type_reference(
                    package=package, imports=imports,
                    source_type=f".google.protobuf.{name}",
                    typing_compiler=tc_cls(), pydantic=pydantic,
                )
                assert ref == opt.format(scalar) and not imports, (cur, name, ref)
            for name, py in (("Duration", "timedelta"), ("Timestamp", "datetime")):
                imports = set()
                ref = get_type_reference(
                    package=package, imports=imports,
                    source_type=f".google.protobuf.{name}",
                    typing_compiler=tc_cls(), pydantic=pydantic,
                )
                assert ref == py and not imports, (cur, name, ref)
            for name in list(WRAPPERS) + OTHER_WKT:
                imports = set()
                ref = get_type_reference(
                    package=package, imports=imports,
                    source_type=f".google.protobuf.{name}",
                    typing_compiler=tc_cls(), pydantic=pydantic, unwrap=False,
                )
                if cur == ["google", "protobuf"]:
                    assert ref == f'"{name}"' and not imports, (cur, name, ref)
                    continue
                lib = bundled_pydantic if pydantic else bundled
                alias = lib.__name__.replace(".", "_")
                assert ref == f'"{alias}.{name}"', (cur, name, ref)
                assert imports == {f"import {lib.__name__} as {alias}"}, imports
                assert hasattr(lib, name), name
print("part 1c: well-known types resolve to the bundled package from every package")

# --------------------------------------------------------------------------- part 2
plugin_compiler.subprocess.check_output = lambda cmd, input, encoding: input
monkey_patch_oneof_index()
WORK = tempfile.mkdtemp(prefix="c13_equiv_")
atexit.register(shutil.rmtree, WORK, ignore_errors=True)
sys.path.insert(0, WORK)
_counter = [0]


def generate(protos, parameter=""):
    _counter[0] += 1
    root = f"c13eq{_counter[0]}"
    src = os.path.join(WORK, f"src{_counter[0]}")
    os.makedirs(src)
    for name, text in protos.items():
        with open(os.path.join(src, name), "w") as fh:
            fh.write(text)
    ds = os.path.join(src, "set.bin")
    wkt = os.path.join(os.path.dirname(grpc_tools.__file__), "_proto")
    rc = protoc.main(["protoc", f"-I{src}", f"-I{wkt}", f"--descriptor_set_out={ds}",
                      "--include_imports", *sorted(protos)])
    assert rc == 0
    fds = descriptor_pb2.FileDescriptorSet()
    with open(ds, "rb") as fh:
        fds.ParseFromString(fh.read())
    req = plugin_pb2.CodeGeneratorRequest(
        file_to_generate=sorted(protos), parameter=parameter, proto_file=fds.file)
    stderr, sys.stderr = sys.stderr, open(os.devnull, "w")
    try:
        response = generate_code(CodeGeneratorRequest().parse(req.SerializeToString()))
    finally:
        sys.stderr = stderr
    names = [f.name for f in response.file]
    assert len(names) == len(set(names)), names
    for f in response.file:
        path = os.path.join(WORK, root, f.name)
        os.makedirs(os.path.dirname(path), exist_ok=True)
        with open(path, "w") as fh:
            fh.write(f.content)
    return root


def mod(root, pkg):
    return importlib.import_module(root + ("." + ".".join(pkg) if pkg else ""))


def hints(cls):
    return typing.get_type_hints(cls, vars(sys.modules[cls.__module__]), {})


E2E = [[], ["a"], ["b"], ["a", "b"], ["a", "a"], ["b", "a"], ["a", "b", "a"],
       ["a", "a", "b"], ["b", "a", "b"], ["a", "b", "c"]]


def types_proto(index, pkg):
    lines = ['syntax = "proto3";']
    if pkg:
        lines.append(f"package {'.'.join(pkg)};")
    lines.append(f"message T{index} {{ int32 x = 1; message Inner {{ int32 y = 1; "
                 f"enum Deep {{ D0 = 0; D1 = 1; }} }} }}")
    lines.append(f"enum E{index} {{ Z{index} = 0; O{index} = 1; }}")
    return "\n".join(lines)


def users_proto(index, pkg, others):
    """Second file of package number `index`: refers to the types of every other
    package. Files do not import each other circularly (protoc forbids that), the
    generated *packages* do."""
    lines = ['syntax = "proto3";']
    if pkg:
        lines.append(f"package {'.'.join(pkg)};")
    lines += [f'import "t{j}.proto";' for j, _ in others]
    lines.append("import \"google/protobuf/any.proto\";")
    lines.append("import \"google/protobuf/timestamp.proto\";")
    lines.append(f"message User{index} {{")
    n = 1
    for j, other in others:
        q = "." + ".".join(other + [""]) if other else "."
        lines.append(f"  {q}T{j} m{j} = {n};")
        lines.append(f"  repeated {q}T{j}.Inner r{j} = {n + 1};")
        lines.append(f"  map<int32, {q}T{j}.Inner> d{j} = {n + 2};")
        lines.append(f"  {q}E{j} e{j} = {n + 3};")
        lines.append(f"  {q}T{j}.Inner.Deep n{j} = {n + 4};")
        lines.append(f"  oneof o{j} {{ {q}T{j} oa{j} = {n + 5}; {q}E{j} ob{j} = {n + 6}; }}")
        n += 7
    lines.append(f"  google.protobuf.Any any = {n};")
    lines.append(f"  google.protobuf.Timestamp ts = {n + 1};")
    lines.append("}")
    lines.append(f"service S{index} {{")
    for j, other in others:
        q = "." + ".".join(other + [""]) if other else "."
        lines.append(f"  rpc C{j} ({q}T{j}) returns ({q}T{j}.Inner);")
        lines.append(f"  rpc W{j} (stream {q}T{j}.Inner) returns (stream {q}T{j});")
    lines.append("  rpc A (google.protobuf.Any) returns (google.protobuf.Timestamp);")
    lines.append("}")
    return "\n".join(lines)


def protos_for(packages):
    """packages: list of (index, pkg); everyone refers to everyone else."""
    files = {}
    for i, p in packages:
        files[f"t{i}.proto"] = types_proto(i, p)
        files[f"u{i}.proto"] = users_proto(i, p, [(j, q) for j, q in packages if j != i])
    return files


def verify(root, index, pkg, others):
    um = mod(root, pkg)
    h = hints(getattr(um, f"User{index}"))
    base = getattr(um, f"S{index}Base")().__mapping__()
    prefix = "/" + ".".join(pkg + [f"S{index}"]) + "/"
    for j, other in others:
        tm = mod(root, other)
        T, I, E, D = (getattr(tm, f"T{j}"), getattr(tm, f"T{j}Inner"),
                      getattr(tm, f"E{j}"), getattr(tm, f"T{j}InnerDeep"))
        assert T.__module__ == tm.__name__
        assert h[f"m{j}"] is T and h[f"oa{j}"] is T
        assert typing.get_origin(h[f"r{j}"]) is list, h[f"r{j}"]
        assert typing.get_args(h[f"r{j}"]) == (I,), h[f"r{j}"]
        assert typing.get_origin(h[f"d{j}"]) is dict, h[f"d{j}"]
        assert typing.get_args(h[f"d{j}"]) == (int, I), h[f"d{j}"]
        assert h[f"e{j}"] is E and h[f"ob{j}"] is E and h[f"n{j}"] is D
        c, w = base[prefix + f"C{j}"], base[prefix + f"W{j}"]
        assert (c.request_type, c.reply_type) == (T, I)
        assert (w.request_type, w.reply_type) == (I, T)
    a = base[prefix + "A"]
    assert (a.request_type, a.reply_type) == (bundled.Any, bundled.Timestamp)
    assert h["any"] is bundled.Any
    # round trip
    U = getattr(um, f"User{index}")
    kwargs = {}
    for j, other in others:
        tm = mod(root, other)
        kwargs[f"m{j}"] = getattr(tm, f"T{j}")(x=j + 1)
        kwargs[f"r{j}"] = [getattr(tm, f"T{j}Inner")(y=5)]
        kwargs[f"d{j}"] = {3: getattr(tm, f"T{j}Inner")(y=6)}
        kwargs[f"e{j}"] = getattr(tm, f"E{j}")(1)
        kwargs[f"n{j}"] = getattr(tm, f"T{j}InnerDeep").D1
        kwargs[f"ob{j}"] = getattr(tm, f"E{j}")(1)
    msg = U(**kwargs)
    back = U().parse(bytes(msg))
    assert back == msg
    for j, other in others:
        tm = mod(root, other)
        assert type(back.__getattribute__(f"m{j}")) is getattr(tm, f"T{j}")
        assert type(back.__getattribute__(f"d{j}")[3]) is getattr(tm, f"T{j}Inner")
        assert back.__getattribute__(f"n{j}") is getattr(tm, f"T{j}InnerDeep").D1


# pairwise, in isolation (both import orders are exercised by alternating)
pairs = 0
for i, p in enumerate(E2E):
    for j, q in enumerate(E2E):
        if i == j:
            continue
        root = generate(protos_for([(0, p), (1, q)]))
        first, second = ((0, p, [(1, q)]), (1, q, [(0, p)]))
        if (i + j) % 2:
            first, second = second, first
        verify(root, *first)
        verify(root, *second)
        pairs += 1
print(f"part 2a: {pairs} ordered package pairs generated, imported and verified")

# all at once, every package refers to every other one
for parameter in ("", "typing.root", "typing.310"):
    everything = list(enumerate(E2E))
    root = generate(protos_for(everything), parameter)
    for i, p in reversed(everything):
        verify(root, i, p, [(j, q) for j, q in everything if j != i])
print("part 2b: all packages at once verified (3 typing options)")
print("OK")
