"""C04 keep1: _Duration.delta_to_json / delta_from_json behave exactly like the
reference implementation (verbatim copy of the code before the refactor), and
Duration fields round-trip through dict / JSON."""
import json
import random
from dataclasses import dataclass
from datetime import timedelta
from typing import Dict, List, Optional

import betterproto
from betterproto import Casing, _Duration
from google.protobuf import duration_pb2


# ---- verbatim reference (pre-refactor) -------------------------------------
def ref_from_json(value):
    text = value[:-1]
    sign = -1 if text.startswith("-") else 1
    seconds, _, fraction = text.lstrip("+-").partition(".")
    nanos = int(fraction[:9].ljust(9, "0")) if fraction else 0
    return sign * timedelta(seconds=int(seconds or 0), microseconds=nanos / 1e3)


def ref_to_json(delta):
    total_us = delta // timedelta(microseconds=1)
    sign = "-" if total_us < 0 else ""
    seconds, us = divmod(abs(total_us), 10**6)
    if us % 1000 == 0:
        return f"{sign}{seconds}.{us // 1000:03d}s"
    return f"{sign}{seconds}.{us:06d}s"


def outcome(fn, *args):
    try:
        return ("ok", fn(*args))
    except Exception as exc:  # same exception class expected
        return ("err", type(exc))


rnd = random.Random(20240)

# ---- delta_to_json -----------------------------------------------------------
deltas = [
    timedelta(0), timedelta(microseconds=1), timedelta(microseconds=-1),
    timedelta(microseconds=999), timedelta(microseconds=1000),
    timedelta(microseconds=-1000), timedelta(microseconds=999999),
    timedelta(microseconds=-999999), timedelta(seconds=1), timedelta(seconds=-1),
    timedelta(seconds=1, microseconds=500000), timedelta(seconds=-1, microseconds=-500000),
    timedelta(milliseconds=-500), timedelta(days=1), timedelta(days=-1),
    timedelta(days=-1, microseconds=1), timedelta(days=1, microseconds=-1),
    timedelta.max, timedelta.min, timedelta.resolution, -timedelta.resolution,
    timedelta(seconds=315576000000), timedelta(seconds=-315576000000),
    timedelta(seconds=315576000000, microseconds=-1),
    timedelta(days=999999999), timedelta(days=-999999999, microseconds=1),
    timedelta(seconds=2**53 // 10**6, microseconds=1),
]
for us in range(-3000, 3001):
    deltas.append(timedelta(microseconds=us))
for us in range(0, 10**6, 997):
    deltas.append(timedelta(seconds=3, microseconds=us))
    deltas.append(-timedelta(seconds=3, microseconds=us))
for _ in range(60000):
    kind = rnd.randrange(4)
    if kind == 0:
        d = timedelta(microseconds=rnd.randint(-10**7, 10**7))
    elif kind == 1:
        d = timedelta(seconds=rnd.randint(-10**10, 10**10),
                      microseconds=rnd.randint(-10**6, 10**6))
    elif kind == 2:
        d = timedelta(days=rnd.randint(-999999998, 999999998),
                      seconds=rnd.randint(0, 86399),
                      milliseconds=rnd.randint(0, 999))
    else:
        d = timedelta(days=rnd.randint(-999999998, 999999998),
                      microseconds=rnd.randint(0, 86400 * 10**6 - 1))
    deltas.append(d)

n_to = 0
for d in deltas:
    got = _Duration.delta_to_json(d)
    assert got == ref_to_json(d), (d, got, ref_to_json(d))
    # text round trip is exact
    assert _Duration.delta_from_json(got) == d, (d, got)
    assert ref_from_json(got) == d
    n_to += 1

# cross-check the text with the official implementation (range limited to the
# +-10000 years that google.protobuf.Duration accepts)
limit = timedelta(seconds=315576000000)
n_pb = 0
for d in deltas:
    if -limit <= d <= limit:
        pb = duration_pb2.Duration()
        pb.FromJsonString(_Duration.delta_to_json(d))
        assert pb.ToTimedelta() == d, (d, pb)
        ours = _Duration.from_timedelta(d)
        assert (ours.seconds, ours.nanos) == (pb.seconds, pb.nanos), (d, ours, pb)
        n_pb += 1

# ---- delta_from_json ---------------------------------------------------------
texts = [
    "0s", "0.000s", "-0s", "-0.000s", "+0s", "1s", "-1s", "+1s", "1.s", ".5s", "-.5s",
    "+.5s", "1.5s", "-1.5s", "1.500s", "-1.500s", "-0.500s", "0.000001s", "-0.000001s",
    "0.0000001s", "0.0000005s", "0.0000015s", "0.0000025s", "-0.0000005s", "-0.0000015s",
    "0.000000001s", "0.999999999s", "-0.999999999s", "0.9999995s", "0.9999994s",
    "1.0000000009s", "1.1234567899999s", "3.000000s", "3.000001000s",
    "315576000000.999999999s", "-315576000000.999999999s", "315576000000s",
    "86399999999999.999999s", "-86399999999999.999999s", "86400000000000s",
    "-86400000000000s", "99999999999999999s", "-99999999999999999s",
    "--1s", "+-1s", "-+1.5s", "1", "s", "", "-s", ".s", "-.s", "1.5", "abcs", "1.xs",
    "1e3s", "1.5e3s", " 1s", "1 s", "1.-5s", "1.+5s", "0x10s", "1_0s", "1.1_0s",
    "١٢s", "1.٥s", "-", "+", "1..2s", "1.2.3s", "NaNs", "infs",
]
for _ in range(40000):
    sign = rnd.choice(["", "", "-", "+"])
    whole = rnd.choice(["", "0", str(rnd.randint(0, 10**rnd.randint(1, 13)))])
    digits = rnd.randint(0, 12)
    frac = "".join(rnd.choice("0123456789") for _ in range(digits))
    dot = "." if (digits or rnd.random() < 0.2) else ""
    texts.append(f"{sign}{whole}{dot}{frac}s")
n_from = 0
for t in texts:
    got = outcome(_Duration.delta_from_json, t)
    want = outcome(ref_from_json, t)
    assert got == want, (t, got, want)
    n_from += 1
for bad in (None, 5, 1.5, b"1s", ["1s"]):
    assert outcome(_Duration.delta_from_json, bad) == outcome(ref_from_json, bad), bad


# ---- whole-message round trips ----------------------------------------------
@dataclass(eq=False, repr=False)
class Inner(betterproto.Message):
    d: timedelta = betterproto.message_field(1)


@dataclass(eq=False, repr=False)
class Durations(betterproto.Message):
    single_delta: timedelta = betterproto.message_field(1)
    many_deltas: List[timedelta] = betterproto.message_field(2)
    by_name: Dict[str, timedelta] = betterproto.map_field(
        3, betterproto.TYPE_STRING, betterproto.TYPE_MESSAGE)
    by_id: Dict[int, timedelta] = betterproto.map_field(
        4, betterproto.TYPE_SINT64, betterproto.TYPE_MESSAGE)
    opt_delta: Optional[timedelta] = betterproto.message_field(5, optional=True)
    pick_delta: timedelta = betterproto.message_field(6, group="pick")
    pick_text: str = betterproto.string_field(7, group="pick")
    inner: Inner = betterproto.message_field(8)


def round_trip(m):
    wire = bytes(m)
    for casing in (Casing.CAMEL, Casing.SNAKE):
        d = m.to_dict(casing=casing)
        text = json.dumps(d)
        for back in (type(m).from_dict(d), type(m)().from_dict(d),
                     type(m)().from_json(text),
                     type(m)().from_json(m.to_json(casing=casing))):
            assert back == m, (casing, m, back)
            assert bytes(back) == wire, (casing, m, back)
    return m.to_dict()


small = [d for d in deltas if -limit <= d <= limit]
sample = small[:40] + rnd.sample(small, 600)
n_msg = 0
for i, d in enumerate(sample):
    e = sample[(i * 7 + 3) % len(sample)]
    out = round_trip(Durations(single_delta=d))
    if d != timedelta(0):
        assert out == {"singleDelta": ref_to_json(d)}
    round_trip(Durations(many_deltas=[d, e, timedelta(0), d]))
    round_trip(Durations(by_name={"a": d, "": e, "z": timedelta(0)}))
    round_trip(Durations(by_id={-5: d, 0: e, 2**40: timedelta(0)}))
    round_trip(Durations(opt_delta=d))
    round_trip(Durations(pick_delta=d))
    round_trip(Durations(inner=Inner(d=d), single_delta=e, pick_text="x"))
    n_msg += 7
assert Durations(opt_delta=timedelta(0)).to_dict() == {"optDelta": "0.000s"}
assert Durations(pick_delta=timedelta(0)).to_dict() == {"pickDelta": "0.000s"}
assert Durations(single_delta=timedelta(milliseconds=-500)).to_dict() == {
    "singleDelta": "-0.500s"}
assert Durations(single_delta=timedelta(microseconds=-1)).to_dict() == {
    "singleDelta": "-0.000001s"}

print(f"C04 keep1 equiv OK: to_json={n_to} pb={n_pb} from_json={n_from} messages={n_msg}")
