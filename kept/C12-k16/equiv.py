"""
C12 keep2 equivalence check (consumer side: betterproto.grpc.grpclib_client.ServiceStub).

Part 1 drives ServiceStub._unary_unary / _unary_stream / _stream_unary / _stream_stream
against a scripted fake grpclib channel + stream (echo server, configurable number of
event-loop turns per operation, injected send / receive failures, no-response case) with
request sources of every kind (list, tuple, generator, async generator, AsyncChannel that
is prefilled and / or fed by a concurrent task and closed or left open, bounded and
unbounded), stub-wide and per-call timeout / deadline / metadata (None, falsy and real
values), a client that consumes everything, abandons the response stream early (aclose)
or is cancelled at an arbitrary point. The complete event trace (event-loop turn, every
call made on the channel / stream with its arguments, client outcome, tasks still alive at
the end, final state of the request channel) must be identical to the trace produced by a
verbatim copy of the reference grpclib_client module embedded below.
Part 2 runs the same calls over a real in-process grpclib server (grpclib.testing.ChannelFor).
"""
REF_SOURCE = r'''
import asyncio
from abc import ABC
from typing import (
    TYPE_CHECKING,
    AsyncIterable,
    AsyncIterator,
    Collection,
    Iterable,
    Mapping,
    Optional,
    Tuple,
    Type,
    Union,
)

import grpclib.const


if TYPE_CHECKING:
    from grpclib.client import Channel
    from grpclib.metadata import Deadline

    from .._types import (
        ST,
        IProtoMessage,
        Message,
        T,
    )


Value = Union[str, bytes]
MetadataLike = Union[Mapping[str, Value], Collection[Tuple[str, Value]]]
MessageSource = Union[Iterable["IProtoMessage"], AsyncIterable["IProtoMessage"]]


class ServiceStub(ABC):
    """
    Base class for async gRPC clients.
    """

    def __init__(
        self,
        channel: "Channel",
        *,
        timeout: Optional[float] = None,
        deadline: Optional["Deadline"] = None,
        metadata: Optional[MetadataLike] = None,
    ) -> None:
        self.channel = channel
        self.timeout = timeout
        self.deadline = deadline
        self.metadata = metadata

    def __resolve_request_kwargs(
        self,
        timeout: Optional[float],
        deadline: Optional["Deadline"],
        metadata: Optional[MetadataLike],
    ):
        return {
            "timeout": self.timeout if timeout is None else timeout,
            "deadline": self.deadline if deadline is None else deadline,
            "metadata": self.metadata if metadata is None else metadata,
        }

    async def _unary_unary(
        self,
        route: str,
        request: "IProtoMessage",
        response_type: Type["T"],
        *,
        timeout: Optional[float] = None,
        deadline: Optional["Deadline"] = None,
        metadata: Optional[MetadataLike] = None,
    ) -> "T":
        """Make a unary request and return the response."""
        async with self.channel.request(
            route,
            grpclib.const.Cardinality.UNARY_UNARY,
            type(request),
            response_type,
            **self.__resolve_request_kwargs(timeout, deadline, metadata),
        ) as stream:
            await stream.send_message(request, end=True)
            response = await stream.recv_message()
        assert response is not None
        return response

    async def _unary_stream(
        self,
        route: str,
        request: "IProtoMessage",
        response_type: Type["T"],
        *,
        timeout: Optional[float] = None,
        deadline: Optional["Deadline"] = None,
        metadata: Optional[MetadataLike] = None,
    ) -> AsyncIterator["T"]:
        """Make a unary request and return the stream response iterator."""
        async with self.channel.request(
            route,
            grpclib.const.Cardinality.UNARY_STREAM,
            type(request),
            response_type,
            **self.__resolve_request_kwargs(timeout, deadline, metadata),
        ) as stream:
            await stream.send_message(request, end=True)
            async for message in stream:
                yield message

    async def _stream_unary(
        self,
        route: str,
        request_iterator: MessageSource,
        request_type: Type["IProtoMessage"],
        response_type: Type["T"],
        *,
        timeout: Optional[float] = None,
        deadline: Optional["Deadline"] = None,
        metadata: Optional[MetadataLike] = None,
    ) -> "T":
        """Make a stream request and return the response."""
        async with self.channel.request(
            route,
            grpclib.const.Cardinality.STREAM_UNARY,
            request_type,
            response_type,
            **self.__resolve_request_kwargs(timeout, deadline, metadata),
        ) as stream:
            await stream.send_request()
            await self._send_messages(stream, request_iterator)
            response = await stream.recv_message()
        assert response is not None
        return response

    async def _stream_stream(
        self,
        route: str,
        request_iterator: MessageSource,
        request_type: Type["IProtoMessage"],
        response_type: Type["T"],
        *,
        timeout: Optional[float] = None,
        deadline: Optional["Deadline"] = None,
        metadata: Optional[MetadataLike] = None,
    ) -> AsyncIterator["T"]:
        """
        Make a stream request and return an AsyncIterator to iterate over response
        messages.
        """
        async with self.channel.request(
            route,
            grpclib.const.Cardinality.STREAM_STREAM,
            request_type,
            response_type,
            **self.__resolve_request_kwargs(timeout, deadline, metadata),
        ) as stream:
            await stream.send_request()
            sending_task = asyncio.ensure_future(
                self._send_messages(stream, request_iterator)
            )
            try:
                async for response in stream:
                    yield response
            except:
                sending_task.cancel()
                raise

    @staticmethod
    async def _send_messages(stream, messages: MessageSource):
        if isinstance(messages, AsyncIterable):
            async for message in messages:
                await stream.send_message(message)
        else:
            for message in messages:
                await stream.send_message(message)
        await stream.end()
'''


import asyncio
import random
import sys
import time
import types
from dataclasses import dataclass

import grpclib
import grpclib.const
import grpclib.server
from grpclib.testing import ChannelFor

import betterproto
import betterproto.grpc.grpclib_client as lib
from betterproto.grpc.util.async_channel import AsyncChannel

ref = types.ModuleType("ref_grpclib_client")
exec(compile(REF_SOURCE, "ref_grpclib_client.py", "exec"), ref.__dict__)

Card = grpclib.const.Cardinality


async def turns(n):
    for _ in range(n):
        await asyncio.sleep(0)


# ---------------------------------------------------------------------------------
# part 1: scripted fake grpclib channel / stream, traces of library vs reference
# ---------------------------------------------------------------------------------
class World:
    def __init__(self):
        self.tick = 0
        self.trace = []
        self.stop = False

    def log(self, *event):
        self.trace.append((self.tick,) + event)


class Boom(Exception):
    pass


class FakeStream:
    """
    Echoes every request message as a response. The response iteration ends once
    end() was called and every message was echoed.
    """

    def __init__(self, w, plan):
        self.w = w
        self.plan = plan
        self.box = asyncio.Queue()
        self.nsent = 0
        self.nrecv = 0

    async def __aenter__(self):
        self.w.log("stream", "enter")
        await turns(self.plan["enter_turns"])
        return self

    async def __aexit__(self, et, ev, tb):
        self.w.log("stream", "exit", None if et is None else et.__name__)
        await turns(self.plan["exit_turns"])
        return False

    async def send_request(self):
        self.w.log("stream", "send_request")
        await turns(self.plan["send_request_turns"])

    async def send_message(self, message, end=False):
        self.w.log("stream", "send_message", message, end)
        self.nsent += 1
        if self.nsent == self.plan["fail_send_at"]:
            raise Boom("send %d" % self.nsent)
        await turns(self.plan["send_turns"][self.nsent % len(self.plan["send_turns"])])
        self.box.put_nowait(("msg", message))
        if end:
            self.box.put_nowait(("end", None))
        self.w.log("stream", "message sent", message)

    async def end(self):
        self.w.log("stream", "end")
        await turns(self.plan["end_turns"])
        self.box.put_nowait(("end", None))

    async def recv_message(self):
        self.w.log("stream", "recv_message")
        seen = []
        while True:
            kind, message = await self.box.get()
            if kind == "end":
                break
            seen.append(message)
        if self.plan["no_response"]:
            return None
        return ("reply", tuple(seen))

    def __aiter__(self):
        return self

    async def __anext__(self):
        self.nrecv += 1
        if self.nrecv == self.plan["fail_recv_at"]:
            raise Boom("recv %d" % self.nrecv)
        await turns(self.plan["recv_turns"])
        kind, message = await self.box.get()
        if kind == "end":
            self.w.log("stream", "responses exhausted")
            raise StopAsyncIteration
        return ("echo", message)


class FakeChannel:
    def __init__(self, w, plan):
        self.w = w
        self.plan = plan

    def request(self, *args, **kwargs):
        self.w.log("channel", "request", args, list(kwargs.items()))
        return FakeStream(self.w, self.plan)


class ReqA:
    pass


class RespA:
    pass


OPTION_VALUES = {
    "timeout": [None, 0, 0.0, 2.5, 10],
    "deadline": [None, "deadline-object", 0],
    "metadata": [None, {}, (), {"a": "b"}, [("k", b"v")]],
}


async def ticker(w):
    while True:
        w.tick += 1
        await asyncio.sleep(0)


async def agen(items, gaps):
    for item, gap in zip(items, gaps):
        await turns(gap)
        yield item


def make_scenario(rng):
    sc = {}
    sc["kind"] = rng.choice(
        ["unary_unary", "unary_stream", "stream_unary", "stream_stream", "stream_stream"]
    )
    sc["stub_opts"] = {k: rng.choice(v) for k, v in OPTION_VALUES.items()}
    sc["call_opts"] = {
        k: rng.choice(v) for k, v in OPTION_VALUES.items() if rng.random() < 0.7
    }
    sc["plan"] = {
        "enter_turns": rng.randint(0, 1),
        "exit_turns": rng.randint(0, 1),
        "send_request_turns": rng.randint(0, 2),
        "send_turns": [rng.randint(0, 2) for _ in range(3)],
        "end_turns": rng.randint(0, 2),
        "recv_turns": rng.randint(0, 2),
        "fail_send_at": rng.choice([0, 0, 0, 1, 2, 3]),
        "fail_recv_at": rng.choice([0, 0, 0, 1, 2, 4]),
        "no_response": rng.random() < 0.1,
    }
    n = rng.randint(0, 4)
    sc["items"] = ["m%d" % i for i in range(n)]
    sc["source"] = rng.choice(["list", "tuple", "generator", "agen", "channel", "channel"])
    sc["gaps"] = [rng.randint(0, 2) for _ in range(n)]
    # how the request channel is fed: number of items sent before the call, then a
    # feeder task sends the rest (send / send_from) and closes (or not)
    sc["prefill"] = rng.randint(0, n)
    sc["feeder_delay"] = rng.randint(0, 6)
    sc["feeder_batch"] = rng.random() < 0.5
    sc["close"] = rng.random() < 0.85
    sc["limit"] = rng.choice([0, 0, 1, 2])
    sc["take"] = rng.choice([None, None, 0, 1, 2])
    sc["cancel_at"] = rng.choice([None, None, None, rng.randint(0, 12)])
    return sc


async def run_scenario(mod, sc, nticks=60):
    w = World()
    tk = asyncio.ensure_future(ticker(w))
    chan = FakeChannel(w, sc["plan"])
    stub = mod.ServiceStub(chan, **sc["stub_opts"])
    request_channel = None
    feeder_task = None

    items, gaps = sc["items"], sc["gaps"]
    if sc["source"] == "list":
        source = list(items)
    elif sc["source"] == "tuple":
        source = tuple(items)
    elif sc["source"] == "generator":
        source = (i for i in items)
    elif sc["source"] == "agen":
        source = agen(items, gaps)
    else:
        request_channel = source = AsyncChannel(buffer_limit=sc["limit"])

        async def feeder():
            try:
                await turns(sc["feeder_delay"])
                rest = items[sc["prefill"] :]
                if sc["feeder_batch"]:
                    await request_channel.send_from(rest, close=sc["close"])
                else:
                    for i, g in zip(rest, gaps):
                        await turns(g)
                        await request_channel.send(i)
                    if sc["close"]:
                        request_channel.close()
                w.log("feeder", "finished")
            except asyncio.CancelledError:
                raise
            except Exception as e:
                w.log("feeder", "raised", type(e).__name__, str(e))

    async def client():
        try:
            if sc["kind"] == "unary_unary":
                r = await stub._unary_unary("/r", "req", RespA, **sc["call_opts"])
                w.log("client", "result", r)
            elif sc["kind"] == "unary_stream":
                out = []
                async for r in stub._unary_stream("/r", "req", RespA, **sc["call_opts"]):
                    out.append(r)
                w.log("client", "results", out)
            elif sc["kind"] == "stream_unary":
                r = await stub._stream_unary(
                    "/r", source, ReqA, RespA, **sc["call_opts"]
                )
                w.log("client", "result", r)
            else:
                gen = stub._stream_stream("/r", source, ReqA, RespA, **sc["call_opts"])
                out = []
                if sc["take"] is None:
                    async for r in gen:
                        w.log("client", "response", r)
                        out.append(r)
                else:
                    for _ in range(sc["take"]):
                        try:
                            r = await gen.__anext__()
                        except StopAsyncIteration:
                            w.log("client", "early end")
                            break
                        w.log("client", "response", r)
                        out.append(r)
                    await gen.aclose()
                    w.log("client", "generator closed")
                w.log("client", "results", out)
        except asyncio.CancelledError:
            w.log("client", "cancelled")
            if w.stop:
                raise
        except BaseException as e:
            w.log("client", "raised", type(e).__name__, str(e))

    async def canceller(task):
        await turns(sc["cancel_at"])
        w.log("canceller", "cancel", task.cancel())

    tasks = {}
    if request_channel is not None:
        # prefill may block on a bounded buffer, so it is done by a task
        tasks["prefill"] = asyncio.ensure_future(
            request_channel.send_from(items[: sc["prefill"]])
        )
        await turns(1)
        feeder_task = tasks["feeder"] = asyncio.ensure_future(feeder())
    tasks["client"] = asyncio.ensure_future(client())
    if sc["cancel_at"] is not None:
        tasks["canceller"] = asyncio.ensure_future(canceller(tasks["client"]))
    while w.tick < nticks:
        await asyncio.sleep(0)
    w.log("main", "pending", sorted(n for n, t in tasks.items() if not t.done()))
    others = [
        t
        for t in asyncio.all_tasks()
        if t is not asyncio.current_task() and t is not tk and t not in tasks.values()
    ]
    w.log("main", "other live tasks", len(others))
    if request_channel is not None:
        w.log(
            "main",
            "request channel",
            request_channel.closed(),
            request_channel.done(),
            request_channel._queue.qsize(),
            request_channel._waiting_receivers,
        )
    w.stop = True
    rest = [t for t in asyncio.all_tasks() if t is not asyncio.current_task()]
    for t in rest:
        t.cancel()
    await asyncio.gather(*rest, return_exceptions=True)
    return w.trace


def normalise(trace):
    # RespA / ReqA / Cardinality members are shared objects, everything else in the
    # trace is plain data, so traces compare with ==
    return trace


async def part1(nseeds, budget):
    start = time.time()
    done = 0
    kinds = {}
    for seed in range(nseeds):
        sc = make_scenario(random.Random(seed))
        t_lib = normalise(await run_scenario(lib, sc))
        t_ref = normalise(await run_scenario(ref, sc))
        if t_lib != t_ref:
            for a, b in zip(t_lib, t_ref):
                if a != b:
                    print("first difference:\n  lib:", a, "\n  ref:", b)
                    break
            raise AssertionError("trace differs for seed %d: %r" % (seed, sc))
        # the request call itself: positional part and resolved options
        req = [e for e in t_lib if e[1:3] == ("channel", "request")]
        assert len(req) <= 1
        if not req:  # client cancelled before it got that far
            done += 1
            continue
        args, kwargs = req[0][3], req[0][4]
        assert [k for k, _ in kwargs] == ["timeout", "deadline", "metadata"]
        for k, v in kwargs:
            given = sc["call_opts"].get(k)
            expect = sc["stub_opts"][k] if given is None else given
            assert v is expect or v == expect and type(v) is type(expect), (k, v)
        assert args[0] == "/r" and args[3] is RespA
        assert args[1] is {
            "unary_unary": Card.UNARY_UNARY,
            "unary_stream": Card.UNARY_STREAM,
            "stream_unary": Card.STREAM_UNARY,
            "stream_stream": Card.STREAM_STREAM,
        }[sc["kind"]]
        assert args[2] is (str if sc["kind"].startswith("unary") else ReqA)
        kinds[sc["kind"]] = kinds.get(sc["kind"], 0) + 1
        done += 1
        if time.time() - start > budget:
            break
    assert done >= 1000, done
    print("part 1: %d random scenarios, traces identical %r" % (done, kinds))


# ---------------------------------------------------------------------------------
# part 2: real grpclib in-process server, request stream fed through an AsyncChannel
# ---------------------------------------------------------------------------------
@dataclass(eq=False, repr=False)
class Ping(betterproto.Message):
    name: str = betterproto.string_field(1)


@dataclass(eq=False, repr=False)
class Pong(betterproto.Message):
    name: str = betterproto.string_field(1)
    number: int = betterproto.int32_field(2)


class Service:
    def __init__(self):
        self.seen_metadata = []

    async def each(self, stream):
        self.seen_metadata.append(
            (stream.metadata.get("who"), stream.deadline is not None)
        )
        n = 0
        async for request in stream:
            n += 1
            await stream.send_message(Pong(name=request.name, number=n))

    async def total(self, stream):
        names = [r.name async for r in stream]
        await stream.send_message(Pong(name=",".join(names), number=len(names)))

    async def one(self, stream):
        r = await stream.recv_message()
        await stream.send_message(Pong(name=r.name, number=1))

    async def many(self, stream):
        r = await stream.recv_message()
        for i in range(3):
            await stream.send_message(Pong(name=r.name, number=i))

    def __mapping__(self):
        H = grpclib.const.Handler
        return {
            "/t.T/Each": H(self.each, Card.STREAM_STREAM, Ping, Pong),
            "/t.T/Total": H(self.total, Card.STREAM_UNARY, Ping, Pong),
            "/t.T/One": H(self.one, Card.UNARY_UNARY, Ping, Pong),
            "/t.T/Many": H(self.many, Card.UNARY_STREAM, Ping, Pong),
        }


async def real_run(mod):
    out = []
    service = Service()
    async with ChannelFor([service]) as channel:
        stub = mod.ServiceStub(channel, timeout=30, metadata={"who": "stub"})
        r = await stub._unary_unary("/t.T/One", Ping(name="u"), Pong)
        out.append(("one", r.name, r.number))
        out.append(
            (
                "many",
                [
                    (r.name, r.number)
                    async for r in stub._unary_stream("/t.T/Many", Ping(name="s"), Pong)
                ],
            )
        )
        for source in (
            [Ping(name="a"), Ping(name="b")],
            (Ping(name=n) for n in "xyz"),
            [],
        ):
            r = await stub._stream_unary("/t.T/Total", source, Ping, Pong)
            out.append(("total", r.name, r.number))
        # request channel: prefilled, fed while responses arrive, closed by the consumer
        for limit in (0, 1):
            requests = AsyncChannel(buffer_limit=limit)
            pre = asyncio.ensure_future(
                requests.send_from([Ping(name="p1"), Ping(name="p2")])
            )
            got = []
            async for r in stub._stream_stream(
                "/t.T/Each", requests, Ping, Pong, metadata={"who": "call"}
            ):
                got.append((r.name, r.number))
                if r.number == 2:
                    await requests.send(Ping(name="late"))
                if r.number == 3:
                    requests.close()
            await pre
            out.append(("each", limit, got, requests.closed(), requests.done()))
            assert requests._waiting_receivers == 0
        # channel closed through send_from(close=True) and channel in stream_unary
        requests = AsyncChannel()
        await requests.send_from([Ping(name=str(i)) for i in range(5)], close=True)
        r = await stub._stream_unary("/t.T/Total", requests, Ping, Pong)
        out.append(("total-channel", r.name, r.number, requests.done()))
        # abandoning the response stream cancels the sender, channel stays usable
        requests = AsyncChannel()
        await requests.send(Ping(name="only"))
        gen = stub._stream_stream("/t.T/Each", requests, Ping, Pong)
        first = await gen.__anext__()
        await gen.aclose()
        await turns(5)
        assert requests._waiting_receivers == 0 and not requests.closed()
        await requests.send(Ping(name="still usable"))
        assert (await requests.receive()).name == "still usable"
        out.append(("abandoned", first.name, first.number))
    out.append(("metadata", service.seen_metadata))
    return out


async def part2():
    a = await real_run(lib)
    b = await real_run(ref)
    assert a == b, (a, b)
    assert a[0] == ("one", "u", 1)
    assert a[1] == ("many", [("s", 0), ("s", 1), ("s", 2)])
    assert a[2:5] == [("total", "a,b", 2), ("total", "x,y,z", 3), ("total", "", 0)]
    for limit, entry in zip((0, 1), a[5:7]):
        assert entry == (
            "each",
            limit,
            [("p1", 1), ("p2", 2), ("late", 3)],
            True,
            True,
        ), entry
    assert a[7] == ("total-channel", "0,1,2,3,4", 5, True)
    assert a[8] == ("abandoned", "only", 1)
    assert a[9] == (
        "metadata",
        [("call", True), ("call", True), ("stub", True)],
    ), a[9]
    print("part 2: real grpclib round trips identical")


async def main():
    await part2()
    await part1(8000, 60)


if __name__ == "__main__":
    asyncio.run(main())
    print("OK")
    sys.exit(0)
