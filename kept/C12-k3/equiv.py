"""
C12 equivalence check for refactors of betterproto.grpc.util.async_channel.AsyncChannel.

Part 1  directed tests of the documented / property-relevant behaviour (boundary cases).
Part 2  thousands of seeded random scenarios (1..2 senders x 1..3 items, 1..3 receivers
        using receive() or async-for, a closer at a random point, bounded and unbounded
        buffers, optional cancellation of one receiver) that are run
          * on an event loop whose ready queue is shuffled with a seeded RNG, so that many
            different interleavings are explored deterministically, and
          * both with the library's AsyncChannel and with REFERENCE, a verbatim copy of the
            reference implementation embedded below;
        the full event traces (every result, every exception, closed()/done()/qsize()/
        waiting count after every step, which tasks are blocked at quiescence) must be
        identical, and the C12 property itself is asserted on the library run.

Exits 0 when everything holds.
"""
import asyncio
import random
import sys
from typing import AsyncIterable

from betterproto.grpc.util.async_channel import AsyncChannel, ChannelClosed, ChannelDone


# --------------------------------------------------------------------------------------
# verbatim copy of the reference implementation (only the exception classes are shared)
# --------------------------------------------------------------------------------------
class REFERENCE(AsyncIterable):
    def __init__(self, *, buffer_limit: int = 0, close: bool = False):
        self._queue = asyncio.Queue(buffer_limit)
        self._closed = False
        self._waiting_receivers = 0
        self._flushed = False

    def __aiter__(self):
        return self

    async def __anext__(self):
        if self.done():
            raise StopAsyncIteration
        self._waiting_receivers += 1
        try:
            result = await self._queue.get()
        finally:
            self._waiting_receivers -= 1
        self._queue.task_done()
        if result is self.__flush:
            raise StopAsyncIteration
        return result

    def closed(self):
        return self._closed

    def done(self):
        return self._closed and self._queue.qsize() <= self._waiting_receivers

    async def send_from(self, source, close=False):
        if self._closed:
            raise ChannelClosed("Cannot send through a closed channel")
        if isinstance(source, AsyncIterable):
            async for item in source:
                await self._queue.put(item)
        else:
            for item in source:
                await self._queue.put(item)
        if close:
            self.close()
        return self

    async def send(self, item):
        if self._closed:
            raise ChannelClosed("Cannot send through a closed channel")
        await self._queue.put(item)
        return self

    async def receive(self):
        if self.done():
            raise ChannelDone("Cannot receive from a closed channel")
        self._waiting_receivers += 1
        try:
            result = await self._queue.get()
        finally:
            self._waiting_receivers -= 1
        self._queue.task_done()
        if result is self.__flush:
            return None
        return result

    def close(self):
        self._closed = True
        asyncio.ensure_future(self._flush_queue())

    async def _flush_queue(self):
        if not self._flushed:
            self._flushed = True
            deadlocked_receivers = max(0, self._waiting_receivers - self._queue.qsize())
            for _ in range(deadlocked_receivers):
                await self._queue.put(self.__flush)

    __flush = object()


# --------------------------------------------------------------------------------------
# helpers
# --------------------------------------------------------------------------------------
class ShuffleLoop(asyncio.SelectorEventLoop):
    """An event loop that runs the callbacks of its ready queue in a seeded random order."""

    def __init__(self, seed):
        super().__init__()
        self._shuffle_rng = random.Random(seed) if seed is not None else None

    def _run_once(self):
        if self._shuffle_rng is not None and len(self._ready) > 1:
            handles = list(self._ready)
            self._shuffle_rng.shuffle(handles)
            self._ready.clear()
            self._ready.extend(handles)
        super()._run_once()


def run(coro, seed=None):
    loop = ShuffleLoop(seed)
    try:
        return loop.run_until_complete(coro)
    finally:
        # e.g. a flush task that is stuck on a full bounded buffer nobody reads any more
        leftover = asyncio.all_tasks(loop)
        for t in leftover:
            t.cancel()
        if leftover:
            loop.run_until_complete(asyncio.gather(*leftover, return_exceptions=True))
        loop.run_until_complete(loop.shutdown_asyncgens())
        loop.close()


async def spin(n=1):
    for _ in range(n):
        await asyncio.sleep(0)


async def settle(tasks, limit=400):
    """Let the loop run until all tasks are done or nothing moves any more."""
    for _ in range(limit):
        if all(t.done() for t in tasks):
            break
        await asyncio.sleep(0)


async def agen(items, yields=0):
    for item in items:
        await spin(yields)
        yield item


# --------------------------------------------------------------------------------------
# Part 1: directed tests (run for the library class and for the reference copy)
# --------------------------------------------------------------------------------------
FALSY = [0, "", b"", (), False, 0.0, [], {}]


async def directed(Chan):
    # --- plain FIFO, receive() and async for, falsy items are ordinary items ------------
    ch = Chan()
    assert await ch.send(1) is ch
    assert await ch.send_from([2, 3]) is ch
    assert await ch.send_from(agen([4, 5])) is ch
    assert await ch.send_from(iter([6])) is ch
    assert await ch.send_from(x for x in [7]) is ch
    assert not ch.closed() and not ch.done()
    assert [await ch.receive() for _ in range(3)] == [1, 2, 3]
    ch.close()
    assert ch.closed() and not ch.done()
    assert [x async for x in ch] == [4, 5, 6, 7]
    assert ch.done()
    assert ch._queue._unfinished_tasks == 0
    await asyncio.wait_for(ch._queue.join(), 1)

    for style in ("receive", "for"):
        ch = Chan()
        await ch.send_from(list(FALSY), close=True)
        assert ch.closed() and not ch.done()
        if style == "receive":
            got = []
            while not ch.done():
                got.append(await ch.receive())
        else:
            got = [x async for x in ch]
        assert len(got) == len(FALSY) and all(
            a is b or (a == b and type(a) is type(b)) for a, b in zip(got, FALSY)
        ), got
        assert ch.done()

    # --- done channel: receive raises ChannelDone, iteration ends, sends raise ---------
    for _ in range(2):
        try:
            await ch.receive()
            raise AssertionError("no ChannelDone")
        except ChannelDone as e:
            assert str(e) == "Cannot receive from a closed channel"
        assert [x async for x in ch] == []
        try:
            await ch.__anext__()
            raise AssertionError("no StopAsyncIteration")
        except StopAsyncIteration:
            pass
        for op in (
            lambda: ch.send(1),
            lambda: ch.send_from([1]),
            lambda: ch.send_from([]),
            lambda: ch.send_from(agen([1])),
            lambda: ch.send_from([1], close=True),
        ):
            try:
                await op()
                raise AssertionError("no ChannelClosed")
            except ChannelClosed as e:
                assert str(e) == "Cannot send through a closed channel"
        assert ch._queue.qsize() == 0 and ch._waiting_receivers == 0
        ch.close()  # closing again is harmless
        await spin(3)
        assert ch.done() and ch._queue.qsize() == 0

    # --- close with nobody waiting and nothing buffered --------------------------------
    ch = Chan()
    assert not ch.done()
    ch.close()
    assert ch.done() and ch.closed()
    await spin(3)
    assert ch._queue.qsize() == 0

    # --- closed but not drained: still receivable, not sendable ------------------------
    ch = Chan()
    await ch.send("x")
    await ch.send("y")
    ch.close()
    await spin(3)
    assert ch._queue.qsize() == 2  # no sentinel injected
    try:
        await ch.send("z")
        raise AssertionError
    except ChannelClosed:
        pass
    assert await ch.receive() == "x"
    assert not ch.done()
    assert await ch.__anext__() == "y"
    assert ch.done()

    # --- blocked receivers are released by close: None / end of iteration --------------
    for n_recv in (1, 2, 3):
        for styles in (("receive",) * 3, ("for",) * 3, ("receive", "for", "receive")):
            ch = Chan()
            out = {}

            async def r_receive(i):
                out[i] = ("receive", await ch.receive())

            async def r_for(i):
                out[i] = ("for", [x async for x in ch])

            tasks = [
                asyncio.ensure_future((r_receive if styles[i] == "receive" else r_for)(i))
                for i in range(n_recv)
            ]
            await spin(2)
            assert ch._waiting_receivers == n_recv
            assert not any(t.done() for t in tasks)
            ch.close()
            assert ch.done()  # nothing buffered
            await settle(tasks)
            assert all(t.done() for t in tasks)
            for i in range(n_recv):
                assert out[i] == (("receive", None) if styles[i] == "receive" else ("for", []))
            assert ch._waiting_receivers == 0 and ch._queue.qsize() == 0 and ch.done()

    # --- an item buffered for a blocked receiver is reserved: a late receiver on the
    #     closed channel gets ChannelDone / end of iteration and cannot steal it ---------
    for late_style in ("receive", "for"):
        ch = Chan()
        got = []

        async def blocked():
            got.append(await ch.receive())

        t = asyncio.ensure_future(blocked())
        await spin(2)
        await ch.send("reserved")  # wakes the blocked receiver, it has not run yet
        ch.close()
        assert ch._queue.qsize() == 1 and ch._waiting_receivers == 1
        assert ch.done()
        if late_style == "receive":
            try:
                await ch.receive()
                raise AssertionError("stole a reserved item")
            except ChannelDone:
                pass
        else:
            assert [x async for x in ch] == []
        await settle([t])
        assert got == ["reserved"] and ch.done()

    # --- ... but on an open channel the late receiver may take it, and the blocked one
    #     simply keeps waiting for the next item ---------------------------------------
    ch = Chan()
    got = []

    async def blocked2():
        got.append(("blocked", await ch.receive()))

    t = asyncio.ensure_future(blocked2())
    await spin(2)
    await ch.send("first")
    assert ch._waiting_receivers == 1
    assert await ch.receive() == "first"  # taken immediately, no suspension
    assert ch._waiting_receivers == 1
    await spin(3)
    assert not t.done() and ch._waiting_receivers == 1
    await ch.send("second")
    await settle([t])
    assert got == [("blocked", "second")]
    assert ch._waiting_receivers == 0

    # --- receive on a non-empty queue does not suspend (a competing ready task cannot
    #     get in between) --------------------------------------------------------------
    ch = Chan()
    await ch.send_from(["a", "b", "c"])
    order = []

    async def other():
        order.append("other ran")

    ot = asyncio.ensure_future(other())
    order.append(await ch.receive())
    order.append(await ch.__anext__())
    order.append(await ch.receive())
    await settle([ot])
    assert order == ["a", "b", "c", "other ran"], order

    # --- cancelling / timing out a blocked receiver ------------------------------------
    for style in ("receive", "anext"):
        ch = Chan()
        coro = ch.receive() if style == "receive" else ch.__anext__()
        t = asyncio.ensure_future(coro)
        await spin(2)
        assert ch._waiting_receivers == 1
        t.cancel()
        try:
            await t
            raise AssertionError("not cancelled")
        except asyncio.CancelledError:
            pass
        assert ch._waiting_receivers == 0 and not ch.done() and not ch.closed()
        try:
            await asyncio.wait_for(
                ch.receive() if style == "receive" else ch.__anext__(), 0.01
            )
            raise AssertionError("no timeout")
        except asyncio.TimeoutError:
            pass
        assert ch._waiting_receivers == 0
        assert ch._queue._unfinished_tasks == 0
        # still usable, nothing lost
        await ch.send("after")
        assert ch._queue.qsize() == 1
        assert await ch.receive() == "after"
        # cancel a receiver whose item is already reserved for it: the item stays
        t = asyncio.ensure_future(ch.receive() if style == "receive" else ch.__anext__())
        t2 = asyncio.ensure_future(ch.receive())
        await spin(2)
        assert ch._waiting_receivers == 2
        await ch.send("kept")
        t.cancel()
        await settle([t, t2])
        assert t.cancelled()
        assert t2.result() == "kept"
        assert ch._waiting_receivers == 0 and ch._queue.qsize() == 0
        ch.close()
        assert ch.done()
        await spin(2)
        assert ch._queue._unfinished_tasks == 0

    # --- cancel one of two blocked receivers between close() and the flush -------------
    ch = Chan()
    t1 = asyncio.ensure_future(ch.receive())
    t2 = asyncio.ensure_future(ch.receive())
    await spin(2)
    ch.close()
    t1.cancel()
    await settle([t1, t2])
    assert t1.cancelled() and t2.result() is None
    await spin(2)
    # if the flush ran before the cancellation was delivered, the signal meant for the
    # cancelled receiver is still buffered: a later receiver gets None, then it is done
    assert ch._queue.qsize() in (0, 1) and ch.done() == (ch._queue.qsize() == 0)
    if not ch.done():
        assert await ch.receive() is None
    assert ch._queue.qsize() == 0 and ch.done()

    # --- bounded buffer: senders block, FIFO kept, close releases the receivers --------
    for limit in (1, 2):
        ch = Chan(buffer_limit=limit)
        progress = []

        async def producer():
            for i in range(5):
                await ch.send(i)
                progress.append(i)
            ch.close()

        pt = asyncio.ensure_future(producer())
        await spin(5)
        assert progress == list(range(limit)) and not pt.done()
        assert ch._queue.full()
        got = []
        r1 = asyncio.ensure_future(collect_receive(ch, got))
        r2 = asyncio.ensure_future(collect_for(ch, got))
        await settle([pt, r1, r2])
        assert pt.done() and r1.done() and r2.done()
        assert sorted(got) == list(range(5)), got
        assert ch.done() and ch._waiting_receivers == 0

        # send_from blocked on a full buffer while a receiver drains with a negative /
        # zero / positive limit variety
    for limit in (-1, 0, 1, 3, 10):
        ch = Chan(buffer_limit=limit)
        st = asyncio.ensure_future(ch.send_from(range(6), close=True))
        got = []
        rt = asyncio.ensure_future(collect_for(ch, got))
        await settle([st, rt])
        assert st.done() and st.result() is ch and rt.done()
        assert got == list(range(6)), (limit, got)
        assert ch.done()


async def collect_receive(ch, got):
    while True:
        try:
            item = await ch.receive()
        except ChannelDone:
            return
        if item is not None:
            got.append(item)


async def collect_for(ch, got):
    while not ch.done():
        async for item in ch:
            got.append(item)


# --------------------------------------------------------------------------------------
# Part 2: seeded random scenarios on a shuffling loop, traces compared with REFERENCE
# --------------------------------------------------------------------------------------
def make_config(seed):
    rng = random.Random(seed)
    n_senders = rng.randint(1, 2)
    pools = [[0, "", ()], [("b", 0), ("b", 1), ("b", 2)]]
    senders = []
    for s in range(n_senders):
        n_items = rng.randint(1, 3)
        senders.append(
            {
                "items": pools[s][:n_items],
                "mode": rng.choice(["send", "send", "send_from", "send_from_async"]),
                "yields": [rng.randint(0, 3) for _ in range(n_items + 1)],
            }
        )
    receivers = [
        {"style": rng.choice(["receive", "for"]), "start": rng.randint(0, 4)}
        for _ in range(rng.randint(1, 3))
    ]
    close_mode = rng.choice(["task", "task", "task", "send_from", "both"])
    if close_mode != "task" and not any(s["mode"] != "send" for s in senders):
        senders[0]["mode"] = "send_from"
    return {
        "seed": seed,
        "buffer_limit": rng.choice([0, 0, 1, 2]),
        "senders": senders,
        "receivers": receivers,
        "close_mode": close_mode,
        "close_after": rng.randint(0, 10),
        "cancel": rng.random() < 0.5,
        "cancel_who": rng.randrange(3),
        "cancel_after": rng.randint(0, 10),
        "shuffle": rng.random() < 0.85,
    }


async def scenario(Chan, cfg):
    ch = Chan(buffer_limit=cfg["buffer_limit"])
    trace = []

    def ev(*what):
        trace.append(
            what + (ch.closed(), ch.done(), ch._queue.qsize(), ch._waiting_receivers)
        )

    closes_in_send_from = cfg["close_mode"] in ("send_from", "both")
    closing_sender = None
    if closes_in_send_from:
        closing_sender = next(
            i for i, s in enumerate(cfg["senders"]) if s["mode"] != "send"
        )

    async def sender(sid, spec):
        items, ys = spec["items"], spec["yields"]
        if spec["mode"] == "send":
            for item, y in zip(items, ys):
                await spin(y)
                try:
                    await ch.send(item)
                except ChannelClosed:
                    ev("send_rejected", sid, item)
                    return
                ev("sent", sid, item)
        else:
            await spin(ys[0])
            source = list(items) if spec["mode"] == "send_from" else agen(items, ys[-1])
            close = sid == closing_sender
            try:
                res = await ch.send_from(source, close=close)
            except ChannelClosed:
                ev("send_from_rejected", sid)
                if not isinstance(source, list):
                    await source.aclose()
                return
            assert res is ch
            for item in items:
                ev("sent", sid, item)
            if close:
                ev("close", "send_from")

    async def receiver(rid, spec):
        try:
            await spin(spec["start"])
            if spec["style"] == "receive":
                while True:
                    try:
                        item = await ch.receive()
                    except ChannelDone:
                        ev("channel_done", rid)
                        return
                    if item is None:
                        ev("none", rid)
                    else:
                        ev("recv", rid, item)
            else:
                while not ch.done():
                    async for item in ch:
                        ev("recv", rid, item)
                    ev("end_of_iteration", rid)
                ev("channel_done", rid)
        except asyncio.CancelledError:
            ev("cancelled", rid)

    async def closer():
        await spin(cfg["close_after"])
        ev("close", "task")
        ch.close()

    recv_tasks = [
        asyncio.ensure_future(receiver(i, r)) for i, r in enumerate(cfg["receivers"])
    ]
    send_tasks = [
        asyncio.ensure_future(sender(i, s)) for i, s in enumerate(cfg["senders"])
    ]
    other = []
    if cfg["close_mode"] in ("task", "both"):
        other.append(asyncio.ensure_future(closer()))

    async def canceller():
        await spin(cfg["cancel_after"])
        victim = cfg["cancel_who"] % len(recv_tasks)
        ev("cancel_request", victim, recv_tasks[victim].done())
        recv_tasks[victim].cancel()

    if cfg["cancel"]:
        other.append(asyncio.ensure_future(canceller()))

    everything = recv_tasks + send_tasks + other
    await settle(everything)
    blocked_receivers = [i for i, t in enumerate(recv_tasks) if not t.done()]
    blocked_senders = [i for i, t in enumerate(send_tasks) if not t.done()]
    ev("quiescent", tuple(blocked_receivers), tuple(blocked_senders))
    assert all(t.done() for t in other)
    for t in everything:
        if not t.done():
            t.cancel()
    await asyncio.gather(*everything, return_exceptions=True)
    for t in everything:
        if not t.cancelled():
            assert t.exception() is None, t.exception()
    for rid, t in enumerate(recv_tasks):
        if t.cancelled():  # cancelled before its first step: the coroutine never ran
            ev("never_started", rid)

    # whatever is left in the channel is still there for a later receiver
    was_closed = ch.closed()
    if was_closed:
        for _ in range(20):
            if ch.done():
                break
            item = await ch.receive()
            ev("drain", item)
        assert ch.done()
        try:
            await ch.receive()
            raise AssertionError("ChannelDone expected")
        except ChannelDone:
            pass
        assert [x async for x in ch] == []
        for op in (lambda: ch.send("late"), lambda: ch.send_from(["late"])):
            try:
                await op()
                raise AssertionError("ChannelClosed expected")
            except ChannelClosed:
                pass
        ev("final")
    return trace, was_closed


def check_property(cfg, trace, was_closed):
    """The C12 statement, checked on one trace."""
    names = [e[0] for e in trace]
    if not was_closed:
        # only possible when the one and only close is the one at the end of a send_from
        # that is stuck on a full bounded buffer because every receiver was cancelled
        q = next(e for e in trace if e[0] == "quiescent")
        assert cfg["close_mode"] == "send_from" and cfg["buffer_limit"] > 0, cfg
        assert q[2] != () and "close" not in names, (cfg, q)
        assert any(e[0] in ("cancelled", "never_started") for e in trace), cfg
        return 0
    first_close = names.index("close")
    sent_before_close = [e[2] for e in trace[:first_close] if e[0] == "sent"]
    all_offered = [item for s in cfg["senders"] for item in s["items"]]
    received = [e[2] for e in trace if e[0] == "recv"] + [
        e[1] for e in trace if e[0] == "drain" and e[1] is not None
    ]
    by_receivers = [e[2] for e in trace if e[0] == "recv"]
    # nothing invented, nothing twice
    for item in received:
        assert any(item is o or item == o and type(item) is type(o) for o in all_offered)
    assert len(set(map(repr, received))) == len(received), (cfg, received)
    # every item whose send completed before the close is received
    for item in sent_before_close:
        assert repr(item) in set(map(repr, received)), (cfg, item, trace)
    # per-sender order
    for s in cfg["senders"]:
        mine = [repr(i) for i in s["items"]]
        seen = [repr(i) for i in received if repr(i) in mine]
        assert seen == [m for m in mine if m in seen], (cfg, seen)
    # no stranded receiver: every receiver task terminated (ChannelDone / end of
    # iteration, or the requested cancellation)
    q = next(e for e in trace if e[0] == "quiescent")
    assert q[1] == (), (cfg, "stranded receivers", q)
    finished = {
        e[1] for e in trace if e[0] in ("channel_done", "cancelled", "never_started")
    }
    assert finished == set(range(len(cfg["receivers"]))), (cfg, finished)
    cancelled = [e[1] for e in trace if e[0] in ("cancelled", "never_started")]
    requests = [e for e in trace if e[0] == "cancel_request"]
    assert len(cancelled) <= len(requests)
    for e in requests:
        if not e[2]:  # victim was still running: the cancellation must surface
            assert cancelled == [e[1]], (cfg, trace)
    # unbounded buffers never block a sender
    if cfg["buffer_limit"] == 0:
        assert q[2] == (), (cfg, "blocked sender", q)
    # after the close no send is accepted that started later: rejected senders stay so
    assert trace[-1][0] == "final" and trace[-1][-3] is True  # done()
    return len(by_receivers)


def main():
    run(directed(AsyncChannel))
    run(directed(REFERENCE))
    for seed in (1, 2, 3):
        run(directed(AsyncChannel), seed=seed)

    n = 10000
    compared = delivered = with_cancel = bounded = 0
    for seed in range(n):
        cfg = make_config(seed)
        loop_seed = seed * 7919 + 13 if cfg["shuffle"] else None
        trace, was_closed = run(scenario(AsyncChannel, cfg), seed=loop_seed)
        delivered += check_property(cfg, trace, was_closed)
        with_cancel += any(e[0] == "cancelled" for e in trace)
        bounded += cfg["buffer_limit"] != 0
        # Closing twice creates a second (no-op) flush task in the reference, which is
        # not a behaviour of the channel; traces are compared where the channel is closed
        # once, the property is checked everywhere.
        if cfg["close_mode"] != "both":
            ref_trace, ref_closed = run(scenario(REFERENCE, cfg), seed=loop_seed)
            assert ref_closed == was_closed
            assert trace == ref_trace, (
                cfg,
                [(a, b) for a, b in zip(trace, ref_trace) if a != b][:3],
                len(trace),
                len(ref_trace),
            )
            compared += 1
    assert compared > n // 2 and with_cancel > 100 and bounded > n // 4 and delivered > n
    print(
        f"equiv OK: {n} scenarios, {compared} trace-compared with the reference, "
        f"{delivered} items delivered, {with_cancel} with a cancelled receiver, "
        f"{bounded} with a bounded buffer"
    )


if __name__ == "__main__":
    main()
    sys.exit(0)
