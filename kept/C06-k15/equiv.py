"""C06 / keep1: the public ``*_field`` helpers and ``dataclass_field`` (which decide
whether a field starts as the PLACEHOLDER sentinel or as None and what metadata
dump / is_set / __post_init__ see) behave identically.

Part 1 checks the helpers themselves (signature, produced dataclass field, its
default and metadata) against an independent table.
Part 2 runs the presence matrix {plain, proto3 optional, oneof member} x every
scalar kind x {never set, type default, non-default} x {constructor, attribute,
parse, from_dict} against google.protobuf.

Exits 0 on the pristine tree and with the refactor applied.
"""
import dataclasses
import inspect
import itertools
import pickle
from dataclasses import dataclass
from typing import Optional

import betterproto
from betterproto import PLACEHOLDER, FieldMetadata
from google.protobuf import descriptor_pb2, descriptor_pool, json_format
from google.protobuf import message_factory

F = descriptor_pb2.FieldDescriptorProto

# kind, betterproto type constant, python type, reference type, default, non-default
KINDS = [
    ("enum", "enum", int, F.TYPE_ENUM, 0, 1),
    ("bool", "bool", bool, F.TYPE_BOOL, False, True),
    ("int32", "int32", int, F.TYPE_INT32, 0, -7),
    ("int64", "int64", int, F.TYPE_INT64, 0, -(2**40)),
    ("uint32", "uint32", int, F.TYPE_UINT32, 0, 2**31),
    ("uint64", "uint64", int, F.TYPE_UINT64, 0, 2**63),
    ("sint32", "sint32", int, F.TYPE_SINT32, 0, -3),
    ("sint64", "sint64", int, F.TYPE_SINT64, 0, 2**40),
    ("float", "float", float, F.TYPE_FLOAT, 0.0, 0.25),
    ("double", "double", float, F.TYPE_DOUBLE, 0.0, -1.5),
    ("fixed32", "fixed32", int, F.TYPE_FIXED32, 0, 9),
    ("fixed64", "fixed64", int, F.TYPE_FIXED64, 0, 2**50),
    ("sfixed32", "sfixed32", int, F.TYPE_SFIXED32, 0, -9),
    ("sfixed64", "sfixed64", int, F.TYPE_SFIXED64, 0, -(2**50)),
    ("string", "string", str, F.TYPE_STRING, "", "x"),
    ("bytes", "bytes", bytes, F.TYPE_BYTES, b"", b"\x00\x01"),
]

# ------------------------------------------------------------------ part 1
EXPECTED_TYPE = {
    "enum_field": betterproto.TYPE_ENUM,
    "bool_field": betterproto.TYPE_BOOL,
    "int32_field": betterproto.TYPE_INT32,
    "int64_field": betterproto.TYPE_INT64,
    "uint32_field": betterproto.TYPE_UINT32,
    "uint64_field": betterproto.TYPE_UINT64,
    "sint32_field": betterproto.TYPE_SINT32,
    "sint64_field": betterproto.TYPE_SINT64,
    "float_field": betterproto.TYPE_FLOAT,
    "double_field": betterproto.TYPE_DOUBLE,
    "fixed32_field": betterproto.TYPE_FIXED32,
    "fixed64_field": betterproto.TYPE_FIXED64,
    "sfixed32_field": betterproto.TYPE_SFIXED32,
    "sfixed64_field": betterproto.TYPE_SFIXED64,
    "string_field": betterproto.TYPE_STRING,
    "bytes_field": betterproto.TYPE_BYTES,
}
assert len(set(EXPECTED_TYPE.values())) == 16


def check_field(field, number, proto_type, map_types, group, wraps, optional):
    assert isinstance(field, dataclasses.Field)
    if optional:
        assert field.default is None
    else:
        assert field.default is PLACEHOLDER
    assert field.default_factory is dataclasses.MISSING
    assert list(field.metadata.keys()) == ["betterproto"]
    meta = field.metadata["betterproto"]
    assert type(meta) is FieldMetadata
    assert FieldMetadata.get(field) is meta
    assert (meta.number, meta.proto_type, meta.map_types, meta.group, meta.wraps) == (
        number, proto_type, map_types, group, wraps)
    assert meta.optional is optional or meta.optional == optional
    assert meta == FieldMetadata(number, proto_type, map_types, group, wraps, optional)
    assert field.init and field.repr and field.compare


NUMBERS = [1, 2, 15, 16, 2047, 2048, 19000, 2**29 - 1]
GROUPS = [None, "g", "group1", ""]
n_checked = 0
for helper_name, proto_type in EXPECTED_TYPE.items():
    helper = getattr(betterproto, helper_name)
    assert callable(helper)
    assert helper.__name__ == helper_name
    assert helper.__module__ == "betterproto"
    # picklable by reference, like any module-level function
    assert pickle.loads(pickle.dumps(helper)) is helper
    sig = inspect.signature(helper)
    assert list(sig.parameters) == ["number", "group", "optional"]
    assert sig.parameters["number"].default is inspect.Parameter.empty
    assert sig.parameters["group"].default is None
    assert sig.parameters["optional"].default is False
    assert all(
        p.kind is inspect.Parameter.POSITIONAL_OR_KEYWORD for p in sig.parameters.values()
    )
    for number, group, optional in itertools.product(NUMBERS, GROUPS, [False, True]):
        for field in (
            helper(number, group, optional),
            helper(number, group=group, optional=optional),
            helper(number=number, optional=optional, group=group),
        ):
            check_field(field, number, proto_type, None, group, None, optional)
            n_checked += 1
    # defaults
    check_field(helper(3), 3, proto_type, None, None, None, False)
    check_field(helper(3, "g"), 3, proto_type, None, "g", None, False)
    check_field(helper(3, optional=True), 3, proto_type, None, None, None, True)
    # two calls never share a Field object
    assert helper(1) is not helper(1)
    # wrong calls are still rejected
    for bad in (lambda: helper(), lambda: helper(1, None, False, None), lambda: helper(1, wraps="x")):
        try:
            bad()
        except TypeError:
            pass
        else:
            raise AssertionError("bad call accepted")

# message_field / map_field / dataclass_field
for number, group, optional in itertools.product(NUMBERS, GROUPS, [False, True]):
    for wraps in (None, betterproto.TYPE_BOOL, betterproto.TYPE_STRING):
        check_field(
            betterproto.message_field(number, group, wraps, optional),
            number, betterproto.TYPE_MESSAGE, None, group, wraps, optional)
        check_field(
            betterproto.message_field(number, group=group, wraps=wraps, optional=optional),
            number, betterproto.TYPE_MESSAGE, None, group, wraps, optional)
    check_field(
        betterproto.map_field(number, betterproto.TYPE_STRING, betterproto.TYPE_INT32, group),
        number, betterproto.TYPE_MAP,
        (betterproto.TYPE_STRING, betterproto.TYPE_INT32), group, None, False)
    for proto_type in list(EXPECTED_TYPE.values()) + [betterproto.TYPE_MESSAGE]:
        for map_types in (None, (betterproto.TYPE_INT64, betterproto.TYPE_MESSAGE)):
            for wraps in (None, betterproto.TYPE_UINT64):
                check_field(
                    betterproto.dataclass_field(
                        number, proto_type, map_types=map_types, group=group,
                        wraps=wraps, optional=optional),
                    number, proto_type, map_types, group, wraps, optional)
check_field(betterproto.dataclass_field(5, betterproto.TYPE_INT32),
            5, betterproto.TYPE_INT32, None, None, None, False)
try:
    betterproto.dataclass_field(5, betterproto.TYPE_INT32, None)  # keyword-only part
except TypeError:
    pass
else:
    raise AssertionError("positional map_types accepted")
assert list(inspect.signature(betterproto.dataclass_field).parameters) == [
    "number", "proto_type", "map_types", "group", "wraps", "optional"]
assert n_checked == 16 * len(NUMBERS) * len(GROUPS) * 2 * 3

# ------------------------------------------------------------------ part 2
fdp = descriptor_pb2.FileDescriptorProto(
    name="c06_keep1.proto", package="c06keep1", syntax="proto3"
)
enum = fdp.enum_type.add(name="E")
enum.value.add(name="ZERO", number=0)
enum.value.add(name="ONE", number=1)
msg = fdp.message_type.add(name="M")
msg.oneof_decl.add(name="grp")  # index 0: the real oneof
synthetic = []
for i, (kind, _c, _p, rtype, _d, _o) in enumerate(KINDS):
    extra = {"type_name": ".c06keep1.E"} if rtype == F.TYPE_ENUM else {}
    msg.field.add(name=f"p_{kind}", number=1 + i, type=rtype, label=F.LABEL_OPTIONAL, **extra)
    msg.field.add(name=f"g_{kind}", number=41 + i, type=rtype, label=F.LABEL_OPTIONAL,
                  oneof_index=0, **extra)
for i, (kind, _c, _p, rtype, _d, _o) in enumerate(KINDS):
    extra = {"type_name": ".c06keep1.E"} if rtype == F.TYPE_ENUM else {}
    msg.field.add(name=f"o_{kind}", number=21 + i, type=rtype, label=F.LABEL_OPTIONAL,
                  proto3_optional=True, oneof_index=1 + i, **extra)
    msg.oneof_decl.add(name=f"_o_{kind}")
pool = descriptor_pool.DescriptorPool()
pool.Add(fdp)
RefM = message_factory.GetMessageClass(pool.FindMessageTypeByName("c06keep1.M"))


class E(betterproto.Enum):
    ZERO = 0
    ONE = 1


namespace = {"__annotations__": {}}
for i, (kind, _c, pytype, _r, _d, _o) in enumerate(KINDS):
    helper = getattr(betterproto, f"{kind}_field")
    t = E if kind == "enum" else pytype
    namespace["__annotations__"][f"p_{kind}"] = t
    namespace[f"p_{kind}"] = helper(1 + i)
for i, (kind, _c, pytype, _r, _d, _o) in enumerate(KINDS):
    helper = getattr(betterproto, f"{kind}_field")
    t = E if kind == "enum" else pytype
    namespace["__annotations__"][f"o_{kind}"] = Optional[t]
    namespace[f"o_{kind}"] = helper(21 + i, optional=True)
for i, (kind, _c, pytype, _r, _d, _o) in enumerate(KINDS):
    helper = getattr(betterproto, f"{kind}_field")
    t = E if kind == "enum" else pytype
    namespace["__annotations__"][f"g_{kind}"] = t
    namespace[f"g_{kind}"] = helper(41 + i, group="grp")
namespace["E"] = E
M = dataclass(eq=False, repr=False)(type("M", (betterproto.Message,), namespace))
import sys
sys.modules[__name__].E = E

PRESENCE = [f"o_{k[0]}" for k in KINDS] + [f"g_{k[0]}" for k in KINDS]
ALL = [f"p_{k[0]}" for k in KINDS] + PRESENCE


def check(label, message, ref):
    for name in PRESENCE:
        assert message.is_set(name) == ref.HasField(name), (label, name, "is_set")
    which = betterproto.which_one_of(message, "grp")
    assert which[0] == (ref.WhichOneof("grp") or ""), (label, which)
    if which[0]:
        assert which[1] == getattr(ref, which[0]), (label, which)
    else:
        assert which[1] is None
    expected = ref.SerializeToString(deterministic=True)
    got = bytes(message)
    assert got == expected, (label, got, expected)
    assert len(message) == len(expected), label
    again = M().parse(got)
    for name in PRESENCE:
        assert again.is_set(name) == ref.HasField(name), (label, name, "round trip")
    assert betterproto.which_one_of(again, "grp")[0] == (ref.WhichOneof("grp") or "")
    assert bytes(again) == expected, label


fresh = M()
assert bytes(fresh) == b"" and len(fresh) == 0
assert not betterproto.serialized_on_wire(fresh)
for kind, _c, _p, _r, default, _o in KINDS:
    assert getattr(fresh, f"p_{kind}") == default
    assert type(getattr(fresh, f"p_{kind}")) in (type(default), E)
    assert getattr(fresh, f"o_{kind}") is None
    try:
        getattr(fresh, f"g_{kind}")
    except AttributeError:
        pass
    else:
        raise AssertionError("unselected oneof member readable")
for name in ALL:
    assert not fresh.is_set(name)
assert bytes(fresh) == b""
check("fresh", fresh, RefM())

n_cases = 0
for kind, _c, _p, _r, default, other in KINDS:
    for prefix in ("p_", "o_", "g_"):
        name = prefix + kind
        for state, value in (("default", default), ("non-default", other)):
            ref = RefM(**{name: value})
            label = f"{name}/{state}"
            check(label + "/ctor", M(**{name: value}), ref)
            m = M()
            setattr(m, name, value)
            check(label + "/attr", m, ref)
            check(label + "/parse", M().parse(ref.SerializeToString()), ref)
            check(label + "/FromString", M.FromString(ref.SerializeToString()), ref)
            doc = json_format.MessageToDict(ref)
            if prefix != "p_" or state == "non-default":
                assert len(doc) == 1, doc
            check(label + "/from_dict", M.from_dict(doc), ref)
            check(label + "/from_dict-instance", M().from_dict(doc), ref)
            n_cases += 6

# combinations: all plain + all optional at their default, plus one oneof member
for kind, _c, _p, _r, default, other in KINDS:
    values = {f"p_{k[0]}": k[4] for k in KINDS}
    values.update({f"o_{k[0]}": k[4] for k in KINDS})
    values[f"g_{kind}"] = default
    ref = RefM(**values)
    check(f"combo-default/{kind}/ctor", M(**values), ref)
    m = M()
    for name, value in values.items():
        setattr(m, name, value)
    check(f"combo-default/{kind}/attr", m, ref)
    check(f"combo-default/{kind}/parse", M().parse(ref.SerializeToString()), ref)
    check(f"combo-default/{kind}/from_dict", M.from_dict(json_format.MessageToDict(ref)), ref)

    values = {f"p_{k[0]}": k[5] for k in KINDS}
    values.update({f"o_{k[0]}": k[5] for k in KINDS})
    values[f"g_{kind}"] = other
    ref = RefM(**values)
    check(f"combo-other/{kind}/ctor", M(**values), ref)
    check(f"combo-other/{kind}/parse", M().parse(ref.SerializeToString()), ref)
    check(f"combo-other/{kind}/from_dict", M.from_dict(json_format.MessageToDict(ref)), ref)

# switching oneof members by assignment keeps exactly the last one
m = M()
ref = RefM()
for kind, _c, _p, _r, default, other in KINDS:
    for value in (other, default):
        setattr(m, f"g_{kind}", value)
        setattr(ref, f"g_{kind}", value)
        check(f"switch/{kind}", m, ref)

print(f"C06 keep1 equiv: OK ({n_checked} helper calls, {n_cases} matrix cases)")
