"""C13 keep2: plugin/models.py type references (fields, map values, rpc types) behave as before."""
import contextlib
import importlib
import io
import itertools
import os
import pathlib
import shutil
import sys
import tempfile
import typing

import grpc_tools
from grpc_tools import protoc as _protoc

import betterproto
import betterproto.plugin.compiler as plugin_compiler
from betterproto.lib.google.protobuf import FileDescriptorSet
from betterproto.lib.google.protobuf.compiler import CodeGeneratorRequest
from betterproto.plugin.models import monkey_patch_oneof_index

# ruff is not installed: the two formatting passes become the identity
plugin_compiler.subprocess.check_output = lambda cmd, input, encoding: input
from betterproto.plugin.parser import generate_code  # noqa: E402

monkey_patch_oneof_index()

_TMP = []
_COUNTER = itertools.count()


def pkg_id(path):
    return "_".join(path) if path else "root"


def fq(path, name):
    """fully qualified proto name of `name` defined in package `path`"""
    return "." + ".".join([*path, name])


KINDS = {  # kind -> (proto name inside the package, python class name, is_enum)
    "msg": ("Msg", "Msg", False),
    "nested_msg": ("Outer.Inner", "OuterInner", False),
    "deep_msg": ("Outer.Inner.Deep", "OuterInnerDeep", False),
    "enum": ("Kind", "Kind", True),
    "nested_enum": ("Outer.Nk", "OuterNk", True),
}


def defs_proto(path):
    pid = pkg_id(path).upper()
    lines = ['syntax = "proto3";']
    if path:
        lines.append(f"package {'.'.join(path)};")
    lines.append(
        f"""
message Msg {{ int32 v = 1; string tag = 2; }}
message Outer {{
  message Inner {{
    message Deep {{ int32 v = 1; }}
    int32 v = 1;
    Deep deep = 2;
  }}
  enum Nk {{ NK_ZERO = 0; NK_ONE = 1; NK_TWO = 2; }}
  Inner inner = 1;
  Nk nk = 2;
}}
enum Kind {{ {pid}_KIND_ZERO = 0; {pid}_KIND_ONE = 1; {pid}_KIND_TWO = 2; }}
"""
    )
    return "\n".join(lines)


def refs_proto(path, targets):
    lines = ['syntax = "proto3";']
    if path:
        lines.append(f"package {'.'.join(path)};")
    for t in targets:
        lines.append(f'import "{pkg_id(t)}_defs.proto";')
    for t in targets:
        tid = pkg_id(t).capitalize().replace("_", "")
        n = itertools.count(1)
        body = []
        for kind, (pname, _, _) in KINDS.items():
            body.append(f"  {fq(t, pname)} f_{kind} = {next(n)};")
        for kind, (pname, _, _) in KINDS.items():
            body.append(f"  repeated {fq(t, pname)} r_{kind} = {next(n)};")
        for kind, (pname, _, _) in KINDS.items():
            body.append(f"  map<string, {fq(t, pname)}> m_{kind} = {next(n)};")
        body.append("  oneof choice {")
        for kind, (pname, _, _) in KINDS.items():
            body.append(f"    {fq(t, pname)} o_{kind} = {next(n)};")
        body.append("  }")
        lines.append(f"message RefTo{tid} {{\n" + "\n".join(body) + "\n}")
        lines.append(
            f"service SvcTo{tid} {{\n"
            f"  rpc Call({fq(t, 'Msg')}) returns ({fq(t, 'Outer.Inner')});\n"
            f"  rpc Pump(stream {fq(t, 'Outer.Inner.Deep')}) returns (stream {fq(t, 'Msg')});\n"
            f"}}"
        )
    return "\n".join(lines)


def run_plugin(files, parameter=""):
    """protoc -> descriptors -> betterproto plugin; returns {relative path: content}"""
    src = tempfile.mkdtemp(prefix="c13src")
    try:
        for name, text in files.items():
            pathlib.Path(src, name).write_text(text)
        out = os.path.join(src, "ds.bin")
        inc = os.path.join(os.path.dirname(grpc_tools.__file__), "_proto")
        rc = _protoc.main(
            ["protoc", f"-I{src}", f"-I{inc}", f"--descriptor_set_out={out}",
             "--include_imports", *sorted(files)]
        )
        assert rc == 0, "protoc failed"
        fds = FileDescriptorSet().parse(pathlib.Path(out).read_bytes())
    finally:
        shutil.rmtree(src, ignore_errors=True)
    request = CodeGeneratorRequest(
        file_to_generate=sorted(files), parameter=parameter, proto_file=fds.file
    )
    cwd = os.getcwd()
    work = tempfile.mkdtemp(prefix="c13cwd")
    os.chdir(work)  # generate_code looks for existing __init__.py relative to the cwd
    try:
        with contextlib.redirect_stderr(io.StringIO()):
            response = generate_code(request)
    finally:
        os.chdir(cwd)
        shutil.rmtree(work, ignore_errors=True)
    names = [f.name for f in response.file]
    assert len(names) == len(set(names)), f"duplicate output files {names}"
    return {f.name: f.content for f in response.file}


def install(outputs):
    """write the plugin output below a fresh importable root package, return its name"""
    base = tempfile.mkdtemp(prefix="c13out")
    _TMP.append(base)
    root = f"c13gen{os.getpid()}_{next(_COUNTER)}"
    for name, content in outputs.items():
        p = pathlib.Path(base, root, name)
        p.parent.mkdir(parents=True, exist_ok=True)
        p.write_text(content)
    sys.path.insert(0, base)
    importlib.invalidate_caches()
    return root


def cleanup():
    for base in _TMP:
        shutil.rmtree(base, ignore_errors=True)


def module_of(root, path):
    return importlib.import_module(".".join([root, *path]))


def build(refs, parameter=""):
    """refs: {current package path: [target package paths]}.  Every package that occurs
    gets a *_defs.proto; every current package a *_refs.proto referring to its targets."""
    packages = set(refs)
    for targets in refs.values():
        packages.update(targets)
    files = {f"{pkg_id(p)}_defs.proto": defs_proto(p) for p in packages}
    for cur, targets in refs.items():
        files[f"{pkg_id(cur)}_refs.proto"] = refs_proto(cur, targets)
    outputs = run_plugin(files, parameter)
    root = install(outputs)
    # import every generated package (in a fixed but arbitrary order)
    for p in sorted(packages, key=lambda p: (len(p), p), reverse=True):
        module_of(root, p)
    return root, outputs


def check_reference(root, cur, tgt):
    """every reference from package `cur` to the types of package `tgt` denotes exactly
    the class generated for that type"""
    cur_mod = module_of(root, cur)
    tgt_mod = module_of(root, tgt)
    tid = pkg_id(tgt).capitalize().replace("_", "")
    where = f"{'.'.join(cur) or '<root>'} -> {'.'.join(tgt) or '<root>'}"
    ref_cls = getattr(cur_mod, f"RefTo{tid}")
    hints = typing.get_type_hints(ref_cls, vars(cur_mod), {})
    lib_hints = ref_cls._type_hints()
    for kind, (_, py_name, is_enum) in KINDS.items():
        want = getattr(tgt_mod, py_name)
        assert want.__module__ == tgt_mod.__name__, (where, kind, want)
        assert hints[f"f_{kind}"] is want, (where, kind, "field", hints[f"f_{kind}"])
        assert lib_hints[f"f_{kind}"] is want, (where, kind, "field")
        assert hints[f"o_{kind}"] is want, (where, kind, "oneof", hints[f"o_{kind}"])
        assert typing.get_origin(hints[f"r_{kind}"]) is list, (where, kind, "repeated")
        assert hints[f"r_{kind}"].__args__ == (want,), (where, kind, "repeated")
        assert hints[f"r_{kind}"].__args__[0] is want, (where, kind, "repeated")
        assert typing.get_origin(hints[f"m_{kind}"]) is dict, (where, kind, "map value")
        assert hints[f"m_{kind}"].__args__[0] is str, (where, kind, "map key")
        assert hints[f"m_{kind}"].__args__[1] is want, (where, kind, "map value")

    # instantiate and round-trip through the referencing fields
    T = tgt_mod
    msg = ref_cls(
        f_msg=T.Msg(v=7, tag="x"),
        f_nested_msg=T.OuterInner(v=3, deep=T.OuterInnerDeep(v=4)),
        f_deep_msg=T.OuterInnerDeep(v=5),
        f_enum=T.Kind(2),
        f_nested_enum=T.OuterNk.NK_ONE,
        r_msg=[T.Msg(v=1), T.Msg(v=2)],
        r_nested_msg=[T.OuterInner(v=9)],
        r_deep_msg=[T.OuterInnerDeep(v=8)],
        r_enum=[T.Kind(1), T.Kind(2)],
        r_nested_enum=[T.OuterNk.NK_TWO],
        m_msg={"k": T.Msg(v=11)},
        m_nested_msg={"k": T.OuterInner(v=12)},
        m_deep_msg={"k": T.OuterInnerDeep(v=13)},
        m_enum={"k": T.Kind(1)},
        m_nested_enum={"k": T.OuterNk.NK_TWO},
        o_nested_msg=T.OuterInner(v=21),
    )
    back = ref_cls().parse(bytes(msg))
    assert back == msg, where
    assert type(back.f_msg) is T.Msg and back.f_msg.v == 7, where
    assert type(back.f_nested_msg) is T.OuterInner, where
    assert type(back.f_nested_msg.deep) is T.OuterInnerDeep, where
    assert type(back.f_deep_msg) is T.OuterInnerDeep, where
    assert type(back.f_enum) is T.Kind and back.f_enum == 2, where
    assert type(back.f_nested_enum) is T.OuterNk, where
    assert [type(x) for x in back.r_msg] == [T.Msg, T.Msg], where
    assert type(back.r_nested_msg[0]) is T.OuterInner, where
    assert type(back.r_enum[0]) is T.Kind, where
    assert type(back.r_nested_enum[0]) is T.OuterNk, where
    assert type(back.m_msg["k"]) is T.Msg and back.m_msg["k"].v == 11, where
    assert type(back.m_nested_msg["k"]) is T.OuterInner, where
    assert type(back.m_deep_msg["k"]) is T.OuterInnerDeep, where
    assert type(back.m_enum["k"]) is T.Kind, where
    assert type(back.m_nested_enum["k"]) is T.OuterNk, where
    assert betterproto.which_one_of(back, "choice")[0] == "o_nested_msg", where
    assert type(back.o_nested_msg) is T.OuterInner and back.o_nested_msg.v == 21, where
    fresh = ref_cls()
    assert type(fresh.f_msg) is T.Msg and type(fresh.f_enum) is T.Kind, where
    assert ref_cls().from_dict(msg.to_dict()) == msg, where

    # rpc input / output types
    stub = getattr(cur_mod, f"SvcTo{tid}Stub")
    ns = vars(cur_mod)
    ann = dict(stub.call.__annotations__)
    assert eval(ann.pop("return"), ns) is T.OuterInner, (where, "rpc output")
    (param,) = [k for k in ann if k not in ("timeout", "deadline", "metadata")]
    assert eval(ann[param], ns) is T.Msg, (where, "rpc input")
    base = getattr(cur_mod, f"SvcTo{tid}Base")
    handlers = base().__mapping__()
    prefix = ".".join(cur) + "." if cur else ""
    call = handlers[f"/{prefix}SvcTo{tid}/Call"]
    pump = handlers[f"/{prefix}SvcTo{tid}/Pump"]
    assert call.request_type is T.Msg and call.reply_type is T.OuterInner, where
    assert pump.request_type is T.OuterInnerDeep and pump.reply_type is T.Msg, where
    b_ann = base.call.__annotations__
    assert eval(b_ann["return"], ns) is T.OuterInner, (where, "rpc output (server)")


# --------------------------------------------------------------------------------------
# part 1: the compiler model classes directly
# --------------------------------------------------------------------------------------
from betterproto.lib.google.protobuf import (
    DescriptorProto,
    FieldDescriptorProto,
    FieldDescriptorProtoLabel,
    FieldDescriptorProtoType,
    FileDescriptorProto,
    MethodDescriptorProto,
    ServiceDescriptorProto,
)
from betterproto.plugin import models
from betterproto.plugin.typing_compiler import (
    DirectImportTypingCompiler,
    NoTyping310TypingCompiler,
    TypingImportTypingCompiler,
)

PY_OF_PROTO_TYPE = {
    "TYPE_DOUBLE": "float", "TYPE_FLOAT": "float",
    "TYPE_INT64": "int", "TYPE_UINT64": "int", "TYPE_INT32": "int", "TYPE_FIXED64": "int",
    "TYPE_FIXED32": "int", "TYPE_UINT32": "int", "TYPE_SFIXED32": "int", "TYPE_SFIXED64": "int",
    "TYPE_SINT32": "int", "TYPE_SINT64": "int",
    "TYPE_BOOL": "bool", "TYPE_STRING": "str", "TYPE_BYTES": "bytes",
}


def make_output(package, pydantic=False, tc=None):
    request = models.PluginRequestCompiler(plugin_request_obj=CodeGeneratorRequest())
    file = FileDescriptorProto(name="f.proto", package=package)
    out = models.OutputTemplate(parent_request=request, package_proto_obj=file)
    out.pydantic_dataclasses = pydantic
    if tc is not None:
        out.typing_compiler = tc
    request.output_packages[package] = out
    return request, file, out


def check_models():
    n = 0
    for package in ["", "a", "a.b", "a.b.c"]:
        for pydantic in (False, True):
            for tc_cls in (DirectImportTypingCompiler, TypingImportTypingCompiler, NoTyping310TypingCompiler):
                tc = tc_cls()
                request, file, out = make_output(package, pydantic, tc)
                desc = DescriptorProto(name="M")
                message = models.MessageCompiler(
                    source_file=file, parent=out, proto_obj=desc, path=[4, 0], typing_compiler=tc
                )
                assert message.output_file is out and message.request is request
                # every scalar type, plus the types that have no python representation
                for member in FieldDescriptorProtoType:
                    if member.name in ("TYPE_MESSAGE", "TYPE_ENUM"):
                        continue
                    fd = FieldDescriptorProto(
                        name=f"f{member.value}", number=member.value + 1, type=member,
                        label=FieldDescriptorProtoLabel.LABEL_OPTIONAL,
                    )
                    if member.name in PY_OF_PROTO_TYPE:
                        fc = models.FieldCompiler(
                            source_file=file, parent=message, proto_obj=fd,
                            path=[4, 0, 2, 0], typing_compiler=tc,
                        )
                        assert fc.py_type == PY_OF_PROTO_TYPE[member.name], (member, fc.py_type)
                        assert fc.annotation == PY_OF_PROTO_TYPE[member.name]
                        assert fc.output_file is out and fc.request is request
                        assert fc.field_type == member.name[5:].lower()
                    else:  # TYPE_GROUP and the 0 member
                        try:
                            models.FieldCompiler(
                                source_file=file, parent=message, proto_obj=fd,
                                path=[4, 0, 2, 0], typing_compiler=tc,
                            )
                        except NotImplementedError as e:
                            assert str(e).startswith("Unknown type"), e
                            assert str(member) in str(e) or str(int(member)) in str(e), e
                            message.fields.pop()  # it registered itself before failing
                        else:
                            raise AssertionError(f"{member} accepted")
                    n += 1
                assert out.imports_end == set(), out.imports_end

                # message and enum typed fields: reference + recorded import
                google = "betterproto_lib_pydantic_google_protobuf" if pydantic else "betterproto_lib_google_protobuf"
                google_import = (
                    "import betterproto.lib.pydantic.google.protobuf as " + google
                    if pydantic else "import betterproto.lib.google.protobuf as " + google
                )
                optional_int = tc_cls().optional("int")
                cases = [
                    (".x.y.Msg", FieldDescriptorProtoType.TYPE_MESSAGE),
                    (".x.y.Kind", FieldDescriptorProtoType.TYPE_ENUM),
                    (".a.Outer.Inner", FieldDescriptorProtoType.TYPE_MESSAGE),
                    (".Outer.Nk", FieldDescriptorProtoType.TYPE_ENUM),
                    (".a.b.c.d.Msg", FieldDescriptorProtoType.TYPE_MESSAGE),
                ]
                tcx = DirectImportTypingCompiler()
                for type_name, proto_type in cases:
                    want_imports = set()
                    want = importing_get(package, want_imports, type_name, tcx, True, pydantic)
                    before = set(out.imports_end)
                    fd = FieldDescriptorProto(name="ref", number=1, type=proto_type, type_name=type_name)
                    fc = models.FieldCompiler(
                        source_file=file, parent=message, proto_obj=fd, path=[4, 0, 2, 0], typing_compiler=tc
                    )
                    assert fc.py_type == want == fc.py_type, (package, type_name, fc.py_type, want)
                    assert fc.annotation == want
                    assert out.imports_end == before | want_imports
                    n += 1
                for type_name, want, want_import in [
                    (".google.protobuf.Int32Value", optional_int, None),
                    (".google.protobuf.Timestamp", "datetime", None),
                    (".google.protobuf.Duration", "timedelta", None),
                    (".google.protobuf.Struct", f'"{google}.Struct"', google_import),
                    (".google.protobuf.EnumValue", f'"{google}.EnumValue"', google_import),
                ]:
                    fd = FieldDescriptorProto(
                        name="wkt", number=1, type=FieldDescriptorProtoType.TYPE_MESSAGE, type_name=type_name
                    )
                    fc = models.FieldCompiler(
                        source_file=file, parent=message, proto_obj=fd, path=[4, 0, 2, 0], typing_compiler=tc
                    )
                    assert fc.py_type == want, (type_name, fc.py_type, want)
                    if want_import:
                        assert want_import in out.imports_end
                    n += 1

                # rpc types: never unwrapped, unquoted, import recorded in the same set
                request2, file2, out2 = make_output(package, pydantic, tc)
                service = models.ServiceCompiler(
                    source_file=file2, parent=out2, proto_obj=ServiceDescriptorProto(name="S"), path=[6, 0]
                )
                assert service.output_file is out2 and service.request is request2
                for in_type, out_type in [
                    (".x.y.Msg", ".a.Outer.Inner"),
                    (".google.protobuf.Int32Value", ".google.protobuf.Timestamp"),
                    (".google.protobuf.Empty", ".google.protobuf.Duration"),
                    (".Msg", ".a.b.c.d.Outer.Inner.Deep"),
                ]:
                    method = models.ServiceMethodCompiler(
                        source_file=file2, parent=service,
                        proto_obj=MethodDescriptorProto(name="Call", input_type=in_type, output_type=out_type),
                        path=[6, 0, 2, 0],
                    )
                    assert method.output_file is out2 and method.request is request2
                    for got, type_name in [
                        (method.py_input_message_type, in_type), (method.py_output_message_type, out_type),
                    ]:
                        want_imports = set()
                        want = importing_get(package, want_imports, type_name, tcx, False, pydantic)
                        assert got == want.strip('"') and '"' not in got, (got, want)
                        assert want_imports <= out2.imports_end
                        n += 1
                    assert method.py_input_message_type == method.py_input_message_type
    return n


def importing_get(package, imports, source_type, tc, unwrap, pydantic):
    from betterproto.compile.importing import get_type_reference

    return get_type_reference(
        package=package, imports=imports, source_type=source_type, typing_compiler=tc,
        unwrap=unwrap, pydantic=pydantic,
    )


# --------------------------------------------------------------------------------------
# part 2: the text the plugin writes for one message that uses every kind of field type
# --------------------------------------------------------------------------------------
SCALARS = [
    ("double", "float"), ("float", "float"), ("int64", "int"), ("uint64", "int"), ("int32", "int"),
    ("fixed64", "int"), ("fixed32", "int"), ("bool", "bool"), ("string", "str"), ("bytes", "bytes"),
    ("uint32", "int"), ("sfixed32", "int"), ("sfixed64", "int"), ("sint32", "int"), ("sint64", "int"),
]
WRAPPERS = [
    ("Double", "float"), ("Float", "float"), ("Int32", "int"), ("Int64", "int"), ("UInt32", "int"),
    ("UInt64", "int"), ("Bool", "bool"), ("String", "str"), ("Bytes", "bytes"),
]


def all_proto():
    lines = [
        'syntax = "proto3";', "package a.b;",
        'import "google/protobuf/wrappers.proto";', 'import "google/protobuf/timestamp.proto";',
        'import "google/protobuf/duration.proto";', 'import "google/protobuf/empty.proto";',
        'import "google/protobuf/struct.proto";',
        'import "x_y_defs.proto";', 'import "a_defs.proto";', 'import "root_defs.proto";',
        'import "a_b_c_defs.proto";',
        "message All {",
    ]
    n = itertools.count(1)
    for t, _ in SCALARS:
        lines.append(f"  {t} s_{t} = {next(n)};")
        lines.append(f"  repeated {t} r_{t} = {next(n)};")
        lines.append(f"  optional {t} o_{t} = {next(n)};")
    for w, _ in WRAPPERS:
        lines.append(f"  google.protobuf.{w}Value w_{w.lower()} = {next(n)};")
        lines.append(f"  map<string, google.protobuf.{w}Value> mw_{w.lower()} = {next(n)};")
    lines += [
        f"  google.protobuf.Timestamp ts = {next(n)};", f"  google.protobuf.Duration du = {next(n)};",
        f"  repeated google.protobuf.Timestamp rts = {next(n)};",
        f"  map<string, google.protobuf.Duration> mdu = {next(n)};",
        f"  google.protobuf.Struct st = {next(n)};", f"  map<int32, google.protobuf.Value> mv = {next(n)};",
        f"  map<string, int64> msi = {next(n)};", f"  map<bool, bytes> mbb = {next(n)};",
        f"  .x.y.Msg xy = {next(n)};", f"  map<string, .x.y.Kind> mxy = {next(n)};",
        f"  optional .a.Outer.Inner oa = {next(n)};", f"  repeated .Outer.Nk rr = {next(n)};",
        f"  .a.b.c.Outer.Inner.Deep deep = {next(n)};", f"  All self_ref = {next(n)};",
        f"  oneof pick {{ .x.y.Outer.Nk p1 = {next(n)}; .Msg p2 = {next(n)}; "
        f"google.protobuf.Int32Value p3 = {next(n)}; string p4 = {next(n)}; }}",
        "}",
        "service Everything {",
        "  rpc Wrapped(google.protobuf.Int32Value) returns (google.protobuf.Timestamp);",
        "  rpc Nothing(google.protobuf.Empty) returns (google.protobuf.Duration);",
        "  rpc Local(All) returns (stream All);",
        "  rpc Far(stream .x.y.Outer.Inner) returns (.a.Msg);",
        "  rpc Rooty(stream .Outer.Inner.Deep) returns (stream .a.b.c.Msg);",
        "}",
    ]
    return "\n".join(lines)


def unq(t):
    return t[1:-1] if t.startswith('"') else t


STYLES = {
    "": (lambda t: f"Optional[{t}]", lambda t: f"List[{t}]", lambda k, v: f"Dict[{k}, {v}]"),
    "typing.root": (
        lambda t: f"typing.Optional[{t}]", lambda t: f"typing.List[{t}]",
        lambda k, v: f"typing.Dict[{k}, {v}]",
    ),
    "typing.310": (
        lambda t: f'"{unq(t)} | None"', lambda t: f'"list[{unq(t)}]"', lambda k, v: f'"dict[{k}, {unq(v)}]"',
    ),
}


def expected_field_lines(parameter):
    pydantic = parameter == "pydantic_dataclasses"
    opt, lst, dct = STYLES["" if pydantic else parameter]
    G = "betterproto_lib_pydantic_google_protobuf" if pydantic else "betterproto_lib_google_protobuf"
    n = itertools.count(1)
    out = []

    def add(name, ann, kind, *args):
        number = next(n)
        out.append(f"    {name}: {ann} = betterproto.{kind}_field({', '.join([str(number), *args])})")

    for t, py in SCALARS:
        add(f"s_{t}", py, t)
        add(f"r_{t}", lst(py), t)
        add(f"o_{t}", opt(py), t, "optional=True")
    S, M = "betterproto.TYPE_STRING", "betterproto.TYPE_MESSAGE"
    for w, py in WRAPPERS:
        add(f"w_{w.lower()}", opt(py), "message", f"wraps=betterproto.TYPE_{w.upper()}")
        add(f"mw_{w.lower()}", dct("str", f'"{G}.{w}Value"'), "map", S, M)
    add("ts", "datetime", "message")
    add("du", "timedelta", "message")
    add("rts", lst("datetime"), "message")
    add("mdu", dct("str", "timedelta"), "map", S, M)
    add("st", f'"{G}.Struct"', "message")
    add("mv", dct("int", f'"{G}.Value"'), "map", "betterproto.TYPE_INT32", M)
    add("msi", dct("str", "int"), "map", S, "betterproto.TYPE_INT64")
    add("mbb", dct("bool", "bytes"), "map", "betterproto.TYPE_BOOL", "betterproto.TYPE_BYTES")
    add("xy", '"__x_y__.Msg"', "message")
    add("mxy", dct("str", '"__x_y__.Kind"'), "map", S, "betterproto.TYPE_ENUM")
    add("oa", opt('"__a__.OuterInner"'), "message", "optional=True")
    add("rr", lst('"__OuterNk__"'), "enum")
    add("deep", '"c.OuterInnerDeep"', "message")
    add("self_ref", '"All"', "message")
    one = (lambda t: opt(t)) if pydantic else (lambda t: t)
    extra = ["optional=True"] if pydantic else []
    add("p1", one('"__x_y__.OuterNk"'), "enum", *extra, 'group="pick"')
    add("p2", one('"__Msg__"'), "message", *extra, 'group="pick"')
    add("p3", one(opt("int")), "message", "wraps=betterproto.TYPE_INT32", *extra, 'group="pick"')
    add("p4", one("str"), "string", *extra, 'group="pick"')
    return out, G


def check_plugin_text():
    files = {f"{pkg_id(p)}_defs.proto": defs_proto(p) for p in [(), ("a",), ("x", "y"), ("a", "b", "c")]}
    files["all.proto"] = all_proto()
    checked = 0
    for parameter in ["", "typing.root", "typing.310", "pydantic_dataclasses"]:
        outputs = run_plugin(files, parameter)
        assert sorted(outputs) == [
            "__init__.py", "a/__init__.py", "a/b/__init__.py", "a/b/c/__init__.py",
            "x/__init__.py", "x/y/__init__.py",
        ], sorted(outputs)
        assert outputs["x/__init__.py"] == ""
        text = outputs["a/b/__init__.py"]
        lines = text.splitlines()
        want_fields, G = expected_field_lines(parameter)
        got_fields = [l for l in lines if "_field(" in l and "betterproto." in l]
        assert got_fields == want_fields, [
            (g, w) for g, w in zip(got_fields, want_fields) if g != w
        ][:3]
        checked += len(got_fields)
        got_imports = {l for l in lines if l.startswith("from .") or l.startswith("import betterproto.")}
        google_module = "betterproto.lib.pydantic.google.protobuf" if "pydantic" in parameter else "betterproto.lib.google.protobuf"
        assert got_imports == {
            f"import {google_module} as {G}",
            "from ... import OuterInnerDeep as __OuterInnerDeep__",
            "from ...x import y as __x_y__",
            "from ... import OuterNk as __OuterNk__",
            "from . import c",
            "from ... import a as __a__",
            "from ... import Msg as __Msg__",
        }, got_imports
        # the imports come after the last stub and before the first service base class
        first_import = min(i for i, l in enumerate(lines) if l in got_imports)
        last_import = max(i for i, l in enumerate(lines) if l in got_imports)
        assert max(i for i, l in enumerate(lines) if l.startswith("class ") and "Stub" in l) < first_import
        assert last_import < min(i for i, l in enumerate(lines) if l.startswith("class ") and "Base(" in l)
        # rpc signatures (client stub, server base, handler table)
        AI = "typing.AsyncIterator" if parameter == "typing.root" else "AsyncIterator"
        for needle in [
            f'async def wrapped(self, {G}_int32_value: "{G}.Int32Value",',
            f') -> "{G}.Timestamp":',
            f'async def nothing(self, {G}_empty: "{G}.Empty",',
            f') -> "{G}.Duration":',
            'async def local(self, all: "All",',
            f') -> "{AI}[All]":',
            ') -> "__a__.Msg":',
            f') -> "{AI}[c.Msg]":',
            f'"grpclib.server.Stream[{G}.Int32Value, {G}.Timestamp]"',
            f'"grpclib.server.Stream[{G}.Empty, {G}.Duration]"',
            '"grpclib.server.Stream[All, All]"',
            '"grpclib.server.Stream[__x_y__.OuterInner, __a__.Msg]"',
            '"grpclib.server.Stream[__OuterInnerDeep__, c.Msg]"',
            f"            {G}.Int32Value,\n            {G}.Timestamp,\n",
            "            __x_y__.OuterInner,\n            __a__.Msg,\n",
            "            __OuterInnerDeep__,\n            c.Msg,\n",
            '"/a.b.Everything/Wrapped"', '"/a.b.Everything/Rooty"',
            "x_y_outer_inner_iterator", "outer_inner_deep_iterator",
        ]:
            assert needle in text, (parameter, needle)
            checked += 1

        if "pydantic" in parameter:
            import betterproto.lib.pydantic.google.protobuf as bundled
        else:
            import betterproto.lib.google.protobuf as bundled
        root = install(outputs)
        ab, xy, a, top, abc = (module_of(root, p) for p in [("a", "b"), ("x", "y"), ("a",), (), ("a", "b", "c")])
        hints = ab.All._type_hints()
        assert hints["xy"] is xy.Msg and hints["mxy"].__args__[1] is xy.Kind
        assert hints["rr"].__args__[0] is top.OuterNk and hints["deep"] is abc.OuterInnerDeep
        assert hints["oa"].__args__[0] is a.OuterInner and hints["self_ref"] is ab.All
        assert hints["p2"] in (top.Msg, typing.Optional[top.Msg])
        assert hints["st"] is bundled.Struct and hints["mv"].__args__[1] is bundled.Value
        assert hints["mw_int32"].__args__[1] is bundled.Int32Value
        assert hints["mw_bytes"].__args__[1] is bundled.BytesValue
        handlers = ab.EverythingBase().__mapping__()
        h = handlers["/a.b.Everything/Wrapped"]
        assert h.request_type is bundled.Int32Value and h.reply_type is bundled.Timestamp
        h = handlers["/a.b.Everything/Nothing"]
        assert h.request_type is bundled.Empty and h.reply_type is bundled.Duration
        h = handlers["/a.b.Everything/Far"]
        assert h.request_type is xy.OuterInner and h.reply_type is a.Msg
        h = handlers["/a.b.Everything/Rooty"]
        assert h.request_type is top.OuterInnerDeep and h.reply_type is abc.Msg
        if "pydantic" not in parameter:
            from datetime import datetime, timedelta, timezone

            msg = ab.All(
                s_int32=-5, r_sint64=[-1, 2], o_string="", w_int32=0, w_string="w",
                mw_int32={"k": bundled.Int32Value(value=4)}, mw_bool={"t": bundled.BoolValue(value=True)},
                ts=datetime(2020, 1, 2, tzinfo=timezone.utc), du=timedelta(seconds=3),
                mdu={"d": timedelta(seconds=1)}, msi={"a": 1}, mbb={True: b"x"},
                xy=xy.Msg(v=1), mxy={"e": xy.Kind(2)}, oa=a.OuterInner(v=2),
                rr=[top.OuterNk.NK_TWO], deep=abc.OuterInnerDeep(v=3), self_ref=ab.All(s_bool=True),
                p2=top.Msg(v=9),
            )
            back = ab.All().parse(bytes(msg))
            assert back == msg
            assert type(back.mw_int32["k"]) is bundled.Int32Value and type(back.mxy["e"]) is xy.Kind
            assert type(back.p2) is top.Msg and type(back.rr[0]) is top.OuterNk
            assert ab.All().from_dict(msg.to_dict()) == msg
    return checked


def main():
    n = check_models()
    try:
        m = check_plugin_text()
        R, A, AB, ABC, AC, B, BA = (), ("a",), ("a", "b"), ("a", "b", "c"), ("a", "c"), ("b",), ("b", "a")
        for parameter in ["", "typing.root", "typing.310"]:
            for cur, tgt in [(A, A), (A, AB), (ABC, A), (AB, AC), (ABC, BA), (R, AB), (AB, R), (R, R)]:
                root, _ = build({cur: [tgt]}, parameter)
                check_reference(root, cur, tgt)
        everything = [R, A, AB, ABC, AC, B, BA]
        root, _ = build({cur: everything for cur in everything})
        for cur in everything:
            for tgt in everything:
                check_reference(root, cur, tgt)
    finally:
        cleanup()
    print(f"C13 keep2 equiv: {n} model checks, {m} generated lines + generated packages OK")


if __name__ == "__main__":
    main()
