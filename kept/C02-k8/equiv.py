"""C02 keep2: the record reader (load_fields), the wire-type acceptance test
(_wire_type_matches) and, through Message.parse, decoding of every legal alternative
encoding of a reference serialization, with google.protobuf as the oracle."""
import io
import itertools
import random
import struct
from dataclasses import dataclass
from typing import Dict, List, Optional

import betterproto
from betterproto import ParsedField, _wire_type_matches, load_fields, parse_fields
from google.protobuf import descriptor_pb2, descriptor_pool, message_factory

rng = random.Random(7002)


# ------------------------------------------------------------------ spec-level helpers
def varint(n, pad=0):
    """minimal varint of n >= 0, optionally followed by `pad` redundant groups"""
    out = bytearray()
    while True:
        g = n & 0x7F
        n >>= 7
        if n or pad:
            out.append(g | 0x80)
            if not n:
                out.extend([0x80] * (pad - 1) + [0x00])
                return bytes(out)
        else:
            out.append(g)
            return bytes(out)


def read_varint(buf, pos):
    shift = value = 0
    while True:
        b = buf[pos]
        pos += 1
        value |= (b & 0x7F) << shift
        shift += 7
        if not b & 0x80:
            return value, pos


def spec_records(buf):
    """[(number, wire_type, value, raw)] of a well-formed buffer"""
    pos, out = 0, []
    while pos < len(buf):
        start = pos
        key, pos = read_varint(buf, pos)
        number, wt = key // 8, key % 8
        if wt == 0:
            value, pos = read_varint(buf, pos)
        elif wt == 1:
            value, pos = buf[pos:pos + 8], pos + 8
        elif wt == 5:
            value, pos = buf[pos:pos + 4], pos + 4
        elif wt == 2:
            n, pos = read_varint(buf, pos)
            value, pos = buf[pos:pos + n], pos + n
        else:
            raise AssertionError(wt)
        assert pos <= len(buf)
        out.append((number, wt, value, buf[start:pos]))
    return out


def as_tuples(fields):
    return [(f.number, f.wire_type, f.value, f.raw) for f in fields]


def rand_pad():
    return rng.choice([0, 0, 0, 1, 2, 5])


def rand_record():
    number = rng.choice([1, 2, 15, 16, 127, 128, 2047, 2048, 2**21, 2**29 - 1,
                         rng.randrange(1, 2**29)])
    wt = rng.choice([0, 1, 2, 5])
    pad = rand_pad()
    # a padded key must stay within ten bytes
    key = varint(number << 3 | wt, pad)
    if wt == 0:
        v = rng.choice([0, 1, 127, 128, 2**32 - 1, 2**63, 2**64 - 1, rng.getrandbits(64)])
        vb = varint(v)
        body = varint(v, rng.choice([0, 0, 1, 10 - len(vb)]) if len(vb) < 10 else 0)
    elif wt == 1:
        body = bytes(rng.getrandbits(8) for _ in range(8))
    elif wt == 5:
        body = bytes(rng.getrandbits(8) for _ in range(4))
    else:
        n = rng.choice([0, 1, 2, 127, 128, 300, 20000])
        body = varint(n, rand_pad()) + bytes(rng.getrandbits(8) for _ in range(n))
    return key + body


# ------------------------------------------------------------------ 1. load_fields
total = 0
for _ in range(3000):
    buf = b"".join(rand_record() for _ in range(rng.randrange(0, 8)))
    want = spec_records(buf)
    got = list(load_fields(io.BytesIO(buf)))
    assert all(type(f) is ParsedField for f in got)
    assert as_tuples(got) == want
    assert b"".join(f.raw for f in got) == buf
    for f in got:
        assert type(f.raw) is bytes and type(f.number) is int and type(f.wire_type) is int
        assert type(f.value) is (int if f.wire_type == 0 else bytes)
    assert as_tuples(parse_fields(buf)) == want          # buffer reader agrees
    total += len(want)

    # reading resumes where a previous reader stopped (the stream position is shared)
    if len(want) >= 2:
        s = io.BytesIO(buf)
        g = load_fields(s)
        first = next(g)
        assert s.tell() == len(first.raw)
        assert as_tuples(load_fields(s)) == want[1:]

    # every proper prefix either ends on a record boundary (clean end) or is an EOFError
    if buf and len(buf) < 700:
        bounds = set(itertools.accumulate(len(r[3]) for r in want))
        for cut in range(len(buf)):
            pre = buf[:cut]
            try:
                res = as_tuples(load_fields(io.BytesIO(pre)))
            except EOFError:
                assert cut not in bounds and cut != 0
            else:
                assert cut in bounds or cut == 0
                assert res == want[:len(res)] and b"".join(r[3] for r in res) == pre

assert list(load_fields(io.BytesIO(b""))) == []

# malformed input
for wt in (3, 4, 6, 7):
    for number in (1, 5, 1000):
        data = varint(1 << 3 | 0) + b"\x07" + varint(number << 3 | wt) + b"\x00\x00"
        g = load_fields(io.BytesIO(data))
        assert as_tuples([next(g)]) == [(1, 0, 7, b"\x08\x07")]
        try:
            next(g)
        except ValueError as e:
            assert str(e) == f"Unsupported wire type {wt} in field {number}."
        else:
            raise AssertionError("accepted wire type %d" % wt)
for wt in range(8):
    for key in (bytes([wt]), bytes([0x80 | wt, 0x00])):
        try:
            list(load_fields(io.BytesIO(key + b"\x00" * 12)))
        except ValueError as e:
            assert str(e) == "Invalid field number 0."
        else:
            raise AssertionError("accepted field number 0")
try:  # key varint longer than ten bytes
    list(load_fields(io.BytesIO(b"\x88" + b"\x80" * 10 + b"\x00\x01")))
except ValueError as e:
    assert "Too many bytes" in str(e)
else:
    raise AssertionError
for data in (b"\x0a\x05abc", b"\x0d\x01\x02\x03", b"\x09" + b"\x01" * 7, b"\x08\x80", b"\x88"):
    try:
        list(load_fields(io.BytesIO(data)))
    except EOFError:
        pass
    else:
        raise AssertionError(data)

# ------------------------------------------------------------------ 2. _wire_type_matches
VARINT_T = {"enum", "bool", "int32", "int64", "uint32", "uint64", "sint32", "sint64"}
F32_T = {"float", "fixed32", "sfixed32"}
F64_T = {"double", "fixed64", "sfixed64"}
LEN_T = {"string", "bytes", "message", "map"}
ALL_T = VARINT_T | F32_T | F64_T | LEN_T
for wt in range(-1, 9):
    for pt in sorted(ALL_T) + ["group", "", "Int32"]:
        for rep in (False, True):
            want = (
                (wt == 0 and pt in VARINT_T)
                or (wt == 5 and pt in F32_T)
                or (wt == 1 and pt in F64_T)
                or (wt == 2 and (pt in LEN_T or (rep and pt in VARINT_T | F32_T | F64_T)))
            )
            got = _wire_type_matches(wt, pt, rep)
            assert got is want, (wt, pt, rep, got)


# ------------------------------------------------------------------ 3. whole messages
class Kind(betterproto.Enum):
    K0 = 0
    K1 = 1
    KNEG = -3
    KBIG = 2**31 - 1


@dataclass(eq=False, repr=False)
class Sub(betterproto.Message):
    n: int = betterproto.sint32_field(1)
    t: str = betterproto.string_field(2)


@dataclass(eq=False, repr=False)
class All(betterproto.Message):
    i32: int = betterproto.int32_field(1)
    i64: int = betterproto.int64_field(2)
    u32: int = betterproto.uint32_field(3)
    u64: int = betterproto.uint64_field(4)
    s32: int = betterproto.sint32_field(5)
    s64: int = betterproto.sint64_field(6)
    b: bool = betterproto.bool_field(7)
    e: Kind = betterproto.enum_field(8)
    f: float = betterproto.float_field(9)
    d: float = betterproto.double_field(10)
    x32: int = betterproto.fixed32_field(11)
    x64: int = betterproto.fixed64_field(12)
    sx32: int = betterproto.sfixed32_field(13)
    sx64: int = betterproto.sfixed64_field(14)
    s: str = betterproto.string_field(15)
    by: bytes = betterproto.bytes_field(16)
    sub: Sub = betterproto.message_field(17)
    r_i32: List[int] = betterproto.int32_field(21)
    r_s64: List[int] = betterproto.sint64_field(22)
    r_b: List[bool] = betterproto.bool_field(23)
    r_e: List[Kind] = betterproto.enum_field(24)
    r_f: List[float] = betterproto.float_field(25)
    r_d: List[float] = betterproto.double_field(26)
    r_x32: List[int] = betterproto.fixed32_field(27)
    r_sx64: List[int] = betterproto.sfixed64_field(28)
    r_s: List[str] = betterproto.string_field(29)
    r_by: List[bytes] = betterproto.bytes_field(30)
    r_sub: List[Sub] = betterproto.message_field(31)
    m_si: Dict[str, int] = betterproto.map_field(32, betterproto.TYPE_STRING, betterproto.TYPE_INT32)
    m_im: Dict[int, Sub] = betterproto.map_field(33, betterproto.TYPE_INT64, betterproto.TYPE_MESSAGE)
    o_i: int = betterproto.int32_field(41, group="choice")
    o_s: str = betterproto.string_field(42, group="choice")
    o_d: float = betterproto.double_field(43, group="choice")
    o_e: Kind = betterproto.enum_field(44, group="choice")
    p_i: Optional[int] = betterproto.uint32_field(51, optional=True)
    p_s: Optional[str] = betterproto.string_field(52, optional=True)


F = descriptor_pb2.FieldDescriptorProto
O, R = F.LABEL_OPTIONAL, F.LABEL_REPEATED
fdp = descriptor_pb2.FileDescriptorProto(name="c02_keep2.proto", package="c02keep2", syntax="proto3")
en = fdp.enum_type.add(name="Kind")
for k in Kind:
    en.value.add(name=k.name, number=int(k))
sub = fdp.message_type.add(name="Sub")
sub.field.add(name="n", number=1, type=F.TYPE_SINT32, label=O)
sub.field.add(name="t", number=2, type=F.TYPE_STRING, label=O)
msg = fdp.message_type.add(name="All")
msg.oneof_decl.add(name="choice")
msg.oneof_decl.add(name="_p_i")
msg.oneof_decl.add(name="_p_s")
SCALAR_TYPES = {
    "i32": F.TYPE_INT32, "i64": F.TYPE_INT64, "u32": F.TYPE_UINT32, "u64": F.TYPE_UINT64,
    "s32": F.TYPE_SINT32, "s64": F.TYPE_SINT64, "b": F.TYPE_BOOL, "e": F.TYPE_ENUM,
    "f": F.TYPE_FLOAT, "d": F.TYPE_DOUBLE, "x32": F.TYPE_FIXED32, "x64": F.TYPE_FIXED64,
    "sx32": F.TYPE_SFIXED32, "sx64": F.TYPE_SFIXED64, "s": F.TYPE_STRING, "by": F.TYPE_BYTES,
}
spec = [(n, i + 1, t, O, None) for i, (n, t) in enumerate(SCALAR_TYPES.items())]
spec += [
    ("sub", 17, F.TYPE_MESSAGE, O, ".c02keep2.Sub"),
    ("r_i32", 21, F.TYPE_INT32, R, None), ("r_s64", 22, F.TYPE_SINT64, R, None),
    ("r_b", 23, F.TYPE_BOOL, R, None), ("r_e", 24, F.TYPE_ENUM, R, None),
    ("r_f", 25, F.TYPE_FLOAT, R, None), ("r_d", 26, F.TYPE_DOUBLE, R, None),
    ("r_x32", 27, F.TYPE_FIXED32, R, None), ("r_sx64", 28, F.TYPE_SFIXED64, R, None),
    ("r_s", 29, F.TYPE_STRING, R, None), ("r_by", 30, F.TYPE_BYTES, R, None),
    ("r_sub", 31, F.TYPE_MESSAGE, R, ".c02keep2.Sub"),
    ("m_si", 32, F.TYPE_MESSAGE, R, ".c02keep2.All.MSiEntry"),
    ("m_im", 33, F.TYPE_MESSAGE, R, ".c02keep2.All.MImEntry"),
    ("o_i", 41, F.TYPE_INT32, O, None), ("o_s", 42, F.TYPE_STRING, O, None),
    ("o_d", 43, F.TYPE_DOUBLE, O, None), ("o_e", 44, F.TYPE_ENUM, O, None),
    ("p_i", 51, F.TYPE_UINT32, O, None), ("p_s", 52, F.TYPE_STRING, O, None),
]
for name, num, typ, lab, tn in spec:
    f = msg.field.add(name=name, number=num, type=typ, label=lab)
    if typ == F.TYPE_ENUM:
        f.type_name = ".c02keep2.Kind"
    elif tn:
        f.type_name = tn
    if name.startswith("o_"):
        f.oneof_index = 0
    if name == "p_i":
        f.oneof_index, f.proto3_optional = 1, True
    if name == "p_s":
        f.oneof_index, f.proto3_optional = 2, True
e1 = msg.nested_type.add(name="MSiEntry")
e1.options.map_entry = True
e1.field.add(name="key", number=1, type=F.TYPE_STRING, label=O)
e1.field.add(name="value", number=2, type=F.TYPE_INT32, label=O)
e2 = msg.nested_type.add(name="MImEntry")
e2.options.map_entry = True
e2.field.add(name="key", number=1, type=F.TYPE_INT64, label=O)
e2.field.add(name="value", number=2, type=F.TYPE_MESSAGE, label=O, type_name=".c02keep2.Sub")
pool = descriptor_pool.Default()
pool.Add(fdp)
RefAll = message_factory.GetMessageClass(pool.FindMessageTypeByName("c02keep2.All"))
REF_FIELDS = {f.number: f for f in RefAll.DESCRIPTOR.fields}

I32 = [0, 1, -1, 127, 128, 2**31 - 1, -(2**31), 12345, -12345]
I64 = I32 + [2**63 - 1, -(2**63), 2**40, -(2**40)]
U32 = [0, 1, 128, 2**32 - 1, 2**31]
U64 = U32 + [2**64 - 1, 2**63, 2**50]
FLT = [0.0, -0.0, 1.5, -2.25, float("inf"), float("-inf"), 3.0e38, 1e-40]
DBL = FLT + [1e308, 5e-324, 0.1, -1e-7]
STR = ["", "a", "héllo", "漢字", "x" * 200]
BYT = [b"", b"\x00", b"\xff\xfe", bytes(range(256))]
KINDS = list(Kind)
GEN = {
    "i32": I32, "i64": I64, "u32": U32, "u64": U64, "s32": I32, "s64": I64, "b": [True, False],
    # (-0.0 only in repeated / oneof fields: as a plain singular field this tree does not
    # write it at all, which is not what this script is about)
    "e": [int(k) for k in KINDS], "f": [x for x in FLT if str(x) != "-0.0"],
    "d": [x for x in DBL if str(x) != "-0.0"], "x32": U32, "x64": U64, "sx32": I32,
    "sx64": I64, "s": STR, "by": BYT,
    "r_i32": I32, "r_s64": I64, "r_b": [True, False], "r_e": [int(k) for k in KINDS],
    "r_f": FLT, "r_d": DBL, "r_x32": U32, "r_sx64": I64, "r_s": STR, "r_by": BYT,
}


def rand_ref():
    r = RefAll()
    for name, src in GEN.items():
        if rng.random() < 0.55:
            if name.startswith("r_"):
                getattr(r, name).extend(rng.choice(src) for _ in range(rng.choice([1, 2, 3, 9])))
            else:
                setattr(r, name, rng.choice(src))
    if rng.random() < 0.5:
        r.sub.n = rng.choice(I32)
        r.sub.t = rng.choice(STR)
        r.sub.SetInParent()
    for _ in range(rng.choice([0, 0, 1, 3])):
        r.r_sub.add(n=rng.choice(I32), t=rng.choice(STR))
    for _ in range(rng.choice([0, 0, 1, 3])):
        r.m_si[rng.choice(STR)] = rng.choice(I32)
    for _ in range(rng.choice([0, 0, 1, 3])):
        r.m_im[rng.choice(I64)].n = rng.choice(I32)
    c = rng.choice([None, "o_i", "o_s", "o_d", "o_e"])
    if c:
        setattr(r, c, rng.choice({"o_i": I32, "o_s": STR, "o_d": DBL, "o_e": [int(k) for k in KINDS]}[c]))
    if rng.random() < 0.5:
        r.p_i = rng.choice(U32)
    if rng.random() < 0.5:
        r.p_s = rng.choice(STR)
    return r


def feq(a, b):
    return struct.pack("<d", a) == struct.pack("<d", b)


def compare(bp, ref, ctx):
    for name in SCALAR_TYPES:
        a, b = getattr(bp, name), getattr(ref, name)
        if name in ("f", "d"):
            assert feq(a, b), (ctx, name, a, b)
        else:
            assert a == b and (name != "b" or type(a) is bool), (ctx, name, a, b)
    assert (bp.sub.n, bp.sub.t) == (ref.sub.n, ref.sub.t), ctx
    assert betterproto.serialized_on_wire(bp.sub) == ref.HasField("sub"), ctx
    for name in GEN:
        if name.startswith("r_"):
            a, b = list(getattr(bp, name)), list(getattr(ref, name))
            if name in ("r_f", "r_d"):
                assert len(a) == len(b) and all(map(feq, a, b)), (ctx, name, a, b)
            else:
                assert [int(x) if name == "r_e" else x for x in a] == b, (ctx, name, a, b)
    assert [(x.n, x.t) for x in bp.r_sub] == [(x.n, x.t) for x in ref.r_sub], ctx
    assert dict(bp.m_si) == dict(ref.m_si), ctx
    assert {k: (v.n, v.t) for k, v in bp.m_im.items()} == {k: (v.n, v.t) for k, v in ref.m_im.items()}, ctx
    which, val = betterproto.which_one_of(bp, "choice")
    assert which == (ref.WhichOneof("choice") or ""), (ctx, which, ref.WhichOneof("choice"))
    if which:
        b = getattr(ref, which)
        assert feq(val, b) if which == "o_d" else val == b, (ctx, which, val, b)
    assert (bp.p_i is not None) == ref.HasField("p_i") and (bp.p_i or 0) == ref.p_i, ctx
    assert (bp.p_s is not None) == ref.HasField("p_s") and (bp.p_s or "") == ref.p_s, ctx


PACKABLE = {n for n, f in REF_FIELDS.items() if f.is_repeated and f.type not in
            (f.TYPE_STRING, f.TYPE_BYTES, f.TYPE_MESSAGE)}
WT_OF = {F.TYPE_FLOAT: 5, F.TYPE_FIXED32: 5, F.TYPE_SFIXED32: 5,
         F.TYPE_DOUBLE: 1, F.TYPE_FIXED64: 1, F.TYPE_SFIXED64: 1}
UNKNOWN_NUMBERS = [18, 19, 20, 34, 60, 1000, 2**29 - 1]


def elements(number, payload):
    """split a packed payload into its element encodings"""
    wt = WT_OF.get(REF_FIELDS[number].type, 0)
    out, pos = [], 0
    while pos < len(payload):
        if wt == 0:
            _, end = read_varint(payload, pos)
        else:
            end = pos + (4 if wt == 5 else 8)
        out.append(payload[pos:end])
        pos = end
    return wt, out


def emit(number, wt, body, pad=True):
    # the reference rejects keys longer than five bytes
    key = number << 3 | wt
    room = 5 - len(varint(key))
    return varint(key, min(rand_pad(), room) if pad else 0) + body


def len_prefix(n):
    # ... and length prefixes longer than five bytes
    return varint(n, min(rand_pad(), 5 - len(varint(n))))


def pad_varint_bytes(raw):
    v, _ = read_varint(raw, 0)
    room = 10 - len(varint(v))
    return varint(v, rng.choice([0, 1, room]) if room else 0)


def reencode(data):
    """an equivalent, non-canonical encoding of the same message"""
    recs = spec_records(data)
    out = []  # list of (number, bytes) so that the relative order per field is kept
    for number, wt, value, raw in recs:
        fd = REF_FIELDS[number]
        if number in PACKABLE and wt == 2:
            ewt, els = elements(number, value)
            if ewt == 0:
                els = [pad_varint_bytes(e) for e in els]
            mode = rng.choice(["packed", "unpacked", "chunks", "mixed"])
            if mode == "packed":
                pieces = [els]
            elif mode == "unpacked":
                pieces = [[e] for e in els]
            else:
                pieces, i = [], 0
                while i < len(els):
                    k = rng.randrange(1, len(els) - i + 1)
                    pieces.append(els[i:i + k])
                    i += k
                if rng.random() < 0.3:
                    pieces.insert(rng.randrange(len(pieces) + 1), [])   # empty packed chunk
            for p in pieces:
                if len(p) == 1 and mode in ("unpacked", "mixed") and (mode == "unpacked" or rng.random() < 0.5):
                    out.append((number, emit(number, ewt, p[0])))
                else:
                    body = b"".join(p)
                    out.append((number, emit(number, 2, len_prefix(len(body)) + body)))
        elif wt == 0:
            out.append((number, emit(number, 0, pad_varint_bytes(varint(value)))))
        elif wt == 2:
            out.append((number, emit(number, 2, len_prefix(len(value)) + value)))
        else:
            out.append((number, emit(number, wt, value)))
    # duplicate singular scalars: an earlier occurrence with another value loses
    extra = []
    for number, wt, value, raw in recs:
        fd = REF_FIELDS[number]
        if not fd.is_repeated and fd.type != fd.TYPE_MESSAGE and not fd.containing_oneof \
                and rng.random() < 0.4:
            if wt == 0:
                dup = emit(number, 0, varint(rng.getrandbits(rng.choice([1, 7, 31]))))
            elif wt == 2:
                other = rng.choice([b"", b"zz", b"earlier"])
                dup = emit(number, 2, varint(len(other)) + other)
            else:
                dup = emit(number, wt, bytes(len(value)))
            extra.append((number, dup))
    # permutation that keeps the relative order of records of one field (lists!) and of
    # the members of the real oneof (last one wins must pick the same member)
    def group_of(n):
        return "choice" if 41 <= n <= 44 else n
    slots = [group_of(n) for n, _ in out]
    rng.shuffle(slots)
    queues = {}
    for n, b in out:
        queues.setdefault(group_of(n), []).append(b)
    body = [queues[g].pop(0) for g in slots]
    # the losing duplicates go in front of everything they duplicate
    head = [b for _, b in extra]
    rng.shuffle(head)
    # losing oneof members in front as well
    if any(41 <= n <= 44 for n, _ in out) and rng.random() < 0.7:
        for _ in range(rng.randrange(1, 4)):
            n = rng.choice([41, 42, 43, 44])
            head.append({41: emit(41, 0, varint(rng.getrandbits(20))),
                         42: emit(42, 2, b"\x03old"),
                         43: emit(43, 1, struct.pack("<d", 2.5)),
                         44: emit(44, 0, varint(1))}[n])
    stream = head + body
    # unknown fields anywhere
    for _ in range(rng.choice([0, 1, 3, 6])):
        n = rng.choice(UNKNOWN_NUMBERS)
        wt = rng.choice([0, 1, 2, 5])
        if wt == 0:
            b = varint(rng.getrandbits(rng.choice([1, 30, 64])), rand_pad() if rng.random() < .5 else 0)
            if len(b) > 10:
                b = varint(5)
        elif wt == 2:
            blob = bytes(rng.getrandbits(8) for _ in range(rng.choice([0, 1, 130])))
            b = varint(len(blob)) + blob
        else:
            b = bytes(rng.getrandbits(8) for _ in range(8 if wt == 1 else 4))
        stream.insert(rng.randrange(len(stream) + 1), emit(n, wt, b))
    return b"".join(stream)


n_msgs = n_alt = 0
for it in range(400):
    ref = rand_ref()
    data = ref.SerializeToString()
    bp = All().parse(data)
    compare(bp, ref, ("canonical", it))
    # and back: betterproto's own bytes are read by the reference as the same message
    back = RefAll.FromString(bytes(bp))
    compare(bp, back, ("bp->ref", it))
    n_msgs += 1
    for j in range(6):
        alt = reencode(data)
        oracle = RefAll.FromString(alt)          # what the reference makes of it
        # the re-encoding is value preserving for the reference itself
        o2 = RefAll.FromString(alt); o2.DiscardUnknownFields()
        assert o2 == ref or any(x != x for x in list(ref.r_f) + list(ref.r_d)), (it, j)
        got = All().parse(alt)
        compare(got, oracle, ("alt", it, j))
        # the stream reader sees the same records as the buffer reader
        assert as_tuples(load_fields(io.BytesIO(alt))) == spec_records(alt)
        # delimited framing goes through the same reader with a size limit
        framed = varint(len(alt)) + alt + b"\x08\x01"
        s = io.BytesIO(framed)
        got2 = All().load(s, betterproto.SIZE_DELIMITED)
        assert s.tell() == len(framed) - 2
        compare(got2, oracle, ("framed", it, j))
        n_alt += 1

# a field number used with the wrong wire type is kept as unknown, not mis-decoded
wrong = (b"\x0d\x01\x00\x00\x00"      # field 1 (int32) as fixed32
         b"\x7a\x02hi"                # field 15 string
         b"\x78\x05"                  # field 15 as varint
         b"\x12\x01\x07"              # field 2 (singular int64) length-delimited
         b"\xa8\x01\x09"              # field 21 repeated int32 unpacked
         b"\xad\x01\x01\x00\x00\x00"  # field 21 as fixed32
         b"\xaa\x01\x02\x0a\x0b")     # field 21 packed
got = All().parse(wrong)
assert got.i32 == 0 and got.s == "hi" and got.i64 == 0 and got.r_i32 == [9, 10, 11]
assert got._unknown_fields == b"\x0d\x01\x00\x00\x00" b"\x78\x05" b"\x12\x01\x07" b"\xad\x01\x01\x00\x00\x00"
oracle = RefAll.FromString(wrong)
compare(got, oracle, "wrong wire types")
assert RefAll.FromString(bytes(got)) == oracle

print("ok:", total, "records;", n_msgs, "messages,", n_alt, "re-encodings")
