"""
C12 equivalence check for AsyncChannel refactorings.

Part 1 drives several thousand small configurations (1..2 senders x 1..3 items via
send / send_from(list) / send_from(async gen) / send_from(close=True), 1..3 receivers
using receive() or async-for, close() at varying points (optionally twice), unbounded
and bounded buffers, optional cancellation of one receiver at varying points) through
real asyncio, with every task yielding a configurable number of times so that many
different interleavings are produced.  For every run the statement of the property is
asserted, and the complete event trace (who observed what, in which order, including
closed()/done() probes) is folded into a digest which must equal the digest recorded
on the reference implementation: the refactoring may not change a single observable
step.

Part 2 concentrates on the sender side (send / send_from on unbounded and bounded
buffers): the channel under test is run side by side with a reference subclass whose
send() / send_from() are the textbook `await queue.put(item)` form, on thousands of
sender-centric schedules (several senders blocked on a full buffer, slow receivers,
cancellation / timeout of a blocked sender, close while senders are blocked); the
traces, which carry the event-loop iteration number of every event (so also the number
of suspensions of each send), must be identical.  Part 3 checks buffer accounting
(qsize, full, unfinished-task count / join) after sends.
"""
import asyncio
import hashlib
import itertools
import random

from betterproto.grpc.util.async_channel import AsyncChannel, ChannelClosed, ChannelDone

EXPECTED_DIGEST = "69f31b9d4ca7447d05ff766e5f99b8493635ecda15c523973f7c2738b8daf3dd"

WATCHDOG = 10.0


async def yields(n):
    for _ in range(n):
        await asyncio.sleep(0)


class Run:
    def __init__(self, cfg):
        self.cfg = cfg
        self.ch = AsyncChannel(buffer_limit=cfg["limit"])
        self.log = []
        self.close_called = False

    def ev(self, *e):
        self.log.append(e)

    def probe(self, who):
        c, d = self.ch.closed(), self.ch.done()
        assert c is True or c is False
        assert d is True or d is False
        assert not d or c, "done implies closed"
        self.ev("probe", who, c, d)

    # ---------------------------------------------------------------- senders
    async def sender(self, name, mode, items, delay, gap, close_flag):
        ch = self.ch
        await yields(delay)
        try:
            if mode == "send":
                for it in items:
                    r = await ch.send(it)
                    assert r is ch
                    self.ev("sent", name, it, self.close_called)
                    await yields(gap)
            elif mode == "list":
                r = await ch.send_from(list(items), close=close_flag)
                assert r is ch
                if close_flag:
                    self.close_called = True
                    self.ev("close", name)
                for it in items:
                    self.ev("sent", name, it, self.close_called and not close_flag)
            elif mode == "gen":
                r = await ch.send_from((it for it in items), close=close_flag)
                assert r is ch
                if close_flag:
                    self.close_called = True
                    self.ev("close", name)
                for it in items:
                    self.ev("sent", name, it, self.close_called and not close_flag)
            else:  # async generator source

                async def agen():
                    prev = None
                    for it in items:
                        if prev is not None:
                            self.ev("sent", name, prev, self.close_called)
                        await yields(gap)
                        prev = it
                        yield it
                    if prev is not None:
                        self.ev("sent", name, prev, self.close_called)

                r = await ch.send_from(agen(), close=close_flag)
                assert r is ch
                if close_flag:
                    self.close_called = True
                    self.ev("close", name)
            self.ev("sender-finished", name)
        except ChannelClosed as e:
            assert self.close_called, "ChannelClosed raised on an open channel"
            assert str(e) == "Cannot send through a closed channel"
            self.ev("sender-rejected", name)
        self.probe(name)

    # -------------------------------------------------------------- receivers
    async def receiver(self, name, mode, delay, gap):
        ch = self.ch
        await yields(delay)
        self.probe(name)
        if mode == "iter":
            async for it in ch:
                self.ev("recv", name, it)
                await yields(gap)
            self.ev("end-of-iteration", name)
        else:
            while True:
                try:
                    it = await ch.receive()
                except ChannelDone as e:
                    assert str(e) == "Cannot receive from a closed channel"
                    self.ev("channel-done", name)
                    break
                if it is None:
                    self.ev("none", name)
                    break
                self.ev("recv", name, it)
                await yields(gap)
        assert ch.closed(), "receiver terminated although channel was never closed"
        self.probe(name)

    async def closer(self, delay, twice):
        await yields(delay)
        self.probe("closer")
        self.close_called = True
        assert self.ch.close() is None
        self.ev("close", "closer")
        self.probe("closer")
        if twice is not None:
            await yields(twice)
            self.ch.close()
            self.ev("close-again", "closer")
            self.probe("closer")

    async def canceller(self, task, name, delay):
        await yields(delay)
        pending = not task.done()
        task.cancel()
        self.ev("cancel", name, pending)
        return pending

    async def late_sender(self, delay):
        # a sender that only ever sends after close() was issued
        await yields(delay)
        while not self.close_called:
            await asyncio.sleep(0)
        for meth, arg in (("send", "late"), ("send_from", ["late"]), ("send_from", [])):
            try:
                await getattr(self.ch, meth)(arg)
            except ChannelClosed:
                self.ev("late-rejected", meth)
            else:
                raise AssertionError(f"{meth} after close() did not raise ChannelClosed")

    # -------------------------------------------------------------------- run
    async def run(self):
        cfg = self.cfg
        tasks = {}
        senders = []
        receivers = []
        for i, (mode, n, delay, gap, close_flag) in enumerate(cfg["senders"]):
            name = f"S{i}"
            items = [f"{name}.{k}" for k in range(n)]
            t = asyncio.ensure_future(self.sender(name, mode, items, delay, gap, close_flag))
            tasks[name] = t
            senders.append((name, items, t))
        for i, (mode, delay, gap) in enumerate(cfg["receivers"]):
            name = f"R{i}"
            t = asyncio.ensure_future(self.receiver(name, mode, delay, gap))
            tasks[name] = t
            receivers.append((name, t))
        must_finish = [t for _, t in receivers]
        if cfg["closer"] is not None:
            t = asyncio.ensure_future(self.closer(*cfg["closer"]))
            must_finish.append(t)
        canc = None
        if cfg["cancel"] is not None:
            idx, delay = cfg["cancel"]
            name, victim = receivers[idx]
            canc = asyncio.ensure_future(self.canceller(victim, name, delay))
            must_finish.append(canc)
        late = asyncio.ensure_future(self.late_sender(cfg["late"]))
        must_finish.append(late)

        done, pending = await asyncio.wait(must_finish, timeout=WATCHDOG)
        assert not pending, f"stranded tasks in {cfg}: {pending}\n{self.log}"
        # senders can legitimately stay blocked on a full bounded buffer when nobody
        # receives any more; give them a few turns, then drain on their behalf
        await yields(6)
        # "channel still usable, nothing lost": whatever is left can be received
        leftovers = []
        guard = 0
        while True:
            guard += 1
            assert guard < 50
            self.probe("main")
            try:
                it = await asyncio.wait_for(self.ch.receive(), WATCHDOG)
            except ChannelDone:
                # blocked senders may still be about to put their item
                await yields(3)
                if self.ch.done():
                    break
                continue
            if it is None:
                continue
            leftovers.append(it)
            self.ev("recv", "main", it)
        stuck = []
        for name, items, t in senders:
            if not t.done():
                stuck.append(name)
                t.cancel()
        self.ev("stuck-senders", tuple(stuck))
        res = await asyncio.gather(*tasks.values(), return_exceptions=True)
        for (name, t), r in zip(tasks.items(), res):
            if isinstance(r, BaseException) and not isinstance(r, asyncio.CancelledError):
                raise AssertionError(f"{name} failed with {r!r} in {cfg}") from r

        # ---- the property ------------------------------------------------
        for t in must_finish:
            if t is not canc and not t.cancelled():
                t.result()
        if canc is not None:
            was_pending = canc.result()
            name, victim = receivers[cfg["cancel"][0]]
            if was_pending:
                assert victim.cancelled(), f"cancel did not surface in {cfg}"
            self.ev("victim-cancelled", victim.cancelled())
        received = [e[2] for e in self.log if e[0] == "recv"]
        assert len(received) == len(set(received)), f"duplicate delivery {received} in {cfg}"
        all_items = {it for _, items, _ in senders for it in items}
        assert set(received) <= all_items, f"invented item in {cfg}"
        for e in self.log:
            if e[0] == "sent" and not e[3]:
                assert e[2] in received, f"item {e[2]} lost in {cfg}\n{self.log}"
        for name, items, _ in senders:
            mine = [it for it in received if it.startswith(name + ".")]
            assert mine == sorted(mine, key=lambda s: int(s.split(".")[1])), (
                f"order violated {mine} in {cfg}"
            )
        assert self.ch.closed() and self.ch.done()
        try:
            await self.ch.send("z")
        except ChannelClosed:
            pass
        else:
            raise AssertionError("send after close accepted")
        return self.log


def configs():
    rnd = random.Random(20240612)
    out = []
    # systematic core: one sender, one/two receivers, closer everywhere
    for limit, n, rmodes, cdelay, rdelay in itertools.product(
        (0, 1, 2), (1, 2, 3), (("recv",), ("iter",), ("recv", "iter"), ("iter", "iter", "recv")),
        range(0, 6), (0, 2),
    ):
        out.append(
            dict(
                limit=limit,
                senders=[("send", n, 0, 0, False)],
                receivers=[(m, rdelay * (i + 1) % 3, 0) for i, m in enumerate(rmodes)],
                closer=(cdelay, None),
                cancel=None,
                late=0,
            )
        )
    # random part
    for _ in range(3500):
        limit = rnd.choice((0, 0, 1, 2, 3))
        ns = rnd.choice((1, 1, 2))
        closing_sender = rnd.random() < 0.2
        senders = []
        for i in range(ns):
            mode = rnd.choice(("send", "send", "list", "gen", "agen"))
            close_flag = closing_sender and i == 0 and ns == 1 and mode != "send"
            senders.append((mode, rnd.randint(1, 3), rnd.randint(0, 4), rnd.randint(0, 2), close_flag))
        has_closing_sender = any(s[4] for s in senders)
        nr = rnd.randint(1, 3)
        receivers = [
            (rnd.choice(("recv", "iter")), rnd.randint(0, 5), rnd.randint(0, 2)) for _ in range(nr)
        ]
        if has_closing_sender and rnd.random() < 0.7:
            closer = None
        else:
            closer = (rnd.randint(0, 9), rnd.choice((None, None, 0, 1, 3)))
        cancel = None
        if rnd.random() < 0.45:
            cancel = (rnd.randrange(nr), rnd.randint(0, 8))
        if closer is None and limit != 0:
            # without an independent closer a cancelled receiver could leave the
            # closing sender blocked on a full buffer for ever (not a channel issue)
            cancel = None
        out.append(
            dict(limit=limit, senders=senders, receivers=receivers, closer=closer, cancel=cancel,
                 late=rnd.randint(0, 4))
        )
    return out


async def part1():
    h = hashlib.sha256()
    n = 0
    for cfg in configs():
        log = await Run(cfg).run()
        h.update(repr((sorted(cfg.items()), log)).encode())
        n += 1
    return n, h.hexdigest()


class RefChannel(AsyncChannel):
    """Reference semantics of the sender side: one `await queue.put(item)` per item."""

    async def send_from(self, source, close=False):
        if self.closed():
            raise ChannelClosed("Cannot send through a closed channel")
        if hasattr(source, "__aiter__"):
            async for item in source:
                await self._queue.put(item)
        else:
            for item in source:
                await self._queue.put(item)
        if close:
            self.close()
        return self

    async def send(self, item):
        if self.closed():
            raise ChannelClosed("Cannot send through a closed channel")
        await self._queue.put(item)
        return self


class SenderRun:
    def __init__(self, cls, cfg):
        self.cfg = cfg
        self.ch = cls(buffer_limit=cfg["limit"])
        self.log = []
        self.tick = 0
        self.stop = False

    def ev(self, *e):
        q = self.ch._queue
        self.log.append((self.tick,) + e + (q.qsize(), q.full(), self.ch.closed(), self.ch.done()))

    async def ticker(self):
        while not self.stop:
            self.tick += 1
            await asyncio.sleep(0)

    async def sender(self, name, mode, items, delay, gap, close_flag, timeout):
        ch = self.ch
        await yields(delay)
        try:
            if mode == "send":
                for it in items:
                    self.ev("send-start", name, it)
                    if timeout is None:
                        await ch.send(it)
                    else:
                        async with asyncio.timeout(None) as cm:
                            self.timeouts[name] = cm
                            await ch.send(it)
                    self.ev("send-done", name, it)
                    await yields(gap)
            elif mode == "list":
                self.ev("send_from-start", name)
                await ch.send_from(list(items), close=close_flag)
                self.ev("send_from-done", name)
            elif mode == "gen":

                def gen():
                    for it in items:
                        self.ev("pull", name, it)
                        yield it

                await ch.send_from(gen(), close=close_flag)
                self.ev("send_from-done", name)
            else:

                async def agen():
                    for it in items:
                        await yields(gap)
                        self.ev("pull", name, it)
                        yield it

                await ch.send_from(agen(), close=close_flag)
                self.ev("send_from-done", name)
        except ChannelClosed as e:
            self.ev("rejected", name, str(e))
        except TimeoutError:
            self.ev("timed-out", name)
        except asyncio.CancelledError:
            self.ev("cancelled", name)
            raise

    async def receiver(self, name, mode, delay, gap, maxn):
        await yields(delay)
        n = 0
        if mode == "iter":
            async for it in self.ch:
                self.ev("recv", name, it)
                n += 1
                if n >= maxn:
                    break
                await yields(gap)
        else:
            while n < maxn:
                try:
                    it = await self.ch.receive()
                except ChannelDone:
                    self.ev("channel-done", name)
                    break
                self.ev("recv", name, it)
                if it is None:
                    break
                n += 1
                await yields(gap)
        self.ev("receiver-exit", name)

    async def run(self):
        cfg = self.cfg
        self.timeouts = {}
        tk = asyncio.ensure_future(self.ticker())
        senders = {}
        for i, (mode, n, delay, gap, close_flag, timeout) in enumerate(cfg["senders"]):
            name = f"S{i}"
            items = [f"{name}.{k}" for k in range(n)]
            senders[name] = asyncio.ensure_future(
                self.sender(name, mode, items, delay, gap, close_flag, timeout)
            )
        receivers = [
            asyncio.ensure_future(self.receiver(f"R{i}", *r)) for i, r in enumerate(cfg["receivers"])
        ]
        aux = []

        async def closer(delay):
            await yields(delay)
            self.ch.close()
            self.ev("close")

        async def interrupter(kind, name, delay):
            await yields(delay)
            t = senders[name]
            if kind == "cancel":
                self.ev("cancel", name, t.done())
                t.cancel()
            else:
                cm = self.timeouts.get(name)
                self.ev("expire", name, t.done(), cm is not None)
                if cm is not None and not t.done() and not cm.expired():
                    try:
                        cm.reschedule(0)
                    except RuntimeError:
                        pass

        if cfg["closer"] is not None:
            aux.append(asyncio.ensure_future(closer(cfg["closer"])))
        if cfg["interrupt"] is not None:
            aux.append(asyncio.ensure_future(interrupter(*cfg["interrupt"])))
        # fixed horizon: everything that can happen happens within a bounded number of
        # loop iterations; afterwards record who is still blocked and clean up
        await yields(cfg["horizon"])
        state = tuple(
            (name, t.done(), t.cancelled() if t.done() else None) for name, t in senders.items()
        ) + tuple((f"R{i}", t.done()) for i, t in enumerate(receivers))
        self.ev("horizon", state)
        # drain: whatever blocked senders still hold gets through in FIFO order
        drained = []
        for _ in range(40):
            if self.ch._queue.empty():
                await yields(2)
                if self.ch._queue.empty():
                    break
            if all(r.done() for r in receivers):
                it = self.ch._queue.get_nowait()
                self.ch._queue.task_done()
                drained.append(it if isinstance(it, str) else "<flush>")
            await yields(1)
        self.ev("drained", tuple(drained))
        self.stop = True
        for t in list(senders.values()) + receivers + aux:
            t.cancel()
        await asyncio.gather(tk, *senders.values(), *receivers, *aux, return_exceptions=True)
        self.ev("unfinished", self.ch._queue._unfinished_tasks)
        return self.log


def sender_configs():
    rnd = random.Random(977)
    out = []
    for _ in range(2500):
        limit = rnd.choice((1, 1, 2, 3, 0, -1))
        ns = rnd.randint(1, 3)
        senders = []
        for i in range(ns):
            mode = rnd.choice(("send", "send", "list", "gen", "agen"))
            timeout = True if (mode == "send" and rnd.random() < 0.3) else None
            senders.append(
                (mode, rnd.randint(1, 4), rnd.randint(0, 3), rnd.randint(0, 2),
                 rnd.random() < 0.15 and mode != "send", timeout)
            )
        receivers = [
            (rnd.choice(("recv", "iter")), rnd.randint(0, 8), rnd.randint(0, 3), rnd.randint(1, 6))
            for _ in range(rnd.randint(0, 2))
        ]
        closer = rnd.randint(0, 12) if rnd.random() < 0.5 else None
        interrupt = None
        r = rnd.random()
        if r < 0.35:
            interrupt = ("cancel", f"S{rnd.randrange(ns)}", rnd.randint(0, 10))
        elif r < 0.6:
            interrupt = ("expire", f"S{rnd.randrange(ns)}", rnd.randint(0, 10))
        out.append(dict(limit=limit, senders=senders, receivers=receivers, closer=closer,
                        interrupt=interrupt, horizon=60))
    return out


async def part2():
    n = blocked = 0
    for cfg in sender_configs():
        a = await SenderRun(AsyncChannel, cfg).run()
        b = await SenderRun(RefChannel, cfg).run()
        assert a == b, f"sender-side trace differs from the reference for {cfg}:\n{a}\n{b}"
        n += 1
        hz = [e for e in a if e[1] == "horizon"][0]
        blocked += any(not st[1] for st in hz[2] if st[0].startswith("S"))
    print("sender-side configurations:", n, "of which with a sender still blocked at the horizon:", blocked)
    assert blocked > 100


async def part3():
    # a send on a buffer with room completes without giving other tasks a turn
    for limit in (0, -3, 1, 2, 5):
        ch = AsyncChannel(buffer_limit=limit)
        turns = []

        async def other():
            turns.append(1)

        asyncio.ensure_future(other())
        assert (await ch.send("a")) is ch
        assert turns == [], "send on a non-full buffer must not suspend"
        q = ch._queue
        assert q.qsize() == 1 and q._unfinished_tasks == 1
        assert q.full() is (limit == 1)
        await asyncio.sleep(0)
        assert turns == [1]

    # filling a bounded buffer exactly, then one more blocks until a receive
    for limit in (1, 2, 3, 4):
        ch = AsyncChannel(buffer_limit=limit)
        await asyncio.wait_for(ch.send_from(range(limit)), 1)
        assert ch._queue.full()
        extra = asyncio.ensure_future(ch.send("extra"))
        extra2 = asyncio.ensure_future(ch.send_from(["extra2", "extra3"]))
        await yields(5)
        assert not extra.done() and not extra2.done()
        assert ch._queue.qsize() == limit
        assert await ch.receive() == 0
        await yields(1)
        assert extra.done() and not extra2.done()
        assert (await extra) is ch
        got = [await ch.receive() for _ in range(limit - 1 + 3)]
        assert got == list(range(1, limit)) + ["extra", "extra2", "extra3"], got
        assert (await asyncio.wait_for(extra2, 1)) is ch
        # every item put was accounted for and marked done by the receivers
        await asyncio.wait_for(ch._queue.join(), 1)

    # a blocked sender that is cancelled / times out inserts nothing and does not
    # take the slot away from the sender queued behind it
    for how in ("cancel", "timeout"):
        ch = AsyncChannel(buffer_limit=1)
        await ch.send("first")
        if how == "cancel":
            s1 = asyncio.ensure_future(ch.send("s1"))
        else:
            s1 = asyncio.ensure_future(asyncio.wait_for(ch.send("s1"), 0.01))
        s2 = asyncio.ensure_future(ch.send("s2"))
        await yields(2)
        if how == "cancel":
            s1.cancel()
            res = (await asyncio.gather(s1, return_exceptions=True))[0]
            assert isinstance(res, asyncio.CancelledError)
        else:
            res = (await asyncio.gather(s1, return_exceptions=True))[0]
            assert isinstance(res, TimeoutError), res
        assert not s2.done()
        assert await ch.receive() == "first"
        await asyncio.wait_for(s2, 1)
        assert await ch.receive() == "s2"
        ch.close()
        await yields(2)
        assert ch.done()

    # sends racing with close: accepted before, rejected after, blocked ones complete
    ch = AsyncChannel(buffer_limit=1)
    await ch.send("a")
    blocked_send = asyncio.ensure_future(ch.send("b"))
    await yields(2)
    ch.close()
    for meth, arg in (("send", "c"), ("send_from", ["c"]), ("send_from", [])):
        try:
            await getattr(ch, meth)(arg)
        except ChannelClosed as e:
            assert str(e) == "Cannot send through a closed channel"
        else:
            raise AssertionError
    assert not blocked_send.done()
    assert await ch.receive() == "a"
    await asyncio.wait_for(blocked_send, 1)
    assert await ch.receive() == "b"
    assert ch.done()

    # falsy / None / exception-valued items travel unchanged through send / send_from
    ch = AsyncChannel()
    odd = [0, "", None, False, [], ValueError("v"), 0.0, b""]
    await ch.send_from(odd)
    for x in odd:
        await ch.send(x)
    ch.close()
    got = []
    for _ in range(2 * len(odd)):
        got.append(await ch.receive())
    assert all(g is o for g, o in zip(got, odd + odd))
    assert ch.done()


async def main():
    n, digest = await part1()
    print("configurations:", n, "digest:", digest)
    assert digest == EXPECTED_DIGEST, "observable trace differs from the reference implementation"
    await part2()
    await part3()


asyncio.run(main())
print("OK")
