"""C16 keep1: dump_varint / encode_varint / size_varint behave exactly as before.

Checks (plain asserts, exits 0 on the pristine tree and with the refactor):
  * canonical minimal base-128 bytes for every integer below 2**21, around every
    7-bit / 32-bit / 64-bit boundary and for random 64-bit integers, against an
    independent model AND against google.protobuf's encoder;
  * negatives are the 10-byte 64-bit two's complement;
  * size_varint == len(encode_varint);
  * dump_varint writes bytes objects, one call per output byte, in order;
  * values below -2**63 raise the same ValueError from all three functions and
    nothing is written;
  * bool / IntEnum / betterproto.Enum arguments;
  * decode_varint / load_varint invert it;
  * single-field messages of all varint kinds are byte-identical to google.protobuf.
"""
import enum
import random
from dataclasses import dataclass
from io import BytesIO

import betterproto
from betterproto import (
    decode_varint,
    dump_varint,
    encode_varint,
    load_varint,
    size_varint,
)
from google.protobuf import descriptor_pb2, descriptor_pool, message_factory
from google.protobuf.internal import encoder as pb_encoder

MSG = (
    "Negative value is not representable as a 64-bit integer - "
    "unable to encode a varint within 10 bytes."
)


def model(value):
    """Independent, deliberately naive model of the canonical encoding."""
    if value < 0:
        value = value % (1 << 64)
    groups = []
    while True:
        groups.append(value % 128)
        value //= 128
        if value == 0:
            break
    return bytes(g + 128 for g in groups[:-1]) + bytes([groups[-1]])


class Recorder:
    def __init__(self):
        self.writes = []

    def write(self, data):
        self.writes.append(data)
        return len(data)


def check(value, full=True):
    enc = encode_varint(value)
    assert type(enc) is bytes
    expect = model(value)
    assert enc == expect, (value, enc, expect)
    assert size_varint(value) == len(enc), value
    assert type(size_varint(value)) is int
    if value < 0:
        assert len(enc) == 10 and enc[-1] == 1, value
    else:
        # minimal: no trailing zero group unless the value is zero
        assert len(enc) == 1 or enc[-1] != 0, value
    if not full:
        return
    # reference encoder
    if value >= 0:
        assert pb_encoder._VarintBytes(value) == enc, value
    else:
        assert pb_encoder._SignedVarintBytes(value) == enc, value
    # stream behaviour
    rec = Recorder()
    assert dump_varint(value, rec) is None
    assert all(type(w) is bytes and len(w) == 1 for w in rec.writes), value
    assert b"".join(rec.writes) == enc, value
    bio = BytesIO()
    bio.write(b"xy")
    dump_varint(value, bio)
    assert bio.getvalue() == b"xy" + enc
    # inverse
    unsigned = value % (1 << 64)
    assert decode_varint(enc, 0) == (unsigned, len(enc))
    assert decode_varint(b"\xff" + enc + b"\x80", 1) == (unsigned, 1 + len(enc))
    assert load_varint(BytesIO(enc + b"\x01")) == (unsigned, enc)


# signed varint bytes helper of the reference (encoder exposes only a factory)
def _signed_varint_bytes(value):
    pieces = []
    pb_encoder._EncodeSignedVarint(pieces.append, value, True)
    return b"".join(pieces)


pb_encoder._SignedVarintBytes = _signed_varint_bytes

# --- exhaustive below 2**21 (cheap check), full check on a stride -------------
for v in range(1 << 21):
    check(v, full=(v < 70000 or v % 257 == 0))

# --- boundaries ----------------------------------------------------------------
boundary = set()
for k in list(range(0, 71, 7)) + [8, 15, 16, 31, 32, 33, 62, 63, 64]:
    for d in range(-3, 4):
        for sign in (1, -1):
            v = sign * (1 << k) + d
            if -(1 << 63) <= v < (1 << 64):
                boundary.add(v)
boundary.update([0, 1, -1, 127, 128, 255, 256, (1 << 64) - 1, -(1 << 63), (1 << 63), (1 << 63) - 1])
for v in sorted(boundary):
    check(v)

# --- random --------------------------------------------------------------------
rnd = random.Random(1601)
for _ in range(60000):
    bits = rnd.randrange(1, 65)
    check(rnd.getrandbits(bits))
for _ in range(30000):
    bits = rnd.randrange(1, 64)
    check(-rnd.getrandbits(bits) - 1)
for _ in range(20000):
    check(rnd.randrange(-(1 << 63), 1 << 64))

# --- rejected: below -2**63 ------------------------------------------------------
for v in [-(1 << 63) - 1, -(1 << 63) - 2, -(1 << 64), -(1 << 64) + 1, -(1 << 64) - 1, -(1 << 70), -(10**30)] + [
    -(1 << 63) - rnd.getrandbits(rnd.randrange(1, 80)) - 1 for _ in range(2000)
]:
    for fn in (encode_varint, size_varint):
        try:
            fn(v)
        except ValueError as e:
            assert type(e) is ValueError and str(e) == MSG, (v, e)
        else:
            raise AssertionError(("not rejected", fn.__name__, v))
    rec = Recorder()
    try:
        dump_varint(v, rec)
    except ValueError as e:
        assert type(e) is ValueError and str(e) == MSG, (v, e)
    else:
        raise AssertionError(("not rejected", "dump_varint", v))
    assert rec.writes == [], v

# --- int-like arguments that the library itself passes --------------------------
assert encode_varint(True) == b"\x01" and encode_varint(False) == b"\x00"
assert size_varint(True) == 1 and size_varint(False) == 1
rec = Recorder()
dump_varint(True, rec)
assert rec.writes == [b"\x01"] and type(rec.writes[0]) is bytes


class Colour(betterproto.Enum):
    ZERO = 0
    ONE = 1
    SMALL = 127
    BIG = 128
    HUGE = 2147483647
    NEG = -1
    MIN = -2147483648


class PyEnum(enum.IntEnum):
    A = 0
    B = 5
    C = 300
    D = -7


for member in list(Colour) + list(PyEnum):
    enc = encode_varint(member)
    assert type(enc) is bytes and enc == model(int(member)), member
    assert size_varint(member) == len(enc), member
    rec = Recorder()
    dump_varint(member, rec)
    assert all(type(w) is bytes for w in rec.writes) and b"".join(rec.writes) == enc

# --- message level: all varint kinds against google.protobuf --------------------
FD = descriptor_pb2.FieldDescriptorProto
KINDS = [
    ("int32", FD.TYPE_INT32, betterproto.int32_field),
    ("int64", FD.TYPE_INT64, betterproto.int64_field),
    ("uint32", FD.TYPE_UINT32, betterproto.uint32_field),
    ("uint64", FD.TYPE_UINT64, betterproto.uint64_field),
    ("sint32", FD.TYPE_SINT32, betterproto.sint32_field),
    ("sint64", FD.TYPE_SINT64, betterproto.sint64_field),
    ("bool", FD.TYPE_BOOL, betterproto.bool_field),
]
file_proto = descriptor_pb2.FileDescriptorProto(name="c16_keep1.proto", package="c16k1", syntax="proto3")
m = file_proto.message_type.add(name="M")
for i, (name, t, _) in enumerate(KINDS):
    m.field.add(name="f_" + name, number=1 + i * 20, type=t, label=FD.LABEL_OPTIONAL)
pool = descriptor_pool.DescriptorPool()
pool.Add(file_proto)
PbM = message_factory.GetMessageClass(pool.FindMessageTypeByName("c16k1.M"))


@dataclass(eq=False, repr=False)
class M(betterproto.Message):
    f_int32: int = betterproto.int32_field(1)
    f_int64: int = betterproto.int64_field(21)
    f_uint32: int = betterproto.uint32_field(41)
    f_uint64: int = betterproto.uint64_field(61)
    f_sint32: int = betterproto.sint32_field(81)
    f_sint64: int = betterproto.sint64_field(101)
    f_bool: bool = betterproto.bool_field(121)


RANGES = {
    "int32": (-(1 << 31), (1 << 31) - 1),
    "int64": (-(1 << 63), (1 << 63) - 1),
    "uint32": (0, (1 << 32) - 1),
    "uint64": (0, (1 << 64) - 1),
    "sint32": (-(1 << 31), (1 << 31) - 1),
    "sint64": (-(1 << 63), (1 << 63) - 1),
}
for name, (lo, hi) in RANGES.items():
    vals = {lo, lo + 1, hi, hi - 1, 1, 127, 128, 300}
    vals.update(v for v in boundary if lo <= v <= hi)
    vals.update(rnd.randrange(lo, hi + 1) for _ in range(400))
    vals.update(rnd.randrange(max(lo, -70000), min(hi, 70000) + 1) for _ in range(400))
    vals.discard(0)
    for v in sorted(vals):
        ours = M(**{"f_" + name: v})
        ref = PbM(**{"f_" + name: v}).SerializeToString()
        assert bytes(ours) == ref, (name, v, bytes(ours), ref)
        assert len(ours) == len(ref), (name, v)
        assert getattr(M().parse(ref), "f_" + name) == v, (name, v)
assert bytes(M(f_bool=True)) == PbM(f_bool=True).SerializeToString()
assert bytes(M(f_bool=False)) == PbM(f_bool=False).SerializeToString() == b""
assert len(M(f_bool=True)) == 3

# delimited dump uses dump_varint for the size prefix
big = M(f_uint64=(1 << 64) - 1, f_int64=-1, f_sint64=-(1 << 63), f_int32=-5)
out = BytesIO()
big.dump(out, betterproto.SIZE_DELIMITED)
assert out.getvalue() == encode_varint(len(bytes(big))) + bytes(big)

print("ok")
