"""C11 equivalence check: generated <Service>Stub and <Service>Base agree.

Runs the real plugin pipeline (parser -> models -> Jinja template) on a family of
.proto files (compiled to a descriptor set with grpc_tools), imports the generated
packages, serves subclasses of the generated Base classes over
grpclib.testing.ChannelFor and drives them through the generated Stubs.

Checked:
  * structure of the generated code: which ServiceStub helper every stub method calls,
    and the cardinality / request type / reply type in Base.__mapping__
  * all four cardinalities, request values incl. all-default messages, stream lengths
    0..3, sync and async request iterables, cross-package / nested / well-known types,
    re-cased method names, services with 0 / 1 / n methods, package-less proto file
  * exactly-one handler invocation with equal request(s); equal, ordered response(s)
  * UNIMPLEMENTED for methods not overridden, GRPCError status propagation
  * timeout / deadline / metadata: every combination of stub-level and call-level
    None / set, observed on the server side

Run as: PYTHONPATH=/tmp/wt/R4C11/src /venv/bin/python equiv.py
"""
import ast
import asyncio
import importlib
import itertools
import os
import subprocess
import sys
import tempfile

import grpclib
from grpclib.const import Cardinality, Status
from grpclib.metadata import Deadline
from grpclib.testing import ChannelFor

import betterproto.plugin.compiler as plugin_compiler
from betterproto.grpc.util.async_channel import AsyncChannel
from betterproto.lib.google import protobuf as gpb
from betterproto.lib.google.protobuf.compiler import CodeGeneratorRequest
from betterproto.plugin.parser import generate_code

PROTOS = {
    "c11eq/common.proto": """
syntax = "proto3";
package c11eq;
message Shared { string tag = 1; repeated int32 nums = 2; }
""",
    "c11eq/other/v1/types.proto": """
syntax = "proto3";
package c11eq.other.v1;
message Thing {
  message Part { string name = 1; }
  int64 id = 1;
  Part part = 2;
}
""",
    "c11eq/svc/child/c.proto": """
syntax = "proto3";
package c11eq.svc.child;
message Leaf { bool on = 1; bytes blob = 2; }
""",
    "c11eq/svc/svc.proto": """
syntax = "proto3";
package c11eq.svc;

import "c11eq/common.proto";
import "c11eq/other/v1/types.proto";
import "c11eq/svc/child/c.proto";
import "google/protobuf/wrappers.proto";
import "google/protobuf/timestamp.proto";
import "google/protobuf/empty.proto";

message Req { int32 n = 1; string s = 2; }
message Resp { int32 n = 1; repeated string items = 2; }

// all four cardinalities with local types
service Matrix {
  rpc UU (Req) returns (Resp);
  rpc US (Req) returns (stream Resp);
  rpc SU (stream Req) returns (Resp);
  rpc SS (stream Req) returns (stream Resp);
}

// names needing re-casing, cross-package / nested / well-known types
service Names {
  rpc GetHTTPResponse (c11eq.Shared) returns (c11eq.other.v1.Thing);
  rpc do_thing (c11eq.other.v1.Thing.Part) returns (stream c11eq.svc.child.Leaf);
  rpc Import (stream c11eq.svc.child.Leaf) returns (c11eq.Shared);
  rpc XMLHttpRequest2 (stream google.protobuf.StringValue) returns (stream google.protobuf.Timestamp);
}

service Solo {
  rpc Only (google.protobuf.Empty) returns (Req);
}

service Nothing {}
""",
}

NOPKG_PROTOS = {
    "nopkg.proto": """
syntax = "proto3";
message Ball { int32 bounces = 1; }
service PingPong {
  rpc Ping (Ball) returns (Ball);
  rpc Rally (stream Ball) returns (stream Ball);
}
""",
}


def generate(protos, out_dir):
    """protos: {relative file name: text}.  Generates betterproto code into out_dir."""
    import grpc_tools

    src = tempfile.mkdtemp(prefix="c11src")
    for name, text in protos.items():
        path = os.path.join(src, name)
        os.makedirs(os.path.dirname(path), exist_ok=True)
        with open(path, "w") as f:
            f.write(text)
    ds = os.path.join(src, "set.bin")
    subprocess.check_call(
        [
            sys.executable,
            "-m",
            "grpc_tools.protoc",
            f"-I{src}",
            f"-I{os.path.join(os.path.dirname(grpc_tools.__file__), '_proto')}",
            f"--descriptor_set_out={ds}",
            "--include_imports",
            "--include_source_info",
            *protos,
        ]
    )
    with open(ds, "rb") as f:
        fds = gpb.FileDescriptorSet().parse(f.read())
    request = CodeGeneratorRequest(file_to_generate=list(protos), proto_file=fds.file)
    # ruff is not installed: skip import sorting / formatting
    plugin_compiler.subprocess.check_output = lambda cmd, input, encoding: input
    response = generate_code(request)
    for file in response.file:
        path = os.path.join(out_dir, file.name)
        os.makedirs(os.path.dirname(path), exist_ok=True)
        with open(path, "w") as f:
            f.write(file.content)


_stderr = sys.stderr
sys.stderr = open(os.devnull, "w")  # silence the plugin's "Writing ..." lines
try:
    out = tempfile.mkdtemp(prefix="c11out")
    generate(PROTOS, os.path.join(out, "c11root"))
    out2 = tempfile.mkdtemp(prefix="c11out")
    generate(NOPKG_PROTOS, os.path.join(out2, "c11nopkg"))
finally:
    sys.stderr = _stderr
sys.path[:0] = [out, out2]
svc = importlib.import_module("c11root.c11eq.svc")
common = importlib.import_module("c11root.c11eq")
other = importlib.import_module("c11root.c11eq.other.v1")
child = importlib.import_module("c11root.c11eq.svc.child")
nopkg = importlib.import_module("c11nopkg")


# --------------------------------------------------------------------------------------
# Method table: service, proto name, python name, client/server streaming, request type,
# reply type, sample requests (first one is all-default), reply function fn(request, i)
# --------------------------------------------------------------------------------------
class M:
    def __init__(self, module, package, service, proto, py, cs, ss, req, rep, samples, fn):
        self.module, self.package, self.service = module, package, service
        self.proto, self.py, self.cs, self.ss = proto, py, cs, ss
        self.req, self.rep, self.samples, self.fn = req, rep, samples, fn

    @property
    def route(self):
        prefix = f"{self.package}." if self.package else ""
        return f"/{prefix}{self.service}/{self.proto}"

    @property
    def cardinality(self):
        return {
            (False, False): Cardinality.UNARY_UNARY,
            (False, True): Cardinality.UNARY_STREAM,
            (True, False): Cardinality.STREAM_UNARY,
            (True, True): Cardinality.STREAM_STREAM,
        }[(self.cs, self.ss)]

    @property
    def helper(self):
        return "_%s_%s" % (
            "stream" if self.cs else "unary",
            "stream" if self.ss else "unary",
        )


REQS = [svc.Req(), svc.Req(n=1, s="a"), svc.Req(n=-7, s="xyz"), svc.Req(n=2**31 - 10)]


def resp_fn(r, i):
    return svc.Resp(n=r.n + i, items=[r.s] * i)


LEAVES = [child.Leaf(), child.Leaf(on=True, blob=b"\x00\xff"), child.Leaf(blob=b"x")]
STRINGS = [gpb.StringValue(), gpb.StringValue(value="a"), gpb.StringValue(value="bcd")]
BALLS = [nopkg.Ball(), nopkg.Ball(bounces=3), nopkg.Ball(bounces=-1)]

METHODS = [
    M(svc, "c11eq.svc", "Matrix", "UU", "uu", False, False, svc.Req, svc.Resp, REQS, resp_fn),
    M(svc, "c11eq.svc", "Matrix", "US", "us", False, True, svc.Req, svc.Resp, REQS, resp_fn),
    M(svc, "c11eq.svc", "Matrix", "SU", "su", True, False, svc.Req, svc.Resp, REQS, resp_fn),
    M(svc, "c11eq.svc", "Matrix", "SS", "ss", True, True, svc.Req, svc.Resp, REQS, resp_fn),
    M(svc, "c11eq.svc", "Names", "GetHTTPResponse", "get_http_response", False, False,
      common.Shared, other.Thing,
      [common.Shared(), common.Shared(tag="t", nums=[1, 2, 3]), common.Shared(nums=[0])],
      lambda r, i: other.Thing(id=sum(r.nums) + i, part=other.ThingPart(name=r.tag))),
    M(svc, "c11eq.svc", "Names", "do_thing", "do_thing", False, True,
      other.ThingPart, child.Leaf,
      [other.ThingPart(), other.ThingPart(name="n"), other.ThingPart(name="long" * 50)],
      lambda r, i: child.Leaf(on=bool(i % 2), blob=r.name.encode() * i)),
    M(svc, "c11eq.svc", "Names", "Import", "import_", True, False,
      child.Leaf, common.Shared, LEAVES,
      lambda r, i: common.Shared(tag=r.blob.hex(), nums=[int(r.on), i])),
    M(svc, "c11eq.svc", "Names", "XMLHttpRequest2", "xml_http_request2", True, True,
      gpb.StringValue, gpb.Timestamp, STRINGS,
      lambda r, i: gpb.Timestamp(seconds=len(r.value), nanos=i)),
    M(svc, "c11eq.svc", "Solo", "Only", "only", False, False,
      gpb.Empty, svc.Req, [gpb.Empty()],
      lambda r, i: svc.Req(n=i, s="only")),
    M(nopkg, "", "PingPong", "Ping", "ping", False, False, nopkg.Ball, nopkg.Ball, BALLS,
      lambda r, i: nopkg.Ball(bounces=r.bounces + 1 + i)),
    M(nopkg, "", "PingPong", "Rally", "rally", True, True, nopkg.Ball, nopkg.Ball, BALLS,
      lambda r, i: nopkg.Ball(bounces=r.bounces * 2 + i)),
]
SERVICES = {}
for m in METHODS:
    SERVICES.setdefault((m.module, m.service), []).append(m)


# --------------------------------------------------------------------------------------
# 1. structure of the generated code
# --------------------------------------------------------------------------------------
def check_structure():
    for (module, service), methods in SERVICES.items():
        tree = ast.parse(open(module.__file__).read())
        classes = {n.name: n for n in tree.body if isinstance(n, ast.ClassDef)}
        stub_cls = classes[f"{service}Stub"]
        funcs = {
            n.name: n for n in stub_cls.body if isinstance(n, ast.AsyncFunctionDef)
        }
        assert sorted(funcs) == sorted(m.py for m in methods), sorted(funcs)
        for m in methods:
            # which ServiceStub helper(s) the stub method calls, with which route
            called = [
                (n.func.attr, n.args[0].value)
                for n in ast.walk(funcs[m.py])
                if isinstance(n, ast.Call)
                and isinstance(n.func, ast.Attribute)
                and isinstance(n.func.value, ast.Name)
                and n.func.value.id == "self"
            ]
            assert called == [(m.helper, m.route)], (m.py, called)
            is_gen = any(isinstance(n, ast.Yield) for n in ast.walk(funcs[m.py]))
            assert is_gen == m.ss, m.py

        base = getattr(module, f"{service}Base")()
        mapping = base.__mapping__()
        assert sorted(mapping) == sorted(m.route for m in methods), sorted(mapping)
        for m in methods:
            handler = mapping[m.route]
            assert handler.cardinality is m.cardinality, (m.route, handler.cardinality)
            assert handler.request_type is m.req, (m.route, handler.request_type)
            assert handler.reply_type is m.rep, (m.route, handler.reply_type)
            assert handler.func.__name__ == f"__rpc_{m.py}", handler.func.__name__
            assert handler.func.__self__ is base

    # a service without methods
    assert svc.NothingBase().__mapping__() == {}
    assert [n for n in vars(svc.NothingStub) if not n.startswith("_")] == []


# --------------------------------------------------------------------------------------
# 2. behaviour over an in-process channel
# --------------------------------------------------------------------------------------
calls = []  # (python method name, request or list of requests)
seen = []  # (route, metadata dict, remaining seconds of deadline or None)
plan = {"n": 0, "extra": 0, "error": None}


def make_service(module, service, methods, implemented=True):
    base_cls = getattr(module, f"{service}Base")
    ns = {}

    def handler_for(m):
        if not m.cs and not m.ss:

            async def h(self, request):
                calls.append((m.py, request))
                if plan["error"]:
                    raise plan["error"]
                return m.fn(request, plan["n"])

        elif not m.cs and m.ss:

            async def h(self, request):
                calls.append((m.py, request))
                for i in range(plan["n"]):
                    yield m.fn(request, i)
                if plan["error"]:
                    raise plan["error"]

        elif m.cs and not m.ss:

            async def h(self, request_iterator):
                got = [r async for r in request_iterator]
                calls.append((m.py, got))
                if plan["error"]:
                    raise plan["error"]
                return m.fn(got[-1] if got else m.req(), len(got))

        else:

            async def h(self, request_iterator):
                got = []
                async for r in request_iterator:
                    got.append(r)
                    yield m.fn(r, len(got))
                for j in range(plan["extra"]):
                    yield m.fn(m.req(), 100 + j)
                calls.append((m.py, got))
                if plan["error"]:
                    raise plan["error"]

        h.__name__ = m.py
        return h

    if implemented:
        for m in methods:
            ns[m.py] = handler_for(m)

    def __mapping__(self):
        def wrap(route, func):
            async def wrapped(stream):
                deadline = stream.deadline
                seen.append(
                    (
                        route,
                        dict(stream.metadata),
                        None if deadline is None else deadline.time_remaining(),
                    )
                )
                await func(stream)

            return wrapped

        return {
            route: h._replace(func=wrap(route, h.func))
            for route, h in base_cls.__mapping__(self).items()
        }

    ns["__mapping__"] = __mapping__
    return type(f"{service}Impl", (base_cls,), ns)()


def take(lst):
    got = list(lst)
    lst.clear()
    return got


class Source:
    """An async iterable that is neither an async generator nor an AsyncChannel."""

    def __init__(self, items):
        self.items = list(items)

    def __aiter__(self):
        return self

    async def __anext__(self):
        await asyncio.sleep(0)
        if not self.items:
            raise StopAsyncIteration
        return self.items.pop(0)


def request_sources(items):
    """The same request stream presented as different kinds of iterables."""

    async def agen():
        for x in items:
            yield x

    chan = AsyncChannel()

    async def fill():
        await chan.send_from(list(items), close=True)

    fill_task = asyncio.ensure_future(fill())
    return [
        list(items),
        tuple(items),
        (x for x in items),
        iter(list(items)),
        agen(),
        Source(items),
        chan,
    ], fill_task


async def invoke(stub, m, request, **kwargs):
    """Call m through the stub; returns the response or the list of responses."""
    method = getattr(stub, m.py)
    if m.ss:
        return [r async for r in method(request, **kwargs)]
    return await method(request, **kwargs)


def expected(m, sent, n=0, extra=0):
    if not m.cs and not m.ss:
        return m.fn(sent, n)
    if not m.cs and m.ss:
        return [m.fn(sent, i) for i in range(n)]
    if m.cs and not m.ss:
        return m.fn(sent[-1] if sent else m.req(), len(sent))
    return [m.fn(r, i + 1) for i, r in enumerate(sent)] + [
        m.fn(m.req(), 100 + j) for j in range(extra)
    ]


async def check_roundtrips(channel):
    for m in METHODS:
        stub = getattr(m.module, f"{m.service}Stub")(channel)
        if not m.cs:
            for request in m.samples:
                for n in range(4):
                    plan.update(n=n, extra=0, error=None)
                    got = await invoke(stub, m, request)
                    assert got == expected(m, request, n=n), (m.py, request, n, got)
                    assert take(calls) == [(m.py, request)]
                    assert [s[0] for s in take(seen)] == [m.route]
        else:
            streams = [
                list(c)
                for k in range(4)
                for c in itertools.islice(itertools.permutations(m.samples, k), 4)
            ]
            streams.append([m.samples[0]] * 3)  # only all-default messages
            for sent in streams:
                for extra in (0, 2) if m.ss else (0,):
                    plan.update(n=0, extra=extra, error=None)
                    sources, fill_task = request_sources(sent)
                    for source in sources:
                        got = await invoke(stub, m, source)
                        assert got == expected(m, sent, extra=extra), (m.py, sent, got)
                        assert take(calls) == [(m.py, sent)], (m.py, sent)
                        assert [s[0] for s in take(seen)] == [m.route]
                    await fill_task


async def check_errors(channel, unimplemented_channel):
    # a method not overridden answers UNIMPLEMENTED
    for m in METHODS:
        stub = getattr(m.module, f"{m.service}Stub")(unimplemented_channel)
        for request in ([m.samples[:2], []] if m.cs else m.samples[:2]):
            try:
                await invoke(stub, m, request)
            except grpclib.GRPCError as e:
                assert e.status is Status.UNIMPLEMENTED, (m.py, e)
            else:
                raise AssertionError(f"{m.py}: expected UNIMPLEMENTED")
        assert take(calls) == []
        take(seen)

    # the handler's GRPCError reaches the caller
    for m in METHODS:
        stub = getattr(m.module, f"{m.service}Stub")(channel)
        for status, message in [
            (Status.NOT_FOUND, "nope"),
            (Status.PERMISSION_DENIED, None),
            (Status.UNIMPLEMENTED, "really"),
            (Status.DATA_LOSS, "x" * 200),
        ]:
            plan.update(n=0, extra=0, error=grpclib.GRPCError(status, message))
            request = m.samples[:2] if m.cs else m.samples[-1]
            try:
                await invoke(stub, m, request)
            except grpclib.GRPCError as e:
                assert e.status is status, (m.py, e)
                assert e.message == message, (m.py, e)
            else:
                raise AssertionError(f"{m.py}: expected {status}")
            assert take(calls) == [(m.py, request)]
            take(seen)
    plan.update(error=None)


def in_band(remaining, seconds):
    return remaining is not None and seconds * 0.5 < remaining <= seconds


async def check_call_options(channel):
    """Every combination of stub-level / call-level timeout, deadline, metadata."""
    timeouts = {None: None, "small": 40.0, "big": 4000.0}
    deadlines = {None: None, "small": 400.0, "big": 40000.0}
    metadatas = {
        None: None,
        "dict": {"x-level": "dict", "x-a": "1"},
        "list": [("x-level", "list"), ("x-b", "2")],
        "empty": {},
        "emptylist": [],
    }
    # one method per cardinality
    methods = [m for m in METHODS if m.service == "Matrix"]
    assert sorted(m.helper for m in methods) == sorted(
        ["_unary_unary", "_unary_stream", "_stream_unary", "_stream_stream"]
    )
    combos = list(
        itertools.product(
            timeouts, [None, "small"], deadlines, [None, "big"], metadatas, metadatas
        )
    )
    for idx, (st, ct, sd, cd, sm, cm) in enumerate(combos):
        m = methods[idx % 4]
        # every (combo, cardinality) pair is covered for the metadata-only and
        # timeout/deadline-only sub-grids below; here we rotate to bound run time
        await one_option_case(channel, m, timeouts, deadlines, metadatas, st, ct, sd, cd, sm, cm)
    for m in methods:
        for st, ct, sd, cd in itertools.product(timeouts, timeouts, deadlines, deadlines):
            await one_option_case(channel, m, timeouts, deadlines, metadatas, st, ct, sd, cd, None, None)
        for sm, cm in itertools.product(metadatas, metadatas):
            await one_option_case(channel, m, timeouts, deadlines, metadatas, None, None, None, None, sm, cm)


async def one_option_case(channel, m, timeouts, deadlines, metadatas, st, ct, sd, cd, sm, cm):
    def mk_deadline(key):
        return None if key is None else Deadline.from_timeout(deadlines[key])

    def mk_metadata(key):
        value = metadatas[key]
        return None if value is None else type(value)(value)

    stub = getattr(m.module, f"{m.service}Stub")(
        channel,
        timeout=timeouts[st],
        deadline=mk_deadline(sd),
        metadata=mk_metadata(sm),
    )
    plan.update(n=2, extra=0, error=None)
    request = m.samples[1:3] if m.cs else m.samples[1]
    got = await invoke(
        stub,
        m,
        request,
        timeout=timeouts[ct],
        deadline=mk_deadline(cd),
        metadata=mk_metadata(cm),
    )
    assert got == expected(m, request, n=2), (m.py, got)
    assert take(calls) == [(m.py, request)]
    [(route, metadata, remaining)] = take(seen)
    assert route == m.route
    case = (m.py, st, ct, sd, cd, sm, cm)

    # metadata: call-level wins whenever it is not None (even when empty)
    effective_md = metadatas[cm if cm is not None else sm]
    custom = {k: v for k, v in metadata.items() if k.startswith("x-")}
    assert custom == dict(effective_md or {}), (case, custom)

    # timeout / deadline: call-level wins whenever it is not None; grpclib then
    # applies the sooner of the effective timeout and the effective deadline
    eff_timeout = timeouts[ct if ct is not None else st]
    eff_deadline = deadlines[cd if cd is not None else sd]
    limits = [x for x in (eff_timeout, eff_deadline) if x is not None]
    if not limits:
        assert remaining is None, (case, remaining)
    else:
        assert in_band(remaining, min(limits)), (case, remaining, min(limits))


async def main():
    check_structure()
    services = [make_service(mod, name, ms) for (mod, name), ms in SERVICES.items()]
    services.append(make_service(svc, "Nothing", []))
    bare = [
        make_service(mod, name, ms, implemented=False)
        for (mod, name), ms in SERVICES.items()
    ]
    async with ChannelFor(services) as channel, ChannelFor(bare) as bare_channel:
        await check_roundtrips(channel)
        await check_errors(channel, bare_channel)
        await check_call_options(channel)


asyncio.run(main())
print("OK")
