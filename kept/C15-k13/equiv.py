"""C15 keep1: the decode path under every Timestamp / Duration field
(load_varint, load_fields, the signed-varint conversion in _postprocess_single)
must behave exactly as specified.  Passes on the pristine tree and with the refactor.
"""
import io
import random
from dataclasses import dataclass
from datetime import datetime, timedelta, timezone
from typing import Dict, List, Optional

from google.protobuf import duration_pb2, timestamp_pb2

import betterproto
from betterproto import (
    ParsedField,
    decode_varint,
    encode_varint,
    load_fields,
    load_varint,
    parse_fields,
)

UTC = timezone.utc
EPOCH = datetime(1970, 1, 1, tzinfo=UTC)
US = timedelta(microseconds=1)


class Colour(betterproto.Enum):
    ZERO = 0
    ONE = 1
    NEG = -1
    MIN = -(2**31)


@dataclass(eq=False, repr=False)
class Holder(betterproto.Message):
    ts: datetime = betterproto.message_field(1)
    dur: timedelta = betterproto.message_field(2)
    many_ts: List[datetime] = betterproto.message_field(3)
    many_dur: List[timedelta] = betterproto.message_field(4)
    ts_map: Dict[str, datetime] = betterproto.map_field(
        5, betterproto.TYPE_STRING, betterproto.TYPE_MESSAGE
    )
    opt_ts: Optional[datetime] = betterproto.message_field(6, optional=True)
    opt_dur: Optional[timedelta] = betterproto.message_field(7, optional=True)


@dataclass(eq=False, repr=False)
class Ints(betterproto.Message):
    i32: int = betterproto.int32_field(1)
    i64: int = betterproto.int64_field(2)
    u32: int = betterproto.uint32_field(3)
    u64: int = betterproto.uint64_field(4)
    s32: int = betterproto.sint32_field(5)
    s64: int = betterproto.sint64_field(6)
    flag: bool = betterproto.bool_field(7)
    colour: Colour = betterproto.enum_field(8)
    f32: int = betterproto.fixed32_field(9)
    f64: int = betterproto.fixed64_field(10)
    text: str = betterproto.string_field(11)
    packed: List[int] = betterproto.int32_field(12)


def varint(n):
    """Independent canonical varint encoder for a non-negative integer."""
    out = bytearray()
    while True:
        low = n & 0x7F
        n >>= 7
        if n:
            out.append(low | 0x80)
        else:
            out.append(low)
            return bytes(out)


def ref_ts_bytes(seconds, nanos):
    return timestamp_pb2.Timestamp(seconds=seconds, nanos=nanos).SerializeToString()


def ref_dur_bytes(seconds, nanos):
    return duration_pb2.Duration(seconds=seconds, nanos=nanos).SerializeToString()


def field(number, payload):
    return varint(number << 3 | 2) + varint(len(payload)) + payload


# --------------------------------------------------------------------------- load_varint
rng = random.Random(1501)
values = [0, 1, 127, 128, 255, 300, 16383, 16384, 2**31 - 1, 2**31, 2**32 - 1, 2**32]
values += [2**53, 2**63 - 1, 2**63, 2**64 - 1, 2**64 - 2, 62135596800, 253402300799]
values += [2**64 - 62135596800, 2**64 - 1000, 2**64 - 999999000, 999999000]
values += [rng.getrandbits(rng.randrange(1, 65)) for _ in range(3000)]
for n in values:
    enc = varint(n)
    assert encode_varint(n) == enc
    got, raw = load_varint(io.BytesIO(enc + b"\xff\x01"))
    assert (got, raw) == (n, enc) and type(raw) is bytes, (n, got, raw)
    # the caller may already have consumed the first byte
    stream = io.BytesIO(enc[1:] + b"tail")
    got, raw = load_varint(stream, enc[:1])
    assert (got, raw) == (n, enc), (n, got, raw)
    assert stream.read() == b"tail"
    assert decode_varint(b"\x00" * 3 + enc + b"\x05", 3) == (n, 3 + len(enc))

# non-canonical (over-long) encodings are still read, up to ten bytes
assert load_varint(io.BytesIO(b"\x80\x00")) == (0, b"\x80\x00")
assert load_varint(io.BytesIO(b"\x81\x80\x80\x00X")) == (1, b"\x81\x80\x80\x00")
ten = b"\xff" * 9 + b"\x7f"
assert load_varint(io.BytesIO(ten)) == ((1 << 70) - 1, ten)  # bits above 64 are kept here
for bad in (b"\x80" * 10 + b"\x00", b"\xff" * 11, b"\x80" * 10):
    try:
        load_varint(io.BytesIO(bad))
    except ValueError as exc:
        assert "Too many bytes" in str(exc)
    else:
        raise AssertionError(bad)
for short in (b"", b"\x80", b"\xff\xff", b"\x80" * 9):
    try:
        load_varint(io.BytesIO(short))
    except EOFError:
        pass
    else:
        raise AssertionError(short)
try:
    load_varint(io.BytesIO(b""), b"\x80")
except EOFError:
    pass
else:
    raise AssertionError("truncated after first")

# --------------------------------------------------------------------------- load_fields
payloads = [
    (1, 0, varint(0), 0),
    (1, 0, varint(2**64 - 5), 2**64 - 5),
    (2, 1, b"\x01\x02\x03\x04\x05\x06\x07\x08", b"\x01\x02\x03\x04\x05\x06\x07\x08"),
    (3, 5, b"\xaa\xbb\xcc\xdd", b"\xaa\xbb\xcc\xdd"),
    (4, 2, varint(0), b""),
    (5, 2, varint(3) + b"abc", b"abc"),
    (2**29 - 1, 2, varint(200) + b"z" * 200, b"z" * 200),
    (16, 0, b"\x80\x00", 0),
    (100, 2, b"\x82\x00" + b"hi", b"hi"),
]
blob = b""
expected = []
for number, wire_type, body, value in payloads:
    tag = varint(number << 3 | wire_type)
    blob += tag + body
    expected.append((number, wire_type, value, tag + body))
for reader in (lambda b: load_fields(io.BytesIO(b)), parse_fields):
    got = list(reader(blob))
    assert all(isinstance(f, ParsedField) for f in got)
    assert [(f.number, f.wire_type, f.value, f.raw) for f in got] == expected
    assert all(type(f.raw) is bytes for f in got)
assert list(load_fields(io.BytesIO(b""))) == []
# laziness: a field is delivered before the next one is looked at
stream = io.BytesIO(b"\x08\x01" + b"\x0b")
gen = load_fields(stream)
first = next(gen)
assert (first.number, first.wire_type, first.value, first.raw) == (1, 0, 1, b"\x08\x01")
assert stream.tell() == 2
try:
    next(gen)
except ValueError as exc:
    assert str(exc) == "Unsupported wire type 3 in field 1."
else:
    raise AssertionError("group wire type accepted")
for wt in (3, 4, 6, 7):
    try:
        list(load_fields(io.BytesIO(varint(9 << 3 | wt) + b"\x00" * 8)))
    except ValueError as exc:
        assert str(exc) == f"Unsupported wire type {wt} in field 9."
    else:
        raise AssertionError(wt)
for wt in range(8):
    try:
        list(load_fields(io.BytesIO(varint(wt) + b"\x00" * 8)))
    except ValueError as exc:
        assert str(exc) == "Invalid field number 0."
    else:
        raise AssertionError(wt)
for truncated in (
    b"\x08",  # varint value missing
    b"\x08\x80",  # varint value cut
    b"\x09\x01\x02\x03",  # fixed64 cut
    b"\x0d\x01\x02\x03",  # fixed32 cut
    b"\x0a",  # length missing
    b"\x0a\x05abcd",  # payload cut
    b"\x88",  # tag cut
):
    try:
        list(load_fields(io.BytesIO(truncated)))
    except EOFError:
        pass
    else:
        raise AssertionError(truncated)

# ----------------------------------------------------- signed conversion of varint fields
M64 = 2**64
for bits, name in ((32, "i32"), (64, "i64")):
    lo, hi = -(2 ** (bits - 1)), 2 ** (bits - 1) - 1
    cases = [0, 1, -1, lo, hi, lo + 1, hi - 1, 127, 128, -128, -129, 999999000, -999999000]
    cases += [rng.randrange(lo, hi + 1) for _ in range(1500)]
    number = 1 if bits == 32 else 2
    for n in cases:
        canonical = varint(number << 3) + varint(n % M64)  # sign-extended to 64 bits
        assert bytes(Ints(**{name: n})) == (canonical if n else b"")
        assert getattr(Ints().parse(canonical), name) == n
        assert type(getattr(Ints().parse(canonical), name)) is int
        if bits == 32:
            # a 32-bit two's complement varint (as some encoders write) reads the same
            short = varint(number << 3) + varint(n % 2**32)
            assert Ints().parse(short).i32 == n
            # bits above the 32nd are ignored for int32
            junk = varint(number << 3) + varint((n % 2**32) | (rng.getrandbits(31) << 32))
            assert Ints().parse(junk).i32 == n
# enum numbers are int32 values
for member in Colour:
    data = varint(8 << 3) + varint(int(member) % M64)
    parsed = Ints().parse(data).colour
    assert parsed is member and int(parsed) == int(member), (member, parsed)
    assert Ints().parse(varint(8 << 3) + varint(int(member) % 2**32)).colour is member
unknown = Ints().parse(varint(8 << 3) + varint(-77 % M64)).colour
assert int(unknown) == -77
# the other varint kinds are untouched by the signed conversion
for n in (0, 1, 2**31, 2**32 - 1):
    assert Ints().parse(varint(3 << 3) + varint(n)).u32 == n
for n in (0, 1, 2**63, 2**64 - 1):
    assert Ints().parse(varint(4 << 3) + varint(n)).u64 == n
for n in (0, 1, -1, 2**31 - 1, -(2**31)):
    assert Ints().parse(varint(5 << 3) + varint((n << 1) ^ (n >> 31))).s32 == n
for n in (0, 1, -1, 2**63 - 1, -(2**63)):
    assert Ints().parse(varint(6 << 3) + varint(((n << 1) ^ (n >> 63)) % M64)).s64 == n
assert Ints().parse(b"\x38\x01").flag is True and Ints().parse(b"\x38\x00").flag is False
assert Ints().parse(b"\x38\x02").flag is True
assert Ints().parse(b"\x4d\x01\x00\x00\x80").f32 == 0x80000001
assert Ints().parse(b"\x51" + b"\xff" * 8).f64 == 2**64 - 1
assert Ints().parse(b"\x5a\x02hi").text == "hi"
packed = b"".join(varint(n % M64) for n in (1, -1, -(2**31), 2**31 - 1, 0))
assert Ints().parse(b"\x62" + varint(len(packed)) + packed).packed == [
    1, -1, -(2**31), 2**31 - 1, 0,
]
msg = Ints(i32=-5, i64=-6, s32=-7, s64=-8, flag=True, colour=Colour.NEG, text="x")
again = Ints().parse(bytes(msg))
assert (again.i32, again.i64, again.s32, again.s64, again.flag, again.colour, again.text) == (
    -5, -6, -7, -8, True, Colour.NEG, "x",
)

# --------------------------------------------- Timestamp / Duration written by the reference
MIN_TS, MAX_TS = -62135596800, 253402300799
MAX_DUR = 315576000000
ts_pairs = [
    (0, 0), (0, 1000), (0, 999999000), (-1, 999999000), (-1, 0), (1, 0), (-1, 1000),
    (MIN_TS, 0), (MIN_TS, 1000), (MAX_TS, 999999000), (MAX_TS, 0), (2**31, 0), (-(2**31) - 1, 5000),
    (2**53 // 10**6, 740993000), (-(2**53 // 10**6) - 1, 259007000), (127, 127000), (128, 128000),
]
ts_pairs += [(rng.randrange(MIN_TS, MAX_TS + 1), rng.randrange(10**6) * 1000) for _ in range(4000)]
for seconds, nanos in ts_pairs:
    want = EPOCH + timedelta(seconds=seconds) + (nanos // 1000) * US
    payload = ref_ts_bytes(seconds, nanos)
    for data in (field(1, payload), field(6, payload), field(3, payload)):
        msg = Holder().parse(data)
        got = msg.ts if data[0] == 0x0A else (msg.opt_ts if data[0] == 0x32 else msg.many_ts[0])
        assert got == want and got.utcoffset() == timedelta(0), (seconds, nanos, got, want)
        assert got.microsecond == nanos // 1000
    entry = field(1, b"k") + field(2, payload)
    assert Holder().parse(field(5, entry)).ts_map == {"k": want}
    # the bytes betterproto writes for that datetime are the reference's bytes
    assert bytes(Holder(ts=want)) == (field(1, payload) if payload else b"")

dur_pairs = [
    (0, 0), (0, 1000), (0, -1000), (0, 999999000), (0, -999999000), (1, 0), (-1, 0),
    (-1, -500000000), (1, 500000000), (MAX_DUR, 0), (-MAX_DUR, 0), (MAX_DUR - 1, 999999000),
    (-MAX_DUR + 1, -999999000), (2**53 // 10**6, 740993000), (-(2**53 // 10**6), -740993000),
    (2**31, 1000), (-(2**31) - 1, -1000), (-3, -1000), (-2, -999999000),
]
for _ in range(4000):
    s = rng.randrange(0, MAX_DUR)
    n = rng.randrange(10**6) * 1000
    dur_pairs.append((s, n) if rng.random() < 0.5 else (-s, -n))
for seconds, nanos in dur_pairs:
    want = (seconds * 10**6 + (abs(nanos) // 1000) * (1 if nanos >= 0 else -1)) * US
    payload = ref_dur_bytes(seconds, nanos)
    for data in (field(2, payload), field(7, payload), field(4, payload)):
        msg = Holder().parse(data)
        got = msg.dur if data[0] == 0x12 else (msg.opt_dur if data[0] == 0x3A else msg.many_dur[0])
        assert got == want and type(got) is timedelta, (seconds, nanos, got, want)
    assert bytes(Holder(dur=want)) == (field(2, payload) if payload else b"")

# nanos written first, or as a 32-bit two's complement varint, read the same
assert Holder().parse(field(1, b"\x10\xe8\x07\x08\x05")).ts == EPOCH + timedelta(seconds=5, microseconds=1)
assert Holder().parse(field(2, b"\x08" + varint(-3 % M64) + b"\x10" + varint(-1000 % 2**32))).dur == (
    timedelta(seconds=-3, microseconds=-1)
)

# a whole message, plain and as a size-delimited stream
full = Holder(
    ts=datetime(1969, 12, 31, 23, 59, 59, 999999, tzinfo=UTC),
    dur=timedelta(microseconds=-1),
    many_ts=[EPOCH, datetime(1, 1, 1, tzinfo=UTC), datetime(9999, 12, 31, 23, 59, 59, 999999, tzinfo=UTC)],
    many_dur=[timedelta(0), timedelta(seconds=-MAX_DUR), timedelta(seconds=MAX_DUR)],
    ts_map={"a": datetime(2024, 2, 29, 12, 0, 0, 1, tzinfo=UTC), "": EPOCH},
    opt_ts=EPOCH,
    opt_dur=timedelta(0),
)
data = bytes(full)
for back in (
    Holder().parse(data),
    Holder().load(io.BytesIO(data)),
    Holder().load(io.BytesIO(data), len(data)),
    Holder().load(io.BytesIO(varint(len(data)) + data + b"\x08"), betterproto.SIZE_DELIMITED),
):
    assert back.ts == full.ts and back.dur == full.dur
    assert back.many_ts == full.many_ts and back.many_dur == full.many_dur
    assert back.ts_map == full.ts_map
    assert back.opt_ts == EPOCH and back.opt_dur == timedelta(0)
    assert bytes(back) == data
stream = io.BytesIO()
for _ in range(3):
    full.dump(stream, betterproto.SIZE_DELIMITED)
stream.seek(0)
for _ in range(3):
    assert bytes(Holder().load(stream, betterproto.SIZE_DELIMITED)) == data
assert stream.read() == b""

# unknown fields inside and around a Timestamp are skipped and kept
noisy = field(1, b"\x08\x05" + b"\x9d\x06\x01\x02\x03\x04" + b"\x10\xe8\x07") + b"\xc0\x3e\x01"
parsed = Holder().parse(noisy)
assert parsed.ts == EPOCH + timedelta(seconds=5, microseconds=1)
assert bytes(parsed) == field(1, b"\x08\x05\x10\xe8\x07") + b"\xc0\x3e\x01"

print("C15 keep1 equiv: ok")
