"""C02 keep2: repeated and map fields on the wire.

For every scalar kind (packed), for strings / bytes / messages / wrappers / timestamps
(one record per element) and for maps of many key and value kinds this checks
  * the exact bytes against an independent encoder written from the encoding spec,
  * that google.protobuf reads those bytes as the same values and that betterproto reads
    the reference's bytes as the same values,
  * len(m) == len(bytes(m)) and the size prefix of a delimited dump,
  * that dump hands the records to the stream one write per record, in order, and that
    an element that cannot be encoded stops the dump after the records before it.
"""
import io
import random
import struct
from dataclasses import dataclass
from datetime import datetime, timedelta, timezone
from typing import Dict, List, Optional

import betterproto
from betterproto import Message
from google.protobuf import descriptor_pb2, descriptor_pool, message_factory
from google.protobuf import duration_pb2, timestamp_pb2, wrappers_pb2  # noqa: F401

F = descriptor_pb2.FieldDescriptorProto
rnd = random.Random(2202)
UTC = timezone.utc


# ------------------------------------------------------------------ spec-level encoder
def varint(n: int) -> bytes:
    assert -(2**63) <= n < 2**64
    n &= (1 << 64) - 1
    out = bytearray()
    while True:
        b = n & 0x7F
        n >>= 7
        if n:
            out.append(b | 0x80)
        else:
            out.append(b)
            return bytes(out)


def zigzag(n: int) -> int:
    return (n << 1) ^ (n >> 63)


FIXED = {"float": "<f", "double": "<d", "fixed32": "<I", "sfixed32": "<i", "fixed64": "<Q", "sfixed64": "<q"}
VARINT = {"int32", "int64", "uint32", "uint64", "bool", "enum"}


def scalar(kind: str, v) -> bytes:
    if kind in VARINT:
        return varint(int(v))
    if kind in ("sint32", "sint64"):
        return varint(zigzag(v))
    if kind in FIXED:
        return struct.pack(FIXED[kind], v)
    raise AssertionError(kind)


def wire_type(kind: str) -> int:
    if kind in VARINT or kind in ("sint32", "sint64"):
        return 0
    if kind in ("double", "fixed64", "sfixed64"):
        return 1
    if kind in ("float", "fixed32", "sfixed32"):
        return 5
    return 2


def tag(number: int, wt: int) -> bytes:
    return varint((number << 3) | wt)


def ld(number: int, payload: bytes) -> bytes:
    return tag(number, 2) + varint(len(payload)) + payload


def single(number: int, kind: str, v, always=True) -> bytes:
    """One record; zero-length length-delimited values are left out unless `always`."""
    if wire_type(kind) != 2:
        return tag(number, wire_type(kind)) + scalar(kind, v)
    payload = v.encode("utf-8") if kind == "string" else bytes(v)
    if not payload and not always:
        return b""
    return ld(number, payload)


# ------------------------------------------------------------------ schemas
class Hue(betterproto.Enum):
    NONE = 0
    WARM = 1
    COLD = -2
    MAX = 2**31 - 1


@dataclass(eq=False, repr=False)
class Item(Message):
    id: int = betterproto.int64_field(1)
    tag: str = betterproto.string_field(2)
    sub: List[int] = betterproto.sint32_field(3)


SCALARS = [
    ("int32", 1), ("int64", 2), ("uint32", 3), ("uint64", 4), ("sint32", 5), ("sint64", 6), ("bool", 7),
    ("enum", 8), ("float", 9), ("double", 10), ("fixed32", 11), ("sfixed32", 12), ("fixed64", 13), ("sfixed64", 14),
]


@dataclass(eq=False, repr=False)
class Lists(Message):
    r_int32: List[int] = betterproto.int32_field(1)
    r_int64: List[int] = betterproto.int64_field(2)
    r_uint32: List[int] = betterproto.uint32_field(3)
    r_uint64: List[int] = betterproto.uint64_field(4)
    r_sint32: List[int] = betterproto.sint32_field(5)
    r_sint64: List[int] = betterproto.sint64_field(6)
    r_bool: List[bool] = betterproto.bool_field(7)
    r_enum: List["Hue"] = betterproto.enum_field(8)
    r_float: List[float] = betterproto.float_field(9)
    r_double: List[float] = betterproto.double_field(10)
    r_fixed32: List[int] = betterproto.fixed32_field(11)
    r_sfixed32: List[int] = betterproto.sfixed32_field(12)
    r_fixed64: List[int] = betterproto.fixed64_field(13)
    r_sfixed64: List[int] = betterproto.sfixed64_field(14)
    r_string: List[str] = betterproto.string_field(15)
    r_bytes: List[bytes] = betterproto.bytes_field(16)
    r_item: List["Item"] = betterproto.message_field(17)
    r_ts: List[datetime] = betterproto.message_field(18)
    r_dur: List[timedelta] = betterproto.message_field(19)
    r_wrap: List[Optional[int]] = betterproto.message_field(20, wraps=betterproto.TYPE_INT32)
    r_wstr: List[Optional[str]] = betterproto.message_field(2000, wraps=betterproto.TYPE_STRING)
    tail: str = betterproto.string_field(21)


MAPS = [  # name, number, key kind, value kind
    ("m_str_str", 1, "string", "string"),
    ("m_i32_i64", 2, "int32", "int64"),
    ("m_s64_s32", 3, "sint64", "sint32"),
    ("m_u64_bool", 4, "uint64", "bool"),
    ("m_bool_bytes", 5, "bool", "bytes"),
    ("m_f32_dbl", 6, "fixed32", "double"),
    ("m_sf64_flt", 7, "sfixed64", "float"),
    ("m_str_enum", 8, "string", "enum"),
    ("m_u32_item", 9, "uint32", "message"),
    ("m_str_f64", 300, "string", "fixed64"),
]


@dataclass(eq=False, repr=False)
class Maps(Message):
    m_str_str: Dict[str, str] = betterproto.map_field(1, "string", "string")
    m_i32_i64: Dict[int, int] = betterproto.map_field(2, "int32", "int64")
    m_s64_s32: Dict[int, int] = betterproto.map_field(3, "sint64", "sint32")
    m_u64_bool: Dict[int, bool] = betterproto.map_field(4, "uint64", "bool")
    m_bool_bytes: Dict[bool, bytes] = betterproto.map_field(5, "bool", "bytes")
    m_f32_dbl: Dict[int, float] = betterproto.map_field(6, "fixed32", "double")
    m_sf64_flt: Dict[int, float] = betterproto.map_field(7, "sfixed64", "float")
    m_str_enum: Dict[str, "Hue"] = betterproto.map_field(8, "string", "enum")
    m_u32_item: Dict[int, "Item"] = betterproto.map_field(9, "uint32", "message")
    m_str_f64: Dict[str, int] = betterproto.map_field(300, "string", "fixed64")
    lead: int = betterproto.int32_field(400)


PB = {"int32": F.TYPE_INT32, "int64": F.TYPE_INT64, "uint32": F.TYPE_UINT32, "uint64": F.TYPE_UINT64,
      "sint32": F.TYPE_SINT32, "sint64": F.TYPE_SINT64, "bool": F.TYPE_BOOL, "enum": F.TYPE_ENUM,
      "float": F.TYPE_FLOAT, "double": F.TYPE_DOUBLE, "fixed32": F.TYPE_FIXED32, "sfixed32": F.TYPE_SFIXED32,
      "fixed64": F.TYPE_FIXED64, "sfixed64": F.TYPE_SFIXED64, "string": F.TYPE_STRING, "bytes": F.TYPE_BYTES,
      "message": F.TYPE_MESSAGE}

fdp = descriptor_pb2.FileDescriptorProto(
    name="c02_keep2.proto", package="k2", syntax="proto3",
    dependency=["google/protobuf/timestamp.proto", "google/protobuf/duration.proto", "google/protobuf/wrappers.proto"],
)
en = fdp.enum_type.add(name="Hue")
for n, v in (("NONE", 0), ("WARM", 1), ("COLD", -2), ("MAX", 2**31 - 1)):
    en.value.add(name=n, number=v)
it = fdp.message_type.add(name="Item")
it.field.add(name="id", number=1, type=F.TYPE_INT64, label=F.LABEL_OPTIONAL)
it.field.add(name="tag", number=2, type=F.TYPE_STRING, label=F.LABEL_OPTIONAL)
it.field.add(name="sub", number=3, type=F.TYPE_SINT32, label=F.LABEL_REPEATED)
ls = fdp.message_type.add(name="Lists")
for kind, number in SCALARS:
    f = ls.field.add(name="r_" + kind, number=number, type=PB[kind], label=F.LABEL_REPEATED)
    if kind == "enum":
        f.type_name = ".k2.Hue"
ls.field.add(name="r_string", number=15, type=F.TYPE_STRING, label=F.LABEL_REPEATED)
ls.field.add(name="r_bytes", number=16, type=F.TYPE_BYTES, label=F.LABEL_REPEATED)
ls.field.add(name="r_item", number=17, type=F.TYPE_MESSAGE, type_name=".k2.Item", label=F.LABEL_REPEATED)
ls.field.add(name="r_ts", number=18, type=F.TYPE_MESSAGE, type_name=".google.protobuf.Timestamp", label=F.LABEL_REPEATED)
ls.field.add(name="r_dur", number=19, type=F.TYPE_MESSAGE, type_name=".google.protobuf.Duration", label=F.LABEL_REPEATED)
ls.field.add(name="r_wrap", number=20, type=F.TYPE_MESSAGE, type_name=".google.protobuf.Int32Value", label=F.LABEL_REPEATED)
ls.field.add(name="r_wstr", number=2000, type=F.TYPE_MESSAGE, type_name=".google.protobuf.StringValue", label=F.LABEL_REPEATED)
ls.field.add(name="tail", number=21, type=F.TYPE_STRING, label=F.LABEL_OPTIONAL)
mp = fdp.message_type.add(name="Maps")
for name, number, kk, vk in MAPS:
    ename = "".join(p.capitalize() for p in name.split("_")) + "Entry"
    e = mp.nested_type.add(name=ename)
    e.options.map_entry = True
    e.field.add(name="key", number=1, type=PB[kk], label=F.LABEL_OPTIONAL)
    v = e.field.add(name="value", number=2, type=PB[vk], label=F.LABEL_OPTIONAL)
    if vk == "enum":
        v.type_name = ".k2.Hue"
    if vk == "message":
        v.type_name = ".k2.Item"
    mp.field.add(name=name, number=number, type=F.TYPE_MESSAGE, type_name=".k2.Maps." + ename, label=F.LABEL_REPEATED)
mp.field.add(name="lead", number=400, type=F.TYPE_INT32, label=F.LABEL_OPTIONAL)

pool = descriptor_pool.Default()
pool.Add(fdp)
RLists = message_factory.GetMessageClass(pool.FindMessageTypeByName("k2.Lists"))
RMaps = message_factory.GetMessageClass(pool.FindMessageTypeByName("k2.Maps"))


# ------------------------------------------------------------------ values
def f32(x):
    return struct.unpack("<f", struct.pack("<f", x))[0]


EDGE = {
    "int32": [0, 1, -1, 127, 128, 2**31 - 1, -(2**31), 16384],
    "int64": [0, 1, -1, 2**63 - 1, -(2**63), 2**35, -(2**35)],
    "uint32": [0, 1, 127, 128, 2**32 - 1, 2**31],
    "uint64": [0, 1, 2**64 - 1, 2**63, 2**56 - 1],
    "sint32": [0, 1, -1, 63, -64, 64, 2**31 - 1, -(2**31)],
    "sint64": [0, 1, -1, 2**63 - 1, -(2**63), 2**40, -(2**40)],
    "bool": [True, False],
    "enum": [0, 1, -2, 2**31 - 1, 9, -77],
    "float": [0.0, -0.0, 1.5, f32(3.14), f32(-1e-40), float("inf"), float("-inf"), f32(3.4e38)],
    "double": [0.0, -0.0, 1.5, 3.14, 5e-324, -1.7e308, float("inf")],
    "fixed32": [0, 1, 2**32 - 1, 2**31],
    "sfixed32": [0, 1, -1, 2**31 - 1, -(2**31)],
    "fixed64": [0, 1, 2**64 - 1, 2**63],
    "sfixed64": [0, 1, -1, 2**63 - 1, -(2**63)],
    "string": ["", "a", "héllo", "日本語", "\x00", "y" * 130, "😀"],
    "bytes": [b"", b"\x00", b"\xff\xfe", bytes(range(200))],
}


def pick(kind):
    return rnd.choice(EDGE[kind])


def pick_list(kind):
    return [pick(kind) for _ in range(rnd.choice([1, 1, 2, 3, 7, 40]))]


def pick_item():
    kw = {}
    if rnd.random() < 0.7:
        kw["id"] = pick("int64")
    if rnd.random() < 0.5:
        kw["tag"] = pick("string")
    if rnd.random() < 0.5:
        kw["sub"] = pick_list("sint32")
    return kw


def pick_dt():
    return datetime(1970, 1, 1, tzinfo=UTC) + timedelta(
        seconds=rnd.choice([0, 1, -1, 1700000000, -62135596800, 253402300799]),
        microseconds=rnd.choice([0, 1, 500000, 999999]))


def pick_td():
    return rnd.choice([1, -1]) * timedelta(seconds=rnd.choice([0, 1, 59, 10**9]), microseconds=rnd.choice([0, 1, 999999]))


def enc_item(kw) -> bytes:
    out = b""
    if kw.get("id"):
        out += single(1, "int64", kw["id"])
    if kw.get("tag"):
        out += single(2, "string", kw["tag"])
    if kw.get("sub"):
        out += ld(3, b"".join(scalar("sint32", x) for x in kw["sub"]))
    return out


def enc_ts(dt) -> bytes:
    off = dt - datetime(1970, 1, 1, tzinfo=UTC)
    secs, nanos = off.days * 86400 + off.seconds, off.microseconds * 1000
    return (single(1, "int64", secs) if secs else b"") + (single(2, "int32", nanos) if nanos else b"")


def enc_dur(td) -> bytes:
    us = td // timedelta(microseconds=1)
    sign = -1 if us < 0 else 1
    secs, rest = divmod(abs(us), 10**6)
    secs, nanos = sign * secs, sign * rest * 1000
    return (single(1, "int64", secs) if secs else b"") + (single(2, "int32", nanos) if nanos else b"")


def same_float(a, b):
    return struct.pack("<d", a) == struct.pack("<d", b)


def same_list(kind, a, b):
    if kind in ("float", "double"):
        return len(a) == len(b) and all(same_float(x, y) for x, y in zip(a, b))
    return [int(x) if kind == "enum" else x for x in a] == list(b)


class Recorder:
    def __init__(self):
        self.writes = []

    def write(self, data):
        assert isinstance(data, (bytes, bytearray))
        self.writes.append(bytes(data))


def check_len_and_stream(m, expected_records):
    data = bytes(m)
    assert len(m) == len(data), (len(m), len(data))
    rec = Recorder()
    m.dump(rec)
    writes = [w for w in rec.writes if w]
    assert b"".join(writes) == data
    assert writes == [r for r in expected_records if r], (writes, expected_records)
    buf = io.BytesIO()
    m.dump(buf, betterproto.SIZE_DELIMITED)
    assert buf.getvalue() == varint(len(data)) + data
    return data


# ------------------------------------------------------------------ repeated fields
checked = 0
for round_ in range(250):
    spec = {}
    for kind, number in SCALARS:
        if rnd.random() < 0.4:
            spec["r_" + kind] = pick_list(kind)
    if rnd.random() < 0.5:
        spec["r_string"] = pick_list("string")
    if rnd.random() < 0.5:
        spec["r_bytes"] = pick_list("bytes")
    if rnd.random() < 0.5:
        spec["r_item"] = [pick_item() for _ in range(rnd.randrange(1, 5))]
    if rnd.random() < 0.4:
        spec["r_ts"] = [pick_dt() for _ in range(rnd.randrange(1, 4))]
    if rnd.random() < 0.4:
        spec["r_dur"] = [pick_td() for _ in range(rnd.randrange(1, 4))]
    if rnd.random() < 0.4:
        spec["r_wrap"] = pick_list("int32")
    if rnd.random() < 0.4:
        spec["r_wstr"] = pick_list("string")
    if rnd.random() < 0.5:
        spec["tail"] = "end"

    kw = dict(spec)
    if "r_enum" in kw:
        kw["r_enum"] = [Hue.try_value(x) for x in kw["r_enum"]]
    if "r_item" in kw:
        kw["r_item"] = [Item(**x) for x in kw["r_item"]]
    m = Lists(**kw)

    # expected records, in declaration order
    records = []
    for kind, number in SCALARS:
        if "r_" + kind in spec:
            records.append(ld(number, b"".join(scalar(kind, x) for x in spec["r_" + kind])))
    records += [single(15, "string", x) for x in spec.get("r_string", [])]
    records += [single(16, "bytes", x) for x in spec.get("r_bytes", [])]
    records += [ld(17, enc_item(x)) for x in spec.get("r_item", [])]
    records += [ld(18, enc_ts(x)) for x in spec.get("r_ts", [])]
    records += [ld(19, enc_dur(x)) for x in spec.get("r_dur", [])]
    records += [ld(20, single(1, "int32", x) if x else b"") for x in spec.get("r_wrap", [])]
    wstr = [ld(2000, single(1, "string", x, always=False)) for x in spec.get("r_wstr", [])]
    tail = [single(21, "string", "end")] if "tail" in spec else []
    # r_wstr is declared before tail although its number is larger
    data = check_len_and_stream(m, records + wstr + tail)

    # betterproto -> reference
    ref = RLists.FromString(data)
    for kind, number in SCALARS:
        assert same_list(kind, spec.get("r_" + kind, []), getattr(ref, "r_" + kind)), (kind, spec)
    assert list(ref.r_string) == spec.get("r_string", []) and list(ref.r_bytes) == spec.get("r_bytes", [])
    assert [(x.id, x.tag, list(x.sub)) for x in ref.r_item] == [
        (x.get("id", 0), x.get("tag", ""), x.get("sub", [])) for x in spec.get("r_item", [])]
    assert [x.ToDatetime(tzinfo=UTC) for x in ref.r_ts] == spec.get("r_ts", [])
    assert [x.ToTimedelta() for x in ref.r_dur] == spec.get("r_dur", [])
    assert [x.value for x in ref.r_wrap] == spec.get("r_wrap", [])
    assert [x.value for x in ref.r_wstr] == spec.get("r_wstr", [])
    assert ref.tail == spec.get("tail", "")

    # reference -> betterproto (the reference writes fields in number order)
    back = Lists().parse(ref.SerializeToString())
    for kind, number in SCALARS:
        assert same_list(kind, getattr(back, "r_" + kind), getattr(ref, "r_" + kind)), kind
    assert back.r_string == list(ref.r_string) and back.r_bytes == list(ref.r_bytes)
    assert [(x.id, x.tag, x.sub) for x in back.r_item] == [(x.id, x.tag, list(x.sub)) for x in ref.r_item]
    assert back.r_ts == spec.get("r_ts", []) and back.r_dur == spec.get("r_dur", [])
    assert back.r_wrap == spec.get("r_wrap", []) and back.r_wstr == spec.get("r_wstr", [])
    assert back.tail == ref.tail
    assert len(back) == len(bytes(back))
    checked += 1

# single-element and long lists, every scalar kind on its own
for kind, number in SCALARS:
    for values in ([EDGE[kind][0]], EDGE[kind], EDGE[kind] * 50):
        m = Lists(**{"r_" + kind: [Hue.try_value(x) for x in values] if kind == "enum" else list(values)})
        data = check_len_and_stream(m, [ld(number, b"".join(scalar(kind, x) for x in values))])
        assert same_list(kind, values, getattr(RLists.FromString(data), "r_" + kind))
        checked += 1

# empty elements are elements
m = Lists(r_string=["", ""], r_bytes=[b""], r_item=[Item(), Item(id=0)], r_wrap=[0], r_wstr=[""])
data = check_len_and_stream(m, [b"\x7a\x00", b"\x7a\x00", b"\x82\x01\x00", b"\x8a\x01\x00", b"\x8a\x01\x00",
                                b"\xa2\x01\x00", b"\x82\x7d\x00"])
ref = RLists.FromString(data)
assert (list(ref.r_string), list(ref.r_bytes), len(ref.r_item), [x.value for x in ref.r_wrap], [x.value for x in ref.r_wstr]) == (
    ["", ""], [b""], 2, [0], [""])
assert bytes(Lists()) == b"" and len(Lists()) == 0 and bytes(Lists(r_int32=[], r_string=[])) == b""

# an element that cannot be encoded stops the dump after the records before it
for bad, done in (
    (Lists(r_int32=[1], r_string=["a", "b", 3, "c"]), [ld(1, b"\x01"), single(15, "string", "a"), single(15, "string", "b")]),
    (Lists(r_string=["a"], r_item=[Item(id=1), None]), [single(15, "string", "a"), ld(17, b"\x08\x01")]),
    (Lists(r_sint32=[1, "x"], tail="t"), []),
    (Lists(r_bytes=[b"k"], r_fixed32=[1, -1]), []),
):
    rec = Recorder()
    try:
        bad.dump(rec)
    except (AttributeError, TypeError, struct.error):
        pass
    else:
        raise AssertionError("dump accepted an element of the wrong kind")
    assert [w for w in rec.writes if w] == done, rec.writes
    try:
        len(bad)
    except (AttributeError, TypeError, struct.error):
        pass
    else:
        raise AssertionError("len accepted an element of the wrong kind")


# ------------------------------------------------------------------ maps
def enc_value(kind, v) -> bytes:
    if kind == "message":
        p = enc_item(v)
        return ld(2, p) if p else b""
    return single(2, kind, v, always=False)


for round_ in range(250):
    spec = {}
    for name, number, kk, vk in MAPS:
        if rnd.random() < 0.5:
            d = {}
            for _ in range(rnd.choice([1, 1, 2, 5])):
                d[pick(kk)] = pick_item() if vk == "message" else pick(vk)
            spec[name] = d
    lead = rnd.choice([0, 0, 5])
    kw = {}
    for name, number, kk, vk in MAPS:
        if name in spec:
            d = spec[name]
            if vk == "enum":
                d = {k: Hue.try_value(v) for k, v in d.items()}
            elif vk == "message":
                d = {k: Item(**v) for k, v in d.items()}
            kw[name] = dict(d)
    m = Maps(lead=lead, **kw)

    records = []
    for name, number, kk, vk in MAPS:
        for k, v in spec.get(name, {}).items():
            records.append(ld(number, single(1, kk, k, always=False) + enc_value(vk, v)))
    if lead:
        records.append(single(400, "int32", lead))
    data = check_len_and_stream(m, records)

    ref = RMaps.FromString(data)
    back = Maps().parse(ref.SerializeToString())
    for name, number, kk, vk in MAPS:
        want = spec.get(name, {})
        got_ref, got_bp = getattr(ref, name), getattr(back, name)
        assert set(got_ref) == set(want) == set(got_bp), (name, want)
        for k, v in want.items():
            if vk == "message":
                expect = (v.get("id", 0), v.get("tag", ""), v.get("sub", []))
                assert (got_ref[k].id, got_ref[k].tag, list(got_ref[k].sub)) == expect
                assert (got_bp[k].id, got_bp[k].tag, got_bp[k].sub) == expect
            elif vk in ("float", "double"):
                assert same_float(got_ref[k], v) and same_float(got_bp[k], v), (name, k, v)
            else:
                assert got_ref[k] == v and got_bp[k] == v and type(got_bp[k]) in (type(v), Hue), (name, k, v)
    assert ref.lead == lead == back.lead
    assert len(back) == len(bytes(back))
    checked += 1

# entries whose key and value are both the default are still entries
m = Maps(m_str_str={"": ""}, m_i32_i64={0: 0}, m_bool_bytes={False: b""}, m_u32_item={0: Item()}, m_str_f64={"": 0})
data = check_len_and_stream(m, [b"\x0a\x00", b"\x12\x04\x08\x00\x10\x00", b"\x2a\x02\x08\x00", b"\x4a\x02\x08\x00",
                                b"\xe2\x12\x09\x11" + bytes(8)])
ref = RMaps.FromString(data)
assert dict(ref.m_str_str) == {"": ""} and dict(ref.m_i32_i64) == {0: 0} and dict(ref.m_bool_bytes) == {False: b""}
assert list(ref.m_u32_item) == [0] and dict(ref.m_str_f64) == {"": 0}
assert bytes(Maps()) == b"" and bytes(Maps(m_str_str={})) == b"" and len(Maps(m_str_str={})) == 0

# a value that cannot be encoded stops the dump after the entries before it
bad = Maps(m_str_str={"a": "b", "c": 5, "d": "e"})
rec = Recorder()
try:
    bad.dump(rec)
except AttributeError:
    pass
else:
    raise AssertionError("dump accepted a map value of the wrong kind")
assert [w for w in rec.writes if w] == [ld(1, single(1, "string", "a") + single(2, "string", "b"))]
try:
    len(bad)
except AttributeError:
    pass
else:
    raise AssertionError("len accepted a map value of the wrong kind")

print("ok", checked)
