"""Equivalence check for the C10 keep1 refactor (writer side: Message.dump emission
branches and the packed / map payload helpers shared with Message.__len__).

Runs on the pristine tree and on the refactored tree with the same result:
 * byte-exact expectations written by hand for packed repeated fields, non packed
   repeated fields (including empty items) and map entries (including all-default ones),
 * len(m) == len(bytes(m)) and the SIZE_DELIMITED prefix for thousands of random messages,
 * cross checks against google.protobuf (parse / serialize / length prefixed streams),
 * every cut point of delimited streams: a load returns the written message or raises,
 * number and content of the write() calls dump issues,
 * a digest over everything that was observed, compared with a constant recorded on
   the pristine tree.
"""
import hashlib
import io
import random
import struct
from dataclasses import dataclass
from typing import Dict, List

import betterproto
from betterproto import SIZE_DELIMITED

from google.protobuf import descriptor_pb2, descriptor_pool, message_factory
from google.protobuf import proto as gproto

FDP = descriptor_pb2.FieldDescriptorProto


# --------------------------------------------------------------------------- schema
class Color(betterproto.Enum):
    ZERO = 0
    RED = 1
    BLUE = 2
    NEG = -3
    BIG = 70000


@dataclass(eq=False, repr=False)
class Inner(betterproto.Message):
    x: int = betterproto.int32_field(1)
    t: str = betterproto.string_field(2)


@dataclass(eq=False, repr=False)
class Rich(betterproto.Message):
    i32: int = betterproto.int32_field(1)
    s64: int = betterproto.sint64_field(2)
    s: str = betterproto.string_field(3)
    b: bytes = betterproto.bytes_field(4)
    d: float = betterproto.double_field(5)
    inner: Inner = betterproto.message_field(6)

    r_i32: List[int] = betterproto.int32_field(10)
    r_s32: List[int] = betterproto.sint32_field(11)
    r_u64: List[int] = betterproto.uint64_field(12)
    r_bool: List[bool] = betterproto.bool_field(13)
    r_f: List[float] = betterproto.float_field(14)
    r_d: List[float] = betterproto.double_field(15)
    r_fx32: List[int] = betterproto.fixed32_field(16)
    r_sfx64: List[int] = betterproto.sfixed64_field(17)
    r_enum: List[Color] = betterproto.enum_field(18)
    r_i64: List[int] = betterproto.int64_field(19)

    r_s: List[str] = betterproto.string_field(20)
    r_b: List[bytes] = betterproto.bytes_field(21)
    r_inner: List[Inner] = betterproto.message_field(22)

    m_si: Dict[str, int] = betterproto.map_field(
        30, betterproto.TYPE_STRING, betterproto.TYPE_INT32
    )
    m_is: Dict[int, str] = betterproto.map_field(
        31, betterproto.TYPE_INT32, betterproto.TYPE_STRING
    )
    m_bi: Dict[bool, Inner] = betterproto.map_field(
        32, betterproto.TYPE_BOOL, betterproto.TYPE_MESSAGE
    )
    m_sb: Dict[int, bytes] = betterproto.map_field(
        33, betterproto.TYPE_SINT64, betterproto.TYPE_BYTES
    )
    m_sd: Dict[str, float] = betterproto.map_field(
        34, betterproto.TYPE_STRING, betterproto.TYPE_DOUBLE
    )
    m_fx: Dict[int, int] = betterproto.map_field(
        35, betterproto.TYPE_FIXED32, betterproto.TYPE_SFIXED64
    )
    m_ss: Dict[str, str] = betterproto.map_field(
        36, betterproto.TYPE_STRING, betterproto.TYPE_STRING
    )

    o_s: str = betterproto.string_field(40, group="choice")
    o_i: int = betterproto.int32_field(41, group="choice")
    o_m: Inner = betterproto.message_field(42, group="choice")


# older reader schema: knows only a few of Rich's fields
@dataclass(eq=False, repr=False)
class Old(betterproto.Message):
    i32: int = betterproto.int32_field(1)
    s: str = betterproto.string_field(3)
    r_s32: List[int] = betterproto.sint32_field(11)
    m_si: Dict[str, int] = betterproto.map_field(
        30, betterproto.TYPE_STRING, betterproto.TYPE_INT32
    )


@dataclass(eq=False, repr=False)
class Empty(betterproto.Message):
    pass


def build_reference():
    fdp = descriptor_pb2.FileDescriptorProto(
        name="c10_keep1.proto", package="c10k1", syntax="proto3"
    )
    en = fdp.enum_type.add(name="Color")
    for name, number in (("ZERO", 0), ("RED", 1), ("BLUE", 2), ("NEG", -3), ("BIG", 70000)):
        en.value.add(name=name, number=number)
    inner = fdp.message_type.add(name="Inner")
    inner.field.add(name="x", number=1, type=FDP.TYPE_INT32, label=FDP.LABEL_OPTIONAL)
    inner.field.add(name="t", number=2, type=FDP.TYPE_STRING, label=FDP.LABEL_OPTIONAL)

    rich = fdp.message_type.add(name="Rich")

    def add(name, number, type_, label=FDP.LABEL_OPTIONAL, type_name=None, oneof=None):
        f = rich.field.add(name=name, number=number, type=type_, label=label)
        if type_name:
            f.type_name = type_name
        if oneof is not None:
            f.oneof_index = oneof
        return f

    add("i32", 1, FDP.TYPE_INT32)
    add("s64", 2, FDP.TYPE_SINT64)
    add("s", 3, FDP.TYPE_STRING)
    add("b", 4, FDP.TYPE_BYTES)
    add("d", 5, FDP.TYPE_DOUBLE)
    add("inner", 6, FDP.TYPE_MESSAGE, type_name=".c10k1.Inner")
    R = FDP.LABEL_REPEATED
    add("r_i32", 10, FDP.TYPE_INT32, R)
    add("r_s32", 11, FDP.TYPE_SINT32, R)
    add("r_u64", 12, FDP.TYPE_UINT64, R)
    add("r_bool", 13, FDP.TYPE_BOOL, R)
    add("r_f", 14, FDP.TYPE_FLOAT, R)
    add("r_d", 15, FDP.TYPE_DOUBLE, R)
    add("r_fx32", 16, FDP.TYPE_FIXED32, R)
    add("r_sfx64", 17, FDP.TYPE_SFIXED64, R)
    add("r_enum", 18, FDP.TYPE_ENUM, R, type_name=".c10k1.Color")
    add("r_i64", 19, FDP.TYPE_INT64, R)
    add("r_s", 20, FDP.TYPE_STRING, R)
    add("r_b", 21, FDP.TYPE_BYTES, R)
    add("r_inner", 22, FDP.TYPE_MESSAGE, R, type_name=".c10k1.Inner")

    def add_map(name, number, ktype, vtype, vtype_name=None):
        entry_name = "".join(p.capitalize() for p in name.split("_")) + "Entry"
        entry = rich.nested_type.add(name=entry_name)
        entry.options.map_entry = True
        entry.field.add(name="key", number=1, type=ktype, label=FDP.LABEL_OPTIONAL)
        v = entry.field.add(name="value", number=2, type=vtype, label=FDP.LABEL_OPTIONAL)
        if vtype_name:
            v.type_name = vtype_name
        add(name, number, FDP.TYPE_MESSAGE, R, type_name=".c10k1.Rich." + entry_name)

    add_map("m_si", 30, FDP.TYPE_STRING, FDP.TYPE_INT32)
    add_map("m_is", 31, FDP.TYPE_INT32, FDP.TYPE_STRING)
    add_map("m_bi", 32, FDP.TYPE_BOOL, FDP.TYPE_MESSAGE, ".c10k1.Inner")
    add_map("m_sb", 33, FDP.TYPE_SINT64, FDP.TYPE_BYTES)
    add_map("m_sd", 34, FDP.TYPE_STRING, FDP.TYPE_DOUBLE)
    add_map("m_fx", 35, FDP.TYPE_FIXED32, FDP.TYPE_SFIXED64)
    add_map("m_ss", 36, FDP.TYPE_STRING, FDP.TYPE_STRING)

    rich.oneof_decl.add(name="choice")
    add("o_s", 40, FDP.TYPE_STRING, oneof=0)
    add("o_i", 41, FDP.TYPE_INT32, oneof=0)
    add("o_m", 42, FDP.TYPE_MESSAGE, type_name=".c10k1.Inner", oneof=0)

    pool = descriptor_pool.DescriptorPool()
    pool.Add(fdp)
    return message_factory.GetMessageClass(pool.FindMessageTypeByName("c10k1.Rich"))


RefRich = build_reference()

# --------------------------------------------------------------------------- generators
I32 = [0, 1, -1, 2, 127, 128, 129, 255, 300, 16383, 16384, 2**31 - 1, -(2**31), -128, 70000]
I64 = I32 + [2**31, 2**35 + 5, 2**63 - 1, -(2**63), -(2**40)]
U32 = [0, 1, 127, 128, 16383, 16384, 2**32 - 1, 2**21, 2**28]
U64 = U32 + [2**32, 2**63, 2**64 - 1, 2**56 - 1, 2**56]
S32 = [0, -1, 1, -64, 63, 64, -65, 8191, -8192, 8192, 2**31 - 1, -(2**31)]
S64 = S32 + [2**62, -(2**62), 2**63 - 1, -(2**63), -(2**34) - 1]
F32 = [0.0, 1.5, -2.25, 1e10, -1e-10, float("inf"), float("-inf"), 3.14159, -0.0]
F32 = [struct.unpack("<f", struct.pack("<f", v))[0] for v in F32]
F64 = [0.0, 1.5, -2.25, 1e300, -1e-300, float("inf"), float("-inf"), 3.141592653589793, -0.0]
STRS = ["", "a", "hello", "été", "漢字", "\U0001f600", "x" * 127, "y" * 128, "z" * 300]
BYTS = [b"", b"\x00", b"\xff\xfe", b"abc", bytes(range(256)), b"q" * 127, b"r" * 128]
COLORS = [Color.ZERO, Color.RED, Color.BLUE, Color.NEG, Color.BIG]


def rnd_inner(rng):
    k = rng.randrange(4)
    if k == 0:
        return Inner()
    if k == 1:
        return Inner(x=rng.choice(I32))
    if k == 2:
        return Inner(t=rng.choice(STRS))
    return Inner(x=rng.choice(I32), t=rng.choice(STRS))


def rnd_list(rng, pool, maxlen=6):
    return [rng.choice(pool) for _ in range(rng.randrange(1, maxlen + 1))]


def rnd_rich(rng, density=0.3):
    m = Rich()
    on = lambda: rng.random() < density  # noqa: E731
    if on():
        m.i32 = rng.choice(I32)
    if on():
        m.s64 = rng.choice(S64)
    if on():
        m.s = rng.choice(STRS)
    if on():
        m.b = rng.choice(BYTS)
    if on():
        m.d = rng.choice(F64)
    if on():
        m.inner = rnd_inner(rng)
    if on():
        m.r_i32 = rnd_list(rng, I32)
    if on():
        m.r_s32 = rnd_list(rng, S32)
    if on():
        m.r_u64 = rnd_list(rng, U64)
    if on():
        m.r_bool = rnd_list(rng, [True, False])
    if on():
        m.r_f = rnd_list(rng, F32)
    if on():
        m.r_d = rnd_list(rng, F64)
    if on():
        m.r_fx32 = rnd_list(rng, U32)
    if on():
        m.r_sfx64 = rnd_list(rng, I64)
    if on():
        m.r_enum = rnd_list(rng, COLORS)
    if on():
        m.r_i64 = rnd_list(rng, I64)
    if on():
        m.r_s = rnd_list(rng, STRS)
    if on():
        m.r_b = rnd_list(rng, BYTS)
    if on():
        m.r_inner = [rnd_inner(rng) for _ in range(rng.randrange(1, 5))]
    if on():
        m.m_si = {rng.choice(STRS): rng.choice(I32) for _ in range(rng.randrange(1, 5))}
    if on():
        m.m_is = {rng.choice(I32): rng.choice(STRS) for _ in range(rng.randrange(1, 5))}
    if on():
        m.m_bi = {rng.choice([True, False]): rnd_inner(rng) for _ in range(rng.randrange(1, 3))}
    if on():
        m.m_sb = {rng.choice(S64): rng.choice(BYTS) for _ in range(rng.randrange(1, 5))}
    if on():
        m.m_sd = {rng.choice(STRS): rng.choice(F64) for _ in range(rng.randrange(1, 5))}
    if on():
        m.m_fx = {rng.choice(U32): rng.choice(I64) for _ in range(rng.randrange(1, 5))}
    if on():
        m.m_ss = {rng.choice(STRS[:4]): rng.choice(STRS[:4]) for _ in range(rng.randrange(1, 5))}
    k = rng.randrange(6)
    if k == 0:
        m.o_s = rng.choice(STRS)
    elif k == 1:
        m.o_i = rng.choice(I32)
    elif k == 2:
        m.o_m = rnd_inner(rng)
    return m


# --------------------------------------------------------------------------- transcript
digest = hashlib.sha256()


def note(*parts):
    for p in parts:
        if isinstance(p, (bytes, bytearray)):
            digest.update(b"B" + len(p).to_bytes(8, "little") + bytes(p))
        else:
            s = repr(p).encode()
            digest.update(b"R" + len(s).to_bytes(8, "little") + s)


def canonical_varint(n):
    out = bytearray()
    while n >> 7:
        out.append(0x80 | (n & 0x7F))
        n >>= 7
    out.append(n)
    return bytes(out)


class Recorder:
    """A write-only stream that records every write() call."""

    def __init__(self):
        self.calls = []

    def write(self, data):
        self.calls.append(bytes(data))
        return len(data)


# --------------------------------------------------------------------------- 1. hand written bytes
def hx(m):
    return bytes(m).hex()


assert hx(Rich(r_i32=[1, 2, 3])) == "5203010203"
assert hx(Rich(r_i32=[-1])) == "520a" + "ff" * 9 + "01"
assert hx(Rich(r_s32=[-1, 1, -64, 64])) == "5a050102" + "7f" + "8001"
assert hx(Rich(r_u64=[2**64 - 1, 0])) == "620b" + "ff" * 9 + "01" + "00"
assert hx(Rich(r_bool=[True, False, True])) == "6a03010001"
assert hx(Rich(r_f=[1.5])) == "7204" + struct.pack("<f", 1.5).hex()
assert hx(Rich(r_d=[1.5, -2.25])) == "7a10" + struct.pack("<dd", 1.5, -2.25).hex()
assert hx(Rich(r_fx32=[1, 2**32 - 1])) == "820108" + "01000000" + "ffffffff"
assert hx(Rich(r_sfx64=[-1])) == "8a0108" + "ff" * 8
assert hx(Rich(r_enum=[Color.RED, Color.BIG])) == "920104" + "01" + "f0a204"
assert hx(Rich(r_i64=[0])) == "9a010100"
assert hx(Rich(r_s=["", "a"])) == "a20100" + "a2010161"
assert hx(Rich(r_b=[b"", b"\x00"])) == "aa0100" + "aa010100"
assert hx(Rich(r_inner=[Inner(), Inner(x=1), Inner()])) == "b20100" + "b201020801" + "b20100"
assert hx(Rich(m_si={"": 0})) == "f201021000"
assert hx(Rich(m_si={"a": 0})) == "f201050a01611000"
assert hx(Rich(m_si={"": 5})) == "f201021005"
assert hx(Rich(m_si={"a": 1, "b": -1})) == "f201050a01611001" + "f2010e0a016210" + "ff" * 9 + "01"
assert hx(Rich(m_is={0: ""})) == "fa01020800"
assert hx(Rich(m_is={7: "x"})) == "fa01050807120178"
assert hx(Rich(m_bi={False: Inner()})) == "8202020800"
assert hx(Rich(m_bi={True: Inner()})) == "8202020801"
assert hx(Rich(m_bi={True: Inner(x=3)})) == "820206080112020803"
assert hx(Rich(m_sb={-1: b"z"})) == "8a02050801" + "12017a"
assert hx(Rich(m_sd={"k": 1.5})) == "9202" + "0c" + "0a016b" + "11" + struct.pack("<d", 1.5).hex()
assert hx(Rich(m_fx={1: -1})) == "9a02" + "0e" + "0d01000000" + "11" + "ff" * 8
assert hx(Rich(m_fx={0: 0})) == "9a020e" + "0d00000000" + "11" + "00" * 8
assert hx(Rich(m_ss={"": ""})) == "a20200"
assert hx(Rich(m_ss={"": "", "a": "", "b": "c"})) == "a20200" + "a202030a0161" + "a202060a0162120163"
assert hx(Rich(o_s="")) == "c20200"
assert hx(Rich(o_i=0)) == "c80200"
assert hx(Rich(o_m=Inner())) == "d20200"
assert hx(Rich(inner=Inner())) == ""  # a never touched sub-message is not "set"
assert hx(Rich(inner=Inner().parse(b""))) == "3200"
assert hx(Rich()) == ""
for m in (Rich(m_ss={"": ""}), Rich(r_inner=[Inner()]), Rich(r_s=[""]), Rich(r_b=[b""])):
    assert len(m) == len(bytes(m)) == 3

# field order on the wire follows the class definition; a map keeps insertion order
both = Rich(m_si={"b": 2, "a": 1}, r_s=["x"], r_i32=[5], i32=9)
assert hx(both) == "0809" + "520105" + "a2010178" + "f201050a01621002" + "f201050a01611001"

# --------------------------------------------------------------------------- 2. write() granularity
rec = Recorder()
m = Rich(i32=1, r_i32=[1, 2], r_s=["a", "", "b"], r_inner=[Inner(), Inner(x=1)], m_ss={"a": "1", "": ""})
m.dump(rec, SIZE_DELIMITED)
assert b"".join(rec.calls) == canonical_varint(len(bytes(m))) + bytes(m)
non_empty = [c for c in rec.calls if c]
assert non_empty == [
    canonical_varint(len(bytes(m))),
    bytes.fromhex("0801"),
    bytes.fromhex("52020102"),
    bytes.fromhex("a2010161"),
    bytes.fromhex("a20100"),
    bytes.fromhex("a2010162"),
    bytes.fromhex("b20100"),
    bytes.fromhex("b201020801"),
    bytes.fromhex("a202060a0161120131"),
    bytes.fromhex("a20200"),
], non_empty
note("writes", rec.calls)


# a bad item fails before anything of that field is written (packed) / at that item (others)
def dump_failure(msg):
    rec = Recorder()
    try:
        msg.dump(rec)
    except Exception as e:  # noqa: BLE001
        return type(e).__name__, [c for c in rec.calls if c]
    raise AssertionError("expected a failure")


name, written = dump_failure(Rich(i32=1, r_fx32=[1, -1, 2]))
assert name == "error" and written == [b"\x08\x01"], (name, written)
name, written = dump_failure(Rich(i32=1, r_s=["a", 5, "b"]))
assert name == "AttributeError" and written == [b"\x08\x01", bytes.fromhex("a2010161")], (name, written)
name, written = dump_failure(Rich(i32=1, m_si={"a": 1, "b": "oops"}))
assert written == [b"\x08\x01", bytes.fromhex("f201050a01611001")], (name, written)
note("fail", name)
for bad in (Rich(r_fx32=[-1]), Rich(m_si={"b": "oops"}), Rich(r_i32=[2**70 * -1])):
    try:
        len(bad)
    except Exception as e:  # noqa: BLE001
        note("lenfail", type(e).__name__)
    else:
        raise AssertionError("len of an unencodable message")

# --------------------------------------------------------------------------- 3. random messages
rng = random.Random(0xC10)
messages = [rnd_rich(rng, density) for density in (0.05, 0.15, 0.3, 0.6, 1.0) for _ in range(260)]
n_maps = 0
n_identical = 0
for m in messages:
    data = bytes(m)
    assert len(m) == len(data)
    note(data)
    # google reads it and agrees on every field; what google writes back is read the same
    ref = RefRich.FromString(data)
    back = Rich().parse(ref.SerializeToString())
    assert back == m
    assert Rich().parse(data) == m
    has_map = any((m.m_si, m.m_is, m.m_bi, m.m_sb, m.m_sd, m.m_fx, m.m_ss))
    n_maps += has_map
    if not has_map:
        # (in map entries betterproto spells out zero scalars, the reference omits them)
        n_identical += ref.SerializeToString(deterministic=True) == data
        assert ref.ByteSize() == len(data)
    assert list(ref.r_i32) == m.r_i32 and list(ref.r_s) == m.r_s
    assert dict(ref.m_si) == m.m_si and dict(ref.m_sb) == m.m_sb and dict(ref.m_fx) == m.m_fx
    assert dict(ref.m_ss) == m.m_ss and dict(ref.m_is) == m.m_is and dict(ref.m_sd) == m.m_sd
    assert {k: (v.x, v.t) for k, v in ref.m_bi.items()} == {k: (v.x, v.t) for k, v in m.m_bi.items()}
    assert len(ref.r_inner) == len(m.r_inner)
    # delimited framing == canonical varint + body, for the message alone
    out = io.BytesIO()
    m.dump(out, SIZE_DELIMITED)
    assert out.getvalue() == canonical_varint(len(data)) + data
assert n_maps > 300
note('identical', n_identical)
assert n_identical == len(messages) - n_maps > 200, (n_identical, len(messages) - n_maps)

# --------------------------------------------------------------------------- 4. delimited streams
def write_stream(msgs):
    stream = io.BytesIO()
    ends = []
    for m in msgs:
        m.dump(stream, SIZE_DELIMITED)
        ends.append(stream.tell())
    return stream.getvalue(), ends


def outcome(cls, stream):
    try:
        got = cls().load(stream, SIZE_DELIMITED)
    except Exception as e:  # noqa: BLE001
        return ("raise", type(e).__name__, str(e))
    return ("ok", got)


for round_ in range(6):
    seq, readers = [], []
    for _ in range(9):
        k = rng.randrange(5)
        if k == 0:
            seq.append(Empty())
            readers.append(Empty)
        elif k == 1:
            seq.append(rnd_inner(rng))
            readers.append(Inner)
        elif k == 2:
            seq.append(rnd_rich(rng, 0.12))
            readers.append(Old)  # older reader
        else:
            seq.append(rnd_rich(rng, rng.choice([0.0, 0.08, 0.2])))
            readers.append(Rich)
    data, ends = write_stream(seq)
    note(data, ends)
    assert data == b"".join(canonical_varint(len(bytes(m))) + bytes(m) for m in seq)

    # intact stream
    stream = io.BytesIO(data)
    for m, cls, end in zip(seq, readers, ends):
        got = cls().load(stream, SIZE_DELIMITED)
        assert stream.tell() == end
        if cls is Old:
            assert (got.i32, got.s, got.r_s32, got.m_si) == (m.i32, m.s, m.r_s32, m.m_si)
            assert Rich().parse(bytes(got)) == m  # unknown fields retained
            assert len(got) == len(bytes(got)) == len(bytes(m))
        else:
            assert got == m
            assert bytes(got) == bytes(m)
    assert stream.read() == b""

    # google reads the Rich frames of the same stream
    stream = io.BytesIO(data)
    for m, cls in zip(seq, readers):
        ref = gproto.parse_length_prefixed(RefRich, stream)
        if isinstance(m, Rich):
            assert Rich().parse(ref.SerializeToString()) == m
    assert stream.read() == b""

    # google writes, betterproto reads
    gout = io.BytesIO()
    rich_only = [m for m in seq if isinstance(m, Rich)]
    for m in rich_only:
        gproto.serialize_length_prefixed(RefRich.FromString(bytes(m)), gout)
    gout.seek(0)
    for m in rich_only:
        assert Rich().load(gout, SIZE_DELIMITED) == m
    assert gout.read() == b""

    # every cut point
    for cut in range(len(data) + 1):
        stream = io.BytesIO(data[:cut])
        for i, (m, cls, end) in enumerate(zip(seq, readers, ends)):
            res = outcome(cls, stream)
            if end <= cut:
                assert res[0] == "ok" and stream.tell() == end
            else:
                assert res[0] == "raise", (round_, cut, i, res)
            if res[0] == "ok":
                got = res[1]
                if cls is Old:
                    assert Rich().parse(bytes(got)) == m
                else:
                    assert got == m
                note(cut, i, "ok", bytes(got), stream.tell())
            else:
                note(cut, i, res[1], res[2])
                break

GOLDEN = "746b56cfefe4ba4b158be12080d71eb5fe297e9cb6723ffca2b6538b17b5a357"  # recorded on the pristine tree
final = digest.hexdigest()
if GOLDEN.startswith("@@"):
    print("digest", final)
else:
    assert final == GOLDEN, final
print("C10 keep1 equivalence OK")
