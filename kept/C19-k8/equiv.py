"""Equivalence check for the per-class JSON key table ProtoClassMetadata.field_name_by_key
and for everything that goes through it (from_dict, instance from_dict, from_pydict,
from_json on keys emitted by to_dict / to_pydict / to_json in both casings).

The expected table is recomputed here with the original algorithm (setdefault of the
CAMEL and SNAKE key per field in declaration order, then the own names override).
"""
import itertools
import json
import keyword
import random
from dataclasses import dataclass

import betterproto
from betterproto import Casing
from betterproto.casing import camel_case, safe_snake_case, snake_case
from betterproto.compile.naming import pythonize_field_name

MESSAGE_API = set(dir(betterproto.Message))
assert Casing.CAMEL is camel_case and Casing.SNAKE is snake_case


def make_message(py_names):
    namespace = {"__annotations__": {}, "__module__": __name__}
    for number, py_name in enumerate(py_names, start=1):
        namespace["__annotations__"][py_name] = int
        namespace[py_name] = betterproto.int32_field(number)
    return dataclass(eq=False, repr=False)(type("Msg", (betterproto.Message,), namespace))


def expected_table(py_names):
    by_key = {}
    for field_name in py_names:
        for casing in (camel_case, snake_case):
            by_key.setdefault(casing(field_name).rstrip("_"), field_name)
    by_key.update((field_name, field_name) for field_name in py_names)
    return by_key


classes = 0


def check_class(py_names):
    """py_names: distinct python field names in declaration order."""
    global classes
    classes += 1
    cls = make_message(py_names)
    meta = cls._betterproto
    assert list(meta.meta_by_field_name) == list(py_names)
    table = meta.field_name_by_key
    expected = expected_table(py_names)
    assert type(table) is dict
    assert table == expected, (py_names, table, expected)
    assert cls._betterproto is meta and cls()._betterproto is meta  # built once per class

    # every key of the table, and any other spelling, resolves as before
    values = {name: i + 1 for i, name in enumerate(py_names)}
    probes = set(expected)
    for name in py_names:
        probes |= {name.upper(), name.capitalize(), "_" + name, name + "_", name.replace("_", "")}
    for key in probes:
        want = expected.get(key) or safe_snake_case(key)
        for parsed in (
            cls.from_dict({key: 9}),
            cls().from_dict({key: 9}),
            cls().from_pydict({key: 9}),
            cls().from_json(json.dumps({key: 9})),
        ):
            got = {n: getattr(parsed, n) for n in py_names if getattr(parsed, n) != 0}
            assert got == ({want: 9} if want in values else {}), (py_names, key, got, want)
    return cls, values, expected


def check_round_trip(cls, values, expected):
    """Only meaningful when no two fields are emitted under the same key."""
    msg = cls(**values)
    for casing in (Casing.CAMEL, Casing.SNAKE):
        for out in (msg.to_dict(casing=casing), msg.to_pydict(casing=casing),
                    json.loads(msg.to_json(casing=casing))):
            assert len(out) == len(values), (values, out)
            for name, number in values.items():
                assert out[casing(name).rstrip("_")] == number
            for parsed in (cls.from_dict(out), cls().from_dict(out), cls().from_pydict(out)):
                assert bytes(parsed) == bytes(msg), (values, out)
                for name, number in values.items():
                    assert getattr(parsed, name) == number, (values, out, name)


# 1. one field per class: every legal proto name up to length 4, keywords, builtins, corpus
CORPUS = [
    "address_line_1", "address_line_2", "ipv4_address", "x_y_z", "HTTPStatus", "sha_256",
    "oauth2_token", "line1", "line_1", "a_b", "userID", "fooBar", "FooBar", "FOO_BAR",
    "foo__bar", "_foo", "foo_", "getHTTPResponse", "HTTP2xx", "v1_beta_2", "e2e", "e_2_e",
    "_", "__", "_1", "_1a", "A_1", "aBCd", "page_1_of_n",
]
names = CORPUS + keyword.kwlist + list(getattr(keyword, "softkwlist", []))
names += [k.capitalize() for k in keyword.kwlist] + [k.upper() for k in keyword.kwlist]
names += [b for b in dir(__builtins__) if not b.startswith("__")]
names += ["".join(t) for n in range(1, 5) for t in itertools.product("abAB1_", repeat=n)
          if not t[0].isdigit()]
seen = set()
for proto_name in names:
    py_name = pythonize_field_name(proto_name)
    if py_name in seen or py_name in MESSAGE_API:
        continue
    seen.add(py_name)
    cls, values, expected = check_class([py_name])
    check_round_trip(cls, values, expected)
    assert getattr(cls.from_dict({proto_name: 3}), py_name) == 3, proto_name

# 2. many fields per class, including fields whose keys collide with another field's
#    key or own name, in every declaration order (who wins must not change), and
#    hand-written field names that no generator would produce
COLLIDING = [
    ["a_1", "a1"], ["a1", "a_1"], ["x_y_z", "x_yz", "xyz"], ["xyz", "x_yz", "x_y_z"],
    ["address_line_1", "address_line1", "addressline1"], ["in_", "in1", "in_1", "i_n"],
    ["_in", "in_", "i_n"], ["fooBar", "foo_bar", "foobar", "FooBar"], ["_1", "_1_a", "a_1"],
    ["_", "a"], ["a_b", "ab", "a_b_", "_a_b"], ["type_", "type", "Type"],
    ["http_status", "httpStatus", "HTTPStatus", "http__status"],
]
for group in COLLIDING:
    for order in itertools.permutations(group):
        check_class(list(order))

rng = random.Random(1919)
pool = sorted(seen - {"_"})
for _ in range(1500):
    py_names = rng.sample(pool, rng.randint(2, 8))
    cls, values, expected = check_class(py_names)
    keys = [c(n).rstrip("_") for n in py_names for c in (camel_case,)]
    if len(set(keys)) == len(keys):  # protoc rejects fields with conflicting JSON names
        check_round_trip(cls, values, expected)

# 3. an empty message and nested / repeated / map use of the table of the child class
check_class([])


@dataclass(eq=False, repr=False)
class Child(betterproto.Message):
    address_line_1: str = betterproto.string_field(1)
    x_y_z: int = betterproto.int32_field(2)
    in_: bool = betterproto.bool_field(3)


@dataclass(eq=False, repr=False)
class Parent(betterproto.Message):
    child_1: Child = betterproto.message_field(1)
    children_2_x: list[Child] = betterproto.message_field(2)
    by_name_3: dict[str, Child] = betterproto.map_field(
        3, betterproto.TYPE_STRING, betterproto.TYPE_MESSAGE
    )


child = Child(address_line_1="x", x_y_z=4, in_=True)
parent = Parent(child_1=child, children_2_x=[child, Child(x_y_z=1)], by_name_3={"k": child})
assert Child._betterproto.field_name_by_key == expected_table(["address_line_1", "x_y_z", "in_"])
assert Parent._betterproto.field_name_by_key == expected_table(
    ["child_1", "children_2_x", "by_name_3"]
)
for casing in (Casing.CAMEL, Casing.SNAKE):
    out = parent.to_dict(casing=casing)
    assert set(out) == {casing(n).rstrip("_") for n in ("child_1", "children_2_x", "by_name_3")}
    assert set(out[casing("child_1")]) == {casing(n).rstrip("_") for n in ("address_line_1", "x_y_z", "in_")}
    assert Parent.from_dict(out) == parent and bytes(Parent.from_dict(out)) == bytes(parent)
    assert Parent().from_json(parent.to_json(casing=casing)) == parent
    assert Parent().from_pydict(parent.to_pydict(casing=casing)) == parent
assert Parent.from_dict({"child1": {"addressLine1": "x", "xYZ": 4, "in": True}}).child_1 == child
assert Parent.from_dict({"child_1": {"address_line_1": "x", "x_y_z": 4, "in_": True}}).child_1 == child

# 4. cross-check with google.protobuf: the JSON name protobuf itself assigns to a field
#    is accepted by from_dict, and equals the CAMEL key for ordinary snake_case names
from google.protobuf import descriptor_pb2, descriptor_pool

PB_NAMES = ["address_line_1", "ipv4_address", "x_y_z", "foo_bar", "http_status_code", "sha_256",
            "a_b", "oauth2_token", "line1", "in", "class", "user_id", "v1_beta_2", "HTTPStatus",
            "fooBar", "foo__bar", "_foo"]
file_proto = descriptor_pb2.FileDescriptorProto(name="c19_keep2.proto", package="c19k2", syntax="proto3")
for i, proto_name in enumerate(PB_NAMES):
    m = file_proto.message_type.add(name=f"M{i}")
    m.field.add(name=proto_name, number=1, type=descriptor_pb2.FieldDescriptorProto.TYPE_INT32,
                label=descriptor_pb2.FieldDescriptorProto.LABEL_OPTIONAL)
pool_ = descriptor_pool.DescriptorPool()
pool_.Add(file_proto)
for i, proto_name in enumerate(PB_NAMES):
    json_name = pool_.FindMessageTypeByName(f"c19k2.M{i}").fields_by_name[proto_name].json_name
    py_name = pythonize_field_name(proto_name)
    cls = make_message([py_name])
    assert getattr(cls.from_dict({json_name: 6}), py_name) == 6, (proto_name, json_name)
    if proto_name == snake_case(proto_name) and "__" not in proto_name:
        assert cls(**{py_name: 6}).to_dict() == {json_name: 6}, (proto_name, json_name)

print(f"C19 keep2 equiv: {classes} message classes OK")
