"""C05 keep1 equivalence check: Message.to_dict's way of fetching each field value
(selected / unselected oneof members, plain, optional, repeated, map, message fields)
and everything downstream of it.

 * betterproto JSON -> google.protobuf.json_format.Parse -> same message
 * google.protobuf MessageToJson -> betterproto from_json -> same message
 * exact to_dict() outputs for every oneof selection, with and without
   include_default_values, in both casings
"""
import random
from dataclasses import dataclass
from datetime import datetime, timedelta, timezone
from typing import Dict, List, Optional

import betterproto
from betterproto import Casing
from google.protobuf import descriptor_pb2, descriptor_pool, json_format, message_factory
from google.protobuf import duration_pb2, timestamp_pb2, wrappers_pb2  # noqa: F401

# ------------------------------------------------------------------ reference schema
F = descriptor_pb2.FieldDescriptorProto
OPT, REP = F.LABEL_OPTIONAL, F.LABEL_REPEATED
TS, DUR = ".google.protobuf.Timestamp", ".google.protobuf.Duration"
fdp = descriptor_pb2.FileDescriptorProto(
    name="c05_keep1.proto", package="c05k1", syntax="proto3",
    dependency=["google/protobuf/wrappers.proto", "google/protobuf/timestamp.proto",
                "google/protobuf/duration.proto"],
)
en = fdp.enum_type.add(name="Color")
for n, v in (("ZERO", 0), ("RED", 1), ("BLUE", 2), ("NEG", -1)):
    en.value.add(name=n, number=v)
ch = fdp.message_type.add(name="Child")
ch.field.add(name="n", number=1, type=F.TYPE_INT32, label=OPT)
ch.field.add(name="tags", number=2, type=F.TYPE_STRING, label=REP)
big = fdp.message_type.add(name="Big")
big.oneof_decl.add(name="choice")      # 0
big.oneof_decl.add(name="other")       # 1
big.oneof_decl.add(name="_opt_int")    # 2
big.oneof_decl.add(name="_opt_str")    # 3


def camel(name):
    head, *rest = name.split("_")
    return head + "".join(p.capitalize() for p in rest)


def add(name, number, type_, label=OPT, type_name=None, oneof=None, p3opt=False):
    f = big.field.add(name=name, number=number, type=type_, label=label, json_name=camel(name))
    if type_name:
        f.type_name = type_name
    if oneof is not None:
        f.oneof_index = oneof
    if p3opt:
        f.proto3_optional = True


def add_map(name, number, ktype, vtype, vtype_name=None):
    entry = "".join(p.capitalize() for p in name.split("_")) + "Entry"
    e = big.nested_type.add(name=entry)
    e.options.map_entry = True
    e.field.add(name="key", number=1, type=ktype, label=OPT, json_name="key")
    v = e.field.add(name="value", number=2, type=vtype, label=OPT, json_name="value")
    if vtype_name:
        v.type_name = vtype_name
    add(name, number, F.TYPE_MESSAGE, REP, f".c05k1.Big.{entry}")


add("c_int", 1, F.TYPE_INT32, oneof=0)
add("c_long", 2, F.TYPE_INT64, oneof=0)
add("c_str", 3, F.TYPE_STRING, oneof=0)
add("c_bytes", 4, F.TYPE_BYTES, oneof=0)
add("c_bool", 5, F.TYPE_BOOL, oneof=0)
add("c_double", 6, F.TYPE_DOUBLE, oneof=0)
add("c_color", 7, F.TYPE_ENUM, type_name=".c05k1.Color", oneof=0)
add("c_child", 8, F.TYPE_MESSAGE, type_name=".c05k1.Child", oneof=0)
add("c_ts", 9, F.TYPE_MESSAGE, type_name=TS, oneof=0)
add("c_dur", 10, F.TYPE_MESSAGE, type_name=DUR, oneof=0)
add("o_u64", 11, F.TYPE_UINT64, oneof=1)
add("o_s32", 12, F.TYPE_SINT32, oneof=1)
add("plain", 13, F.TYPE_INT32)
add("opt_int", 14, F.TYPE_INT32, oneof=2, p3opt=True)
add("opt_str", 15, F.TYPE_STRING, oneof=3, p3opt=True)
add("longs", 16, F.TYPE_INT64, REP)
add("colors", 17, F.TYPE_ENUM, REP, ".c05k1.Color")
add("children", 18, F.TYPE_MESSAGE, REP, ".c05k1.Child")
add_map("color_by_name", 19, F.TYPE_STRING, F.TYPE_ENUM, ".c05k1.Color")
add_map("child_by_id", 20, F.TYPE_INT32, F.TYPE_MESSAGE, ".c05k1.Child")
add_map("long_by_flag", 21, F.TYPE_BOOL, F.TYPE_INT64)
add("stamps", 22, F.TYPE_MESSAGE, REP, TS)
add_map("dur_by_name", 23, F.TYPE_STRING, F.TYPE_MESSAGE, DUR)
add("child", 24, F.TYPE_MESSAGE, type_name=".c05k1.Child")
add("ts", 25, F.TYPE_MESSAGE, type_name=TS)
add("dur", 26, F.TYPE_MESSAGE, type_name=DUR)
add("wrapped_long", 27, F.TYPE_MESSAGE, type_name=".google.protobuf.Int64Value")
add("wrapped_bytes", 28, F.TYPE_MESSAGE, type_name=".google.protobuf.BytesValue")
add("color", 29, F.TYPE_ENUM, type_name=".c05k1.Color")
add("blob", 30, F.TYPE_BYTES)
add("ratio", 31, F.TYPE_DOUBLE)

pool = descriptor_pool.Default()
pool.Add(fdp)
RefBig = message_factory.GetMessageClass(pool.FindMessageTypeByName("c05k1.Big"))


# ---------------------------------------------------------------- betterproto schema
class Color(betterproto.Enum):
    ZERO = 0
    RED = 1
    BLUE = 2
    NEG = -1


@dataclass(eq=False, repr=False)
class Child(betterproto.Message):
    n: int = betterproto.int32_field(1)
    tags: List[str] = betterproto.string_field(2)


@dataclass(eq=False, repr=False)
class Big(betterproto.Message):
    c_int: int = betterproto.int32_field(1, group="choice")
    c_long: int = betterproto.int64_field(2, group="choice")
    c_str: str = betterproto.string_field(3, group="choice")
    c_bytes: bytes = betterproto.bytes_field(4, group="choice")
    c_bool: bool = betterproto.bool_field(5, group="choice")
    c_double: float = betterproto.double_field(6, group="choice")
    c_color: "Color" = betterproto.enum_field(7, group="choice")
    c_child: "Child" = betterproto.message_field(8, group="choice")
    c_ts: datetime = betterproto.message_field(9, group="choice")
    c_dur: timedelta = betterproto.message_field(10, group="choice")
    o_u64: int = betterproto.uint64_field(11, group="other")
    o_s32: int = betterproto.sint32_field(12, group="other")
    plain: int = betterproto.int32_field(13)
    opt_int: Optional[int] = betterproto.int32_field(14, optional=True)
    opt_str: Optional[str] = betterproto.string_field(15, optional=True)
    longs: List[int] = betterproto.int64_field(16)
    colors: List["Color"] = betterproto.enum_field(17)
    children: List["Child"] = betterproto.message_field(18)
    color_by_name: Dict[str, "Color"] = betterproto.map_field(
        19, betterproto.TYPE_STRING, betterproto.TYPE_ENUM)
    child_by_id: Dict[int, "Child"] = betterproto.map_field(
        20, betterproto.TYPE_INT32, betterproto.TYPE_MESSAGE)
    long_by_flag: Dict[bool, int] = betterproto.map_field(
        21, betterproto.TYPE_BOOL, betterproto.TYPE_INT64)
    stamps: List[datetime] = betterproto.message_field(22)
    dur_by_name: Dict[str, timedelta] = betterproto.map_field(
        23, betterproto.TYPE_STRING, betterproto.TYPE_MESSAGE)
    child: "Child" = betterproto.message_field(24)
    ts: datetime = betterproto.message_field(25)
    dur: timedelta = betterproto.message_field(26)
    wrapped_long: Optional[int] = betterproto.message_field(27, wraps=betterproto.TYPE_INT64)
    wrapped_bytes: Optional[bytes] = betterproto.message_field(28, wraps=betterproto.TYPE_BYTES)
    color: "Color" = betterproto.enum_field(29)
    blob: bytes = betterproto.bytes_field(30)
    ratio: float = betterproto.double_field(31)


EPOCH = datetime(1970, 1, 1, tzinfo=timezone.utc)


def canon(ref_msg) -> bytes:
    return ref_msg.SerializeToString(deterministic=True)


def same_message(bp_msg, ref_msg, what):
    got = RefBig.FromString(bytes(bp_msg))
    assert canon(got) == canon(ref_msg), f"{what}: {bp_msg!r}"


def cross_check(msg):
    """The property: both JSON directions agree with the reference implementation."""
    ref = RefBig.FromString(bytes(msg))
    text = msg.to_json()
    parsed = json_format.Parse(text, RefBig())
    assert canon(parsed) == canon(ref), f"reference reads another message from {text}"
    ref_text = json_format.MessageToJson(ref)
    back = Big().from_json(ref_text)
    same_message(back, ref, f"betterproto reads another message from {ref_text}")
    back2 = Big.from_dict(__import__("json").loads(ref_text))
    same_message(back2, ref, "classmethod from_dict")
    # and once more through betterproto's own JSON
    same_message(Big().from_json(text), ref, "own JSON round trip")
    # snake casing is accepted by the reference too (original field names)
    snake = msg.to_json(casing=Casing.SNAKE)
    assert canon(json_format.Parse(snake, RefBig())) == canon(ref)


# ---------------------------------------------------- 1. exact outputs, oneof by oneof
CHOICES = {
    "c_int": (5, 5, 0, 0),
    "c_long": (2**62, str(2**62), 0, "0"),
    "c_str": ("x", "x", "", ""),
    "c_bytes": (b"\x00\xff", "AP8=", b"", ""),
    "c_bool": (True, True, False, False),
    "c_double": (1.25, 1.25, 0.0, 0.0),
    "c_color": (Color.BLUE, "BLUE", Color.ZERO, "ZERO"),
    "c_child": (Child(n=3), {"n": 3}, Child(), {}),
    "c_ts": (EPOCH + timedelta(seconds=1, microseconds=500000), "1970-01-01T00:00:01.500Z",
             EPOCH, "1970-01-01T00:00:00Z"),
    "c_dur": (timedelta(seconds=-1, microseconds=-500000), "-1.500s", timedelta(0), "0.000s"),
}
DEFAULT_JSON = {  # what include_default_values reports for members that are not selected
    "cInt": 0, "cLong": "0", "cStr": "", "cBytes": "", "cBool": False, "cDouble": 0.0,
    "cColor": "ZERO", "cChild": {"n": 0, "tags": []}, "cTs": "1970-01-01T00:00:00Z",
    "cDur": "0.000s", "oU64": "0", "oS32": 0,
}
REST_DEFAULT_JSON = {
    "plain": 0, "optInt": None, "optStr": None, "longs": [], "colors": [], "children": [],
    "colorByName": {}, "childById": {}, "longByFlag": {}, "stamps": [], "durByName": {},
    "child": {"n": 0, "tags": []}, "ts": "1970-01-01T00:00:00Z", "dur": "0.000s",
    "wrappedLong": None, "wrappedBytes": None, "color": "ZERO", "blob": "", "ratio": 0.0,
}

assert Big().to_dict() == {}
assert Big().to_dict(include_default_values=True) == {**DEFAULT_JSON, **REST_DEFAULT_JSON}
assert list(Big().to_dict(include_default_values=True)) == [camel(f) for f in Big._betterproto.meta_by_field_name]
cross_check(Big())

for name, (value, value_json, zero, zero_json) in CHOICES.items():
    key = camel(name)
    for v, vj in ((value, value_json), (zero, zero_json)):
        for how in ("ctor", "setattr", "switch"):
            if how == "ctor":
                m = Big(**{name: v})
            elif how == "setattr":
                m = Big()
                setattr(m, name, v)
            else:  # another member selected first, then displaced
                m = Big(c_int=9) if name != "c_int" else Big(c_str="q")
                setattr(m, name, v)
            assert betterproto.which_one_of(m, "choice")[0] == name
            assert m.to_dict() == {key: vj}, (name, how, m.to_dict())
            assert m.to_dict(casing=Casing.SNAKE) == {name: vj}
            full = m.to_dict(include_default_values=True)
            expect = {**DEFAULT_JSON, **REST_DEFAULT_JSON, key: vj}
            if name == "c_child":
                expect[key] = {"n": v.n, "tags": []}
            assert full == expect, (name, how, full)
            assert list(full) == list(expect)
            cross_check(m)
            # the second oneof is independent of the first
            m.o_s32 = 0
            assert m.to_dict() == {key: vj, "oS32": 0}
            m.o_u64 = 2**64 - 1
            assert m.to_dict() == {key: vj, "oU64": str(2**64 - 1)}
            cross_check(m)

# parsed from the wire / from JSON: same selection, same output
for name, (value, value_json, zero, zero_json) in CHOICES.items():
    for v, vj in ((value, value_json), (zero, zero_json)):
        m = Big().parse(bytes(Big(**{name: v})))
        assert m.to_dict() == {camel(name): vj}, (name, m.to_dict())
        m2 = Big().from_dict({camel(name): vj})
        assert m2.to_dict() == {camel(name): vj}
        m3 = Big.from_dict({camel(name): vj})
        assert m3.to_dict() == {camel(name): vj}
        cross_check(m), cross_check(m2), cross_check(m3)

# unselected members stay unreadable, to_dict does not select or materialise them
m = Big(c_str="s")
m.to_dict(), m.to_dict(include_default_values=True), m.to_json()
assert betterproto.which_one_of(m, "choice") == ("c_str", "s")
assert betterproto.which_one_of(m, "other") == ("", None)
for name in CHOICES:
    if name != "c_str":
        try:
            getattr(m, name)
        except AttributeError:
            pass
        else:
            raise AssertionError(name)
assert bytes(m) == bytes(Big(c_str="s"))

# optional fields
m = Big(opt_int=0, opt_str="")
assert m.to_dict() == {"optInt": 0, "optStr": ""}
cross_check(m)
m = Big(opt_int=-7)
assert m.to_dict() == {"optInt": -7}
cross_check(m)

# children that are read, filled in place, or set empty
m = Big()
m.child.tags.append("t")
m.children.append(Child())
m.child_by_id[0] = Child()
m.color_by_name[""] = Color.ZERO
assert m.to_dict() == {"children": [{}], "colorByName": {"": "ZERO"}, "childById": {0: {}},
                       "child": {"tags": ["t"]}}
cross_check(m)
m = Big(child=Child(n=0))
assert m.to_dict() == {"child": {}}
cross_check(m)
m = Big()
_ = m.child  # reading is not setting
assert m.to_dict() == {}
cross_check(m)

# ------------------------------------------------------------ 2. randomised messages
rng = random.Random(50505)


def rnd_ts():
    return EPOCH + timedelta(seconds=rng.randint(-62135596800, 253402300799),
                             microseconds=rng.choice([0, 0, 1, 999999, 500000, rng.randrange(10**6)]))


def rnd_dur():
    us = rng.choice([0, 1, -1, 999, 10**6, -10**6, rng.randint(-10**15, 10**15),
                     rng.randint(-315576000000 * 10**6, 315576000000 * 10**6)])
    return timedelta(microseconds=1) * us


def rnd_i64():
    return rng.choice([0, 1, -1, 2**63 - 1, -2**63, 2**53 + 1, rng.randint(-2**63, 2**63 - 1)])


def rnd_str():
    return "".join(rng.choice(["a", "B", "_", " ", "\"", "\\", "é", "中", "\U0001f600", "\n", "0"])
                   for _ in range(rng.randint(0, 6)))


def rnd_bytes():
    return bytes(rng.randrange(256) for _ in range(rng.randint(0, 7)))


def rnd_color():
    return rng.choice([Color.ZERO, Color.RED, Color.BLUE, Color.NEG])


def rnd_child():
    return Child(n=rng.choice([0, 1, -2**31, 2**31 - 1]), tags=[rnd_str() for _ in range(rng.randint(0, 2))])


def rnd_double():
    return rng.choice([0.0, 1.0, -1.5, 1e300, -1e-300, 5e-324, float("inf"), float("-inf"),
                       rng.uniform(-1e6, 1e6), 0.1])


MAKERS = {
    "c_int": lambda: rng.choice([0, 1, -1, 2**31 - 1, -2**31]),
    "c_long": rnd_i64, "c_str": rnd_str, "c_bytes": rnd_bytes,
    "c_bool": lambda: rng.random() < 0.5, "c_double": rnd_double, "c_color": rnd_color,
    "c_child": rnd_child, "c_ts": rnd_ts, "c_dur": rnd_dur,
}


def rnd_big():
    kw = {}
    if rng.random() < 0.8:
        name = rng.choice(list(MAKERS))
        kw[name] = MAKERS[name]()
    r = rng.random()
    if r < 0.3:
        kw["o_u64"] = rng.choice([0, 1, 2**64 - 1, rng.randrange(2**64)])
    elif r < 0.6:
        kw["o_s32"] = rng.choice([0, -1, 2**31 - 1, -2**31])
    if rng.random() < 0.5:
        kw["plain"] = rng.choice([0, 3, -3])
    if rng.random() < 0.4:
        kw["opt_int"] = rng.choice([0, 1, -1])
    if rng.random() < 0.4:
        kw["opt_str"] = rnd_str()
    if rng.random() < 0.5:
        kw["longs"] = [rnd_i64() for _ in range(rng.randint(0, 3))]
    if rng.random() < 0.5:
        kw["colors"] = [rnd_color() for _ in range(rng.randint(0, 3))]
    if rng.random() < 0.5:
        kw["children"] = [rnd_child() for _ in range(rng.randint(0, 3))]
    if rng.random() < 0.5:
        kw["color_by_name"] = {rnd_str(): rnd_color() for _ in range(rng.randint(0, 3))}
    if rng.random() < 0.5:
        kw["child_by_id"] = {rng.choice([0, 1, -1, 2**31 - 1, -2**31]): rnd_child()
                             for _ in range(rng.randint(0, 3))}
    if rng.random() < 0.5:
        kw["long_by_flag"] = {rng.random() < 0.5: rnd_i64() for _ in range(rng.randint(0, 2))}
    if rng.random() < 0.5:
        kw["stamps"] = [rnd_ts() for _ in range(rng.randint(0, 3))]
    if rng.random() < 0.5:
        kw["dur_by_name"] = {rnd_str(): rnd_dur() for _ in range(rng.randint(0, 3))}
    if rng.random() < 0.5:
        kw["child"] = rnd_child()
    if rng.random() < 0.5:
        kw["ts"] = rnd_ts()
    if rng.random() < 0.5:
        kw["dur"] = rnd_dur()
    if rng.random() < 0.4:
        kw["wrapped_long"] = rnd_i64()
    if rng.random() < 0.4:
        kw["wrapped_bytes"] = rnd_bytes()
    if rng.random() < 0.5:
        kw["color"] = rnd_color()
    if rng.random() < 0.5:
        kw["blob"] = rnd_bytes()
    if rng.random() < 0.5:
        kw["ratio"] = rnd_double()
    return Big(**kw)


for i in range(1500):
    msg = rnd_big()
    cross_check(msg)
    # the same value after a wire round trip behaves the same
    again = Big().parse(bytes(msg))
    assert again.to_dict() == msg.to_dict(), i
    assert again.to_dict(include_default_values=True) == msg.to_dict(include_default_values=True), i
    # include_default_values lists every field exactly once, in declaration order
    assert list(msg.to_dict(include_default_values=True)) == [
        camel(f) for f in Big._betterproto.meta_by_field_name]

print("ok")
