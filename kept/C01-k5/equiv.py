"""Equivalence checks for the refactor of load_varint / load_fields (tag and payload framing).

Everything is compared against an independent reference written here and, where
possible, against google.protobuf.  Runs unchanged on the pristine tree and on the
refactored tree.
"""
import random
import struct
from dataclasses import dataclass
from io import BytesIO
from typing import Dict, List

import betterproto
from betterproto import (
    ParsedField,
    decode_varint,
    load_fields,
    load_varint,
    parse_fields,
)
from google.protobuf import descriptor_pb2, descriptor_pool, message_factory
from google.protobuf.internal import decoder as pb_decoder
from google.protobuf.internal import encoder as pb_encoder

rnd = random.Random(0xC01)


# ----------------------------------------------------------------------------------
# reference implementations
# ----------------------------------------------------------------------------------
def ref_encode_varint(value: int) -> bytes:
    assert value >= 0
    out = bytearray()
    while True:
        b = value & 0x7F
        value >>= 7
        if value:
            out.append(b | 0x80)
        else:
            out.append(b)
            return bytes(out)


def ref_decode_varint(data: bytes, pos: int = 0):
    """-> ('ok', value, newpos) | ('eof', consumed) | ('toolong', consumed)"""
    result = 0
    n = 0
    while True:
        if n == 10:
            return ("toolong", pos + n)
        if pos + n >= len(data):
            return ("eof", len(data))
        b = data[pos + n]
        result |= (b & 0x7F) << (7 * n)
        n += 1
        if not b & 0x80:
            return ("ok", result, pos + n)


TOO_MANY = "Too many bytes when decoding varint."
EOF_VARINT = "Stream ended unexpectedly while attempting to load varint."


def check_load_varint(data: bytes, use_first: bool):
    """Run load_varint on data and compare to the reference, incl. stream position."""
    ref = ref_decode_varint(data)
    stream = BytesIO(data)
    first = b""
    if use_first and data:
        first = stream.read(1)
    try:
        got = load_varint(stream, first) if use_first else load_varint(stream)
    except EOFError as e:
        assert ref[0] == "eof", (data, ref)
        assert str(e) == EOF_VARINT
        assert stream.tell() == len(data)
        return
    except ValueError as e:
        assert ref[0] == "toolong", (data, ref)
        assert str(e) == TOO_MANY
        # exactly ten bytes were consumed, the eleventh is not touched
        assert stream.tell() == 10, stream.tell()
        return
    assert ref[0] == "ok", (data, ref, got)
    value, raw = got
    assert type(value) is int and type(raw) is bytes
    assert value == ref[1], (data, value, ref)
    assert raw == data[: ref[2]]
    assert stream.tell() == ref[2]


# ----------------------------------------------------------------------------------
# 1. load_varint / decode_varint: values, raw bytes, positions
# ----------------------------------------------------------------------------------
boundary_values = {0, 1, 2, 126, 127, 128, 129, 255, 256, 300, 16383, 16384}
for bits in range(1, 65):
    for delta in (-1, 0, 1):
        v = (1 << bits) + delta
        if 0 <= v < (1 << 64):
            boundary_values.add(v)
boundary_values |= {rnd.getrandbits(rnd.randint(1, 64)) for _ in range(3000)}

for v in sorted(boundary_values):
    enc = ref_encode_varint(v)
    assert enc == pb_encoder._VarintBytes(v)
    assert enc == betterproto.encode_varint(v)
    assert pb_decoder._DecodeVarint(enc, 0) == (v, len(enc))
    for trailer in (b"", b"\x00", b"\xff\xff\x01", b"\x80"):
        for use_first in (False, True):
            check_load_varint(enc + trailer, use_first)
        stream = BytesIO(enc + trailer)
        assert load_varint(stream) == (v, enc)
        assert stream.tell() == len(enc)
        # first byte handed over by the caller
        stream = BytesIO(enc + trailer)
        f = stream.read(1)
        assert load_varint(stream, f) == (v, enc)
        assert stream.tell() == len(enc)
        # buffer based reader, at an offset
        for prefix in (b"", b"\x81", b"\x00\x00\x00"):
            assert decode_varint(prefix + enc + trailer, len(prefix)) == (
                v,
                len(prefix) + len(enc),
            )
    # every strict prefix is an unexpected end of stream
    for cut in range(len(enc)):
        for use_first in (False, True):
            check_load_varint(enc[:cut], use_first)
        try:
            load_varint(BytesIO(enc[:cut]))
        except EOFError as e:
            assert str(e) == EOF_VARINT
        else:
            raise AssertionError("truncated varint accepted")

# non-canonical (padded) encodings and ten byte varints with all kinds of tenth bytes
for v in (0, 1, 127, 128, 2**32, 2**63, 2**64 - 1):
    enc = bytearray(ref_encode_varint(v))
    while len(enc) < 10:
        enc[-1] |= 0x80
        enc.append(0x00)
        check_load_varint(bytes(enc), False)
        check_load_varint(bytes(enc), True)
        assert load_varint(BytesIO(bytes(enc))) == (v, bytes(enc))
for tenth in range(0, 128):
    data = b"\xff" * 9 + bytes([tenth])
    expected = (2**63 - 1) | (tenth << 63)  # bits beyond 64 are not masked off
    assert load_varint(BytesIO(data)) == (expected, data)
    assert decode_varint(data, 0) == (expected, 10)
    check_load_varint(data + b"\x01", True)

# eleven and more bytes: rejected, ten bytes consumed
for n in range(10, 14):
    for fill in (0x80, 0xFF, 0x81):
        data = bytes([fill]) * n + b"\x01\x02\x03"
        for use_first in (False, True):
            check_load_varint(data, use_first)
        try:
            decode_varint(data, 0)
        except ValueError as e:
            assert str(e) == TOO_MANY
        else:
            raise AssertionError("over-long varint accepted")
        try:
            list(load_fields(BytesIO(data)))
        except ValueError as e:
            assert str(e) == TOO_MANY
        else:
            raise AssertionError("over-long tag accepted")

# random byte strings
for _ in range(20000):
    data = bytes(
        rnd.choice((0x00, 0x01, 0x7F, 0x80, 0xFF, rnd.randrange(256)))
        for _ in range(rnd.randint(0, 13))
    )
    check_load_varint(data, rnd.random() < 0.5)

# empty stream
for use_first in (False, True):
    check_load_varint(b"", use_first)


# ----------------------------------------------------------------------------------
# 2. load_fields: framing of whole field sequences
# ----------------------------------------------------------------------------------
def ref_fields(data: bytes):
    """Reference framing: list of ParsedField, then the terminating condition."""
    out = []
    pos = 0
    while True:
        if pos == len(data):
            return out, None
        start = pos
        r = ref_decode_varint(data, pos)
        if r[0] == "eof":
            return out, (EOFError, EOF_VARINT)
        if r[0] == "toolong":
            return out, (ValueError, TOO_MANY)
        _, tag, pos = r
        number, wt = tag >> 3, tag & 7
        if number == 0:
            return out, (ValueError, "Invalid field number 0.")
        if wt == 0:
            r = ref_decode_varint(data, pos)
            if r[0] == "eof":
                return out, (EOFError, EOF_VARINT)
            if r[0] == "toolong":
                return out, (ValueError, TOO_MANY)
            _, value, pos = r
        elif wt in (1, 5):
            size = 8 if wt == 1 else 4
            value = data[pos : pos + size]
            if len(value) != size:
                return out, (
                    EOFError,
                    f"Stream ended unexpectedly: expected {size} bytes but got {len(value)}.",
                )
            pos += size
        elif wt == 2:
            r = ref_decode_varint(data, pos)
            if r[0] == "eof":
                return out, (EOFError, EOF_VARINT)
            if r[0] == "toolong":
                return out, (ValueError, TOO_MANY)
            _, size, pos = r
            value = data[pos : pos + size]
            if len(value) != size:
                return out, (
                    EOFError,
                    f"Stream ended unexpectedly: expected {size} bytes but got {len(value)}.",
                )
            pos += size
        else:
            return out, (
                ValueError,
                f"Unsupported wire type {wt} in field {number}.",
            )
        out.append(
            ParsedField(number=number, wire_type=wt, value=value, raw=data[start:pos])
        )


def check_load_fields(data: bytes):
    expected, err = ref_fields(data)
    got = []
    gen = load_fields(BytesIO(data))
    try:
        for f in gen:
            got.append(f)
    except (EOFError, ValueError) as e:
        assert err is not None, (data, e)
        assert type(e) is err[0], (data, e, err)
        assert str(e) == err[1], (data, str(e), err)
    else:
        assert err is None, (data, err)
        assert b"".join(f.raw for f in got) == data
    # the fields in front of a framing error are still delivered, in order
    assert got == expected, (data, got, expected)
    for f in got:
        assert type(f.number) is int and type(f.wire_type) is int
        assert type(f.raw) is bytes
        assert type(f.value) is (int if f.wire_type == 0 else bytes)
    return got, err


FIELD_NUMBERS = [1, 2, 15, 16, 17, 127, 128, 2047, 2048, 2**21, 2**28, 2**29 - 1]


def random_field() -> bytes:
    number = rnd.choice(FIELD_NUMBERS + [rnd.randint(1, 2**29 - 1)])
    wt = rnd.choice((0, 1, 2, 5))
    key = ref_encode_varint((number << 3) | wt)
    if wt == 0:
        return key + ref_encode_varint(rnd.choice(sorted(boundary_values)[:400] + [2**64 - 1, 2**63]))
    if wt == 1:
        return key + rnd.randbytes(8)
    if wt == 5:
        return key + rnd.randbytes(4)
    size = rnd.choice((0, 0, 1, 2, 127, 128, 129, 300, rnd.randint(0, 40)))
    return key + ref_encode_varint(size) + rnd.randbytes(size)


assert check_load_fields(b"") == ([], None)
for _ in range(1500):
    parts = [random_field() for _ in range(rnd.randint(1, 6))]
    data = b"".join(parts)
    got, err = check_load_fields(data)
    assert err is None and len(got) == len(parts)
    assert [f.raw for f in got] == parts
    # the buffer based twin frames the same way
    assert list(parse_fields(data)) == got
    # every prefix: clean end at a field boundary, an error anywhere else
    boundaries = {0}
    for p in parts:
        boundaries.add(max(boundaries) + len(p))
    step = 1 if len(data) < 80 else 7
    for cut in list(range(0, len(data), step)) + sorted(boundaries):
        got_cut, err_cut = check_load_fields(data[:cut])
        assert (err_cut is None) == (cut in boundaries), (data, cut, err_cut)
        if err_cut is not None:
            assert err_cut[0] is EOFError

# field number 0, unsupported wire types (also behind valid fields)
good = b"\x08\x01" + b"\x12\x00" + b"\x85\x01abcd"
for prefix in (b"", good):
    for wt in range(8):
        got, err = check_load_fields(prefix + bytes([wt]) + b"\x00" * 9)
        assert err == (ValueError, "Invalid field number 0.")
        assert len(got) == (3 if prefix else 0)
    for number in (1, 16, 2**29 - 1):
        for wt in (3, 4, 6, 7):
            data = prefix + ref_encode_varint((number << 3) | wt) + b"\x00" * 9
            got, err = check_load_fields(data)
            assert err == (ValueError, f"Unsupported wire type {wt} in field {number}.")
            assert len(got) == (3 if prefix else 0)
    # tag varint that is padded to several bytes / to more than 32 bits
    got, err = check_load_fields(prefix + b"\x88\x80\x80\x00" + b"\x05")
    assert err is None and got[-1] == ParsedField(1, 0, 5, b"\x88\x80\x80\x00\x05")
    big = ref_encode_varint(((2**40) << 3) | 2) + b"\x01Z"
    got, err = check_load_fields(prefix + big)
    assert err is None and got[-1] == ParsedField(2**40, 2, b"Z", big)

# the generator is lazy: it does not read ahead of the field it delivers
stream = BytesIO(good + b"\x08")
gen = load_fields(stream)
assert next(gen) == ParsedField(1, 0, 1, b"\x08\x01")
assert stream.tell() == 2
assert next(gen) == ParsedField(2, 2, b"", b"\x12\x00")
assert stream.tell() == 4
assert next(gen) == ParsedField(16, 5, b"abcd", b"\x85\x01abcd")
assert stream.tell() == len(good)
try:
    next(gen)
except EOFError as e:
    assert str(e) == EOF_VARINT
else:
    raise AssertionError("dangling tag accepted")

# random garbage
for _ in range(20000):
    data = bytes(
        rnd.choice((0x00, 0x08, 0x0A, 0x0D, 0x09, 0x01, 0x80, 0xFF, rnd.randrange(256)))
        for _ in range(rnd.randint(0, 16))
    )
    check_load_fields(data)


# ----------------------------------------------------------------------------------
# 3. whole messages, against google.protobuf
# ----------------------------------------------------------------------------------
class Color(betterproto.Enum):
    ZERO = 0
    ONE = 1
    NEG = -5
    BIG = 2147483647


@dataclass(eq=False, repr=False)
class Inner(betterproto.Message):
    a: int = betterproto.sint32_field(1)
    s: str = betterproto.string_field(300)


@dataclass(eq=False, repr=False)
class Outer(betterproto.Message):
    i32: int = betterproto.int32_field(1)
    i64: int = betterproto.int64_field(2)
    u64: int = betterproto.uint64_field(3)
    s64: int = betterproto.sint64_field(4)
    f32: int = betterproto.fixed32_field(5)
    sf64: int = betterproto.sfixed64_field(6)
    d: float = betterproto.double_field(7)
    f: float = betterproto.float_field(8)
    s: str = betterproto.string_field(15)
    b: bytes = betterproto.bytes_field(16)
    r64: List[int] = betterproto.int64_field(17)
    rf: List[float] = betterproto.float_field(2047)
    rs: List[str] = betterproto.string_field(2048)
    inner: Inner = betterproto.message_field(100000)
    rinner: List[Inner] = betterproto.message_field(100001)
    m: Dict[str, int] = betterproto.map_field(
        100002, betterproto.TYPE_STRING, betterproto.TYPE_INT32
    )
    e: Color = betterproto.enum_field(536870911)
    re: List[Color] = betterproto.enum_field(536870910)


def build_pb_classes():
    F = descriptor_pb2.FieldDescriptorProto
    fd = descriptor_pb2.FileDescriptorProto(name="c01_keep1.proto", package="c01k1", syntax="proto3")
    en = fd.enum_type.add(name="Color")
    for n, v in (("ZERO", 0), ("ONE", 1), ("NEG", -5), ("BIG", 2147483647)):
        en.value.add(name=n, number=v)
    inner = fd.message_type.add(name="Inner")
    inner.field.add(name="a", number=1, type=F.TYPE_SINT32, label=F.LABEL_OPTIONAL)
    inner.field.add(name="s", number=300, type=F.TYPE_STRING, label=F.LABEL_OPTIONAL)
    outer = fd.message_type.add(name="Outer")
    entry = outer.nested_type.add(name="MEntry")
    entry.options.map_entry = True
    entry.field.add(name="key", number=1, type=F.TYPE_STRING, label=F.LABEL_OPTIONAL)
    entry.field.add(name="value", number=2, type=F.TYPE_INT32, label=F.LABEL_OPTIONAL)
    O, R = F.LABEL_OPTIONAL, F.LABEL_REPEATED
    for name, number, typ, label, tn in (
        ("i32", 1, F.TYPE_INT32, O, None),
        ("i64", 2, F.TYPE_INT64, O, None),
        ("u64", 3, F.TYPE_UINT64, O, None),
        ("s64", 4, F.TYPE_SINT64, O, None),
        ("f32", 5, F.TYPE_FIXED32, O, None),
        ("sf64", 6, F.TYPE_SFIXED64, O, None),
        ("d", 7, F.TYPE_DOUBLE, O, None),
        ("f", 8, F.TYPE_FLOAT, O, None),
        ("s", 15, F.TYPE_STRING, O, None),
        ("b", 16, F.TYPE_BYTES, O, None),
        ("r64", 17, F.TYPE_INT64, R, None),
        ("rf", 2047, F.TYPE_FLOAT, R, None),
        ("rs", 2048, F.TYPE_STRING, R, None),
        ("inner", 100000, F.TYPE_MESSAGE, O, ".c01k1.Inner"),
        ("rinner", 100001, F.TYPE_MESSAGE, R, ".c01k1.Inner"),
        ("m", 100002, F.TYPE_MESSAGE, R, ".c01k1.Outer.MEntry"),
        ("e", 536870911, F.TYPE_ENUM, O, ".c01k1.Color"),
        ("re", 536870910, F.TYPE_ENUM, R, ".c01k1.Color"),
    ):
        f = outer.field.add(name=name, number=number, type=typ, label=label)
        if tn:
            f.type_name = tn
    pool = descriptor_pool.DescriptorPool()
    pool.Add(fd)
    return message_factory.GetMessageClass(pool.FindMessageTypeByName("c01k1.Outer"))


PbOuter = build_pb_classes()

I32 = [0, 1, -1, 2**31 - 1, -(2**31), 127, 128, -128]
I64 = [0, 1, -1, 2**63 - 1, -(2**63), 2**32, -(2**32) - 1, 300]
U64 = [0, 1, 2**64 - 1, 2**63, 2**32, 127, 128]
F32 = [0, 1, 2**32 - 1, 2**31]
FLOATS = [0.0, 1.5, -2.25, float("inf"), float("-inf"), 3.0e38, 1.0e-45 * 0 + 2.0**-149]
DOUBLES = FLOATS + [1.0e308, 5e-324, 0.1]
STRINGS = ["", "a", "é中", "\U0001F600\U0001F9D1", "x" * 127, "y" * 128, "z" * 20000]
BYTES = [b"", b"\x00", b"\xff\x80\x00", bytes(range(256)), b"\x80" * 300]
ENUMS = [0, 1, -5, 2147483647, -(2**31), 77, -1]


def random_inner_kwargs():
    kw = {}
    if rnd.random() < 0.7:
        kw["a"] = rnd.choice(I32)
    if rnd.random() < 0.7:
        kw["s"] = rnd.choice(STRINGS[:6])
    return kw


def some(seq, k=4):
    return [rnd.choice(seq) for _ in range(rnd.randint(0, k))]


for _ in range(1200):
    pb = PbOuter()
    pb.i32 = rnd.choice(I32)
    pb.i64 = rnd.choice(I64)
    pb.u64 = rnd.choice(U64)
    pb.s64 = rnd.choice(I64)
    pb.f32 = rnd.choice(F32)
    pb.sf64 = rnd.choice(I64)
    pb.d = rnd.choice(DOUBLES)
    pb.f = rnd.choice(FLOATS)
    pb.s = rnd.choice(STRINGS)
    pb.b = rnd.choice(BYTES)
    pb.r64.extend(some(I64, 6))
    pb.rf.extend(some(FLOATS))
    pb.rs.extend(some(STRINGS[:6]))
    if rnd.random() < 0.7:
        ik = random_inner_kwargs()
        pb.inner.SetInParent()
        for k, v in ik.items():
            setattr(pb.inner, k, v)
    for _ in range(rnd.randint(0, 3)):
        pb.rinner.add(**random_inner_kwargs())
    for _ in range(rnd.randint(0, 3)):
        pb.m[rnd.choice(STRINGS[:6])] = rnd.choice(I32)
    pb.e = rnd.choice(ENUMS)
    pb.re.extend(some(ENUMS))
    wire = pb.SerializeToString(deterministic=True)

    # google's bytes are framed into the same fields by both readers
    framed, err = check_load_fields(wire)
    assert err is None
    assert list(parse_fields(wire)) == framed

    bp = Outer().parse(wire)
    assert bp._unknown_fields == b""
    assert (bp.i32, bp.i64, bp.u64, bp.s64, bp.f32, bp.sf64) == (
        pb.i32, pb.i64, pb.u64, pb.s64, pb.f32, pb.sf64,
    )
    assert struct.pack("<d", bp.d) == struct.pack("<d", pb.d)
    assert struct.pack("<f", bp.f) == struct.pack("<f", pb.f)
    assert bp.s == pb.s and bp.b == pb.b
    assert bp.r64 == list(pb.r64) and bp.rs == list(pb.rs)
    assert [struct.pack("<f", x) for x in bp.rf] == [struct.pack("<f", x) for x in pb.rf]
    assert betterproto.serialized_on_wire(bp.inner) == pb.HasField("inner")
    assert (bp.inner.a, bp.inner.s) == (pb.inner.a, pb.inner.s)
    assert [(i.a, i.s) for i in bp.rinner] == [(i.a, i.s) for i in pb.rinner]
    assert bp.m == dict(pb.m)
    assert int(bp.e) == pb.e and [int(x) for x in bp.re] == list(pb.re)

    # betterproto's own bytes: stable under a round trip and readable by google
    again = bytes(bp)
    bp2 = Outer().parse(again)
    assert bp2 == bp and bytes(bp2) == again
    assert betterproto.serialized_on_wire(bp2.inner) == betterproto.serialized_on_wire(bp.inner)
    pb2 = PbOuter.FromString(again)
    assert pb2 == pb, (pb, pb2)
    framed2, err2 = check_load_fields(again)
    assert err2 is None and b"".join(f.raw for f in framed2) == again

    # truncating a real message never goes unnoticed inside a field
    for cut in rnd.sample(range(len(wire) + 1), min(len(wire) + 1, 12)):
        exp_fields, exp_err = ref_fields(wire[:cut])
        try:
            part = Outer().parse(wire[:cut])
        except (EOFError, ValueError) as e:
            # the error may also come from a nested message's own framing
            assert isinstance(e, (EOFError, ValueError))
        else:
            assert exp_err is None

# size-delimited streams use the same framing
buf = BytesIO()
msgs = [Outer(i32=-1, s="abc", r64=[1, -1]), Outer(), Outer(inner=Inner(a=-3)), Outer(b=b"\x00" * 200)]
for msg in msgs:
    msg.dump(buf, betterproto.SIZE_DELIMITED)
buf.seek(0)
for msg in msgs:
    assert Outer().load(buf, betterproto.SIZE_DELIMITED) == msg
assert buf.read() == b""

# unknown fields are kept verbatim through the raw bytes of the framing
unknown = ref_encode_varint((999 << 3) | 0) + b"\xff\xff\xff\xff\xff\xff\xff\xff\xff\x01" \
    + ref_encode_varint((998 << 3) | 2) + b"\x00" + ref_encode_varint((997 << 3) | 5) + b"wxyz" \
    + ref_encode_varint((996 << 3) | 1) + b"12345678"
msg = Outer().parse(b"\x08\x05" + unknown + b"\x10\x07")
assert (msg.i32, msg.i64) == (5, 7) and msg._unknown_fields == unknown
assert bytes(msg) == b"\x08\x05\x10\x07" + unknown

print("keep1 equiv: OK")
