"""C06 equivalence check (keep1: Message.__getattribute__ restructuring).

Exercises lazy default materialisation, the AttributeError of unselected oneof members
and - through them - the whole presence matrix
  field kind x {never set, set to default, set to non-default}
             x {constructor, attribute assignment, parse, from_dict}
alone and in random combinations, judged against google.protobuf (bytes, HasField,
WhichOneof).

Run:  PYTHONPATH=/tmp/wt/R6C06/src /venv/bin/python equiv.py
"""
import base64
import copy
import random
import sys
from dataclasses import dataclass
from typing import Dict, List, Optional

import betterproto
from betterproto import PLACEHOLDER
from google.protobuf import (
    descriptor_pb2,
    descriptor_pool,
    message_factory,
    wrappers_pb2,
)

F = descriptor_pb2.FieldDescriptorProto

# =========================================================================== schema
# (name, number, kind, proto type)   kind: plain | opt | oneof | wrap | rep | map | sub
SCALARS = {
    "int32": (F.TYPE_INT32, betterproto.int32_field, int),
    "int64": (F.TYPE_INT64, betterproto.int64_field, int),
    "uint32": (F.TYPE_UINT32, betterproto.uint32_field, int),
    "uint64": (F.TYPE_UINT64, betterproto.uint64_field, int),
    "sint32": (F.TYPE_SINT32, betterproto.sint32_field, int),
    "sint64": (F.TYPE_SINT64, betterproto.sint64_field, int),
    "bool": (F.TYPE_BOOL, betterproto.bool_field, bool),
    "fixed32": (F.TYPE_FIXED32, betterproto.fixed32_field, int),
    "fixed64": (F.TYPE_FIXED64, betterproto.fixed64_field, int),
    "sfixed32": (F.TYPE_SFIXED32, betterproto.sfixed32_field, int),
    "sfixed64": (F.TYPE_SFIXED64, betterproto.sfixed64_field, int),
    "float": (F.TYPE_FLOAT, betterproto.float_field, float),
    "double": (F.TYPE_DOUBLE, betterproto.double_field, float),
    "string": (F.TYPE_STRING, betterproto.string_field, str),
    "bytes": (F.TYPE_BYTES, betterproto.bytes_field, bytes),
}
DEFAULT = {
    "int32": 0, "int64": 0, "uint32": 0, "uint64": 0, "sint32": 0, "sint64": 0,
    "bool": False, "fixed32": 0, "fixed64": 0, "sfixed32": 0, "sfixed64": 0,
    "float": 0.0, "double": 0.0, "string": "", "bytes": b"", "enum": 0,
}
NONDEFAULT = {
    "int32": [1, -1, 2**31 - 1, -(2**31)],
    "int64": [1, -1, 2**63 - 1, -(2**63)],
    "uint32": [1, 2**32 - 1],
    "uint64": [1, 2**64 - 1],
    "sint32": [1, -1, -(2**31)],
    "sint64": [1, -1, 2**63 - 1],
    "bool": [True],
    "fixed32": [1, 2**32 - 1],
    "fixed64": [1, 2**64 - 1],
    "sfixed32": [-1, 2**31 - 1],
    "sfixed64": [-1, -(2**63)],
    "float": [1.5, -2.25],
    "double": [1.5, -1e300],
    "string": ["x", "héllo"],
    "bytes": [b"\x00", b"\xff\x01"],
    "enum": [1, 2],
}
WRAPPERS = {
    "int32": (wrappers_pb2.Int32Value, betterproto.TYPE_INT32),
    "int64": (wrappers_pb2.Int64Value, betterproto.TYPE_INT64),
    "uint32": (wrappers_pb2.UInt32Value, betterproto.TYPE_UINT32),
    "uint64": (wrappers_pb2.UInt64Value, betterproto.TYPE_UINT64),
    "bool": (wrappers_pb2.BoolValue, betterproto.TYPE_BOOL),
    "float": (wrappers_pb2.FloatValue, betterproto.TYPE_FLOAT),
    "double": (wrappers_pb2.DoubleValue, betterproto.TYPE_DOUBLE),
    "string": (wrappers_pb2.StringValue, betterproto.TYPE_STRING),
    "bytes": (wrappers_pb2.BytesValue, betterproto.TYPE_BYTES),
}

FIELDS = []  # (name, number, kind, type)
_n = 0


def _add(name, kind, typ):
    global _n
    _n += 1
    FIELDS.append((name, _n, kind, typ))


for _t in SCALARS:
    _add(f"p_{_t}", "plain", _t)
_add("p_enum", "plain", "enum")
_add("p_sub", "sub", "sub")
for _t in SCALARS:
    _add(f"o_{_t}", "opt", _t)
_add("o_enum", "opt", "enum")
_add("o_sub", "opt", "sub")
for _t in ("int32", "sint64", "bool", "fixed32", "double", "string", "bytes"):
    _add(f"c_{_t}", "oneof", _t)
_add("c_enum", "oneof", "enum")
_add("c_sub", "oneof", "sub")
_add("c_wrap", "oneof", "wrap:int32")
for _t in ("string", "uint32"):
    _add(f"d_{_t}", "oneof2", _t)
for _t in WRAPPERS:
    _add(f"w_{_t}", "wrap", _t)
for _t in ("int32", "sint32", "bool", "fixed32", "double", "float", "sfixed64", "string", "bytes"):
    _add(f"r_{_t}", "rep", _t)
_add("r_enum", "rep", "enum")
_add("r_sub", "rep", "sub")
_add("m_si", "map", ("string", "int32"))
_add("m_is", "map", ("int32", "sub"))
# a large field number: two-byte tags
_n = 2000
_add("p_far", "plain", "int32")
_add("o_far", "opt", "string")

BY_NAME = {f[0]: f for f in FIELDS}


# ------------------------------------------------------------ google.protobuf side
def build_reference():
    fdp = descriptor_pb2.FileDescriptorProto(
        name="c06_equiv.proto",
        package="c06",
        syntax="proto3",
        dependency=["google/protobuf/wrappers.proto"],
    )
    enum = fdp.enum_type.add(name="Color")
    for i, nm in enumerate(["ZERO", "ONE", "TWO"]):
        enum.value.add(name=nm, number=i)
    sub = fdp.message_type.add(name="Sub")
    sub.field.add(name="x", number=1, type=F.TYPE_INT32, label=F.LABEL_OPTIONAL)
    sub.field.add(name="s", number=2, type=F.TYPE_STRING, label=F.LABEL_OPTIONAL)
    msg = fdp.message_type.add(name="M")
    msg.oneof_decl.add(name="choice")
    msg.oneof_decl.add(name="other")
    synthetic = []
    for name, number, kind, typ in FIELDS:
        fd = msg.field.add(name=name, number=number, label=F.LABEL_OPTIONAL)
        if kind == "map":
            entry = msg.nested_type.add(name=f"{name.title().replace('_', '')}Entry")
            entry.options.map_entry = True
            kt, vt = typ
            entry.field.add(name="key", number=1, label=F.LABEL_OPTIONAL, type=SCALARS[kt][0])
            if vt == "sub":
                entry.field.add(name="value", number=2, label=F.LABEL_OPTIONAL,
                                type=F.TYPE_MESSAGE, type_name=".c06.Sub")
            else:
                entry.field.add(name="value", number=2, label=F.LABEL_OPTIONAL, type=SCALARS[vt][0])
            fd.type = F.TYPE_MESSAGE
            fd.type_name = f".c06.M.{entry.name}"
            fd.label = F.LABEL_REPEATED
            continue
        if kind == "rep":
            fd.label = F.LABEL_REPEATED
        if typ == "enum":
            fd.type = F.TYPE_ENUM
            fd.type_name = ".c06.Color"
        elif typ == "sub":
            fd.type = F.TYPE_MESSAGE
            fd.type_name = ".c06.Sub"
        elif kind == "wrap" or (isinstance(typ, str) and typ.startswith("wrap:")):
            wt = typ.split(":")[-1]
            fd.type = F.TYPE_MESSAGE
            fd.type_name = "." + WRAPPERS[wt][0].DESCRIPTOR.full_name
        else:
            fd.type = SCALARS[typ][0]
        if kind == "oneof":
            fd.oneof_index = 0
        elif kind == "oneof2":
            fd.oneof_index = 1
        elif kind == "opt":
            synthetic.append(fd)
    for fd in synthetic:
        fd.proto3_optional = True
        fd.oneof_index = len(msg.oneof_decl)
        msg.oneof_decl.add(name=f"_{fd.name}")
    pool = descriptor_pool.Default()
    fd = pool.Add(fdp)
    return (
        message_factory.GetMessageClass(fd.message_types_by_name["M"]),
        message_factory.GetMessageClass(fd.message_types_by_name["Sub"]),
    )


RefM, RefSub = build_reference()


# ---------------------------------------------------------------- betterproto side
class Color(betterproto.Enum):
    ZERO = 0
    ONE = 1
    TWO = 2


@dataclass(eq=False, repr=False)
class Sub(betterproto.Message):
    x: int = betterproto.int32_field(1)
    s: str = betterproto.string_field(2)


def build_betterproto():
    annotations = {}
    namespace = {}
    for name, number, kind, typ in FIELDS:
        group = {"oneof": "choice", "oneof2": "other"}.get(kind)
        optional = kind == "opt"
        if kind == "map":
            kt, vt = typ
            if vt == "sub":
                annotations[name] = Dict[int, Sub]
                namespace[name] = betterproto.map_field(number, kt, betterproto.TYPE_MESSAGE)
            else:
                annotations[name] = Dict[str, int]
                namespace[name] = betterproto.map_field(number, kt, vt)
            continue
        if typ == "enum":
            py, fld = Color, betterproto.enum_field(number, group=group, optional=optional)
        elif typ == "sub":
            py, fld = Sub, betterproto.message_field(number, group=group, optional=optional)
        elif kind == "wrap" or (isinstance(typ, str) and typ.startswith("wrap:")):
            wt = typ.split(":")[-1]
            py = Optional[SCALARS[wt][2]]
            fld = betterproto.message_field(number, group=group, wraps=WRAPPERS[wt][1])
        else:
            py = SCALARS[typ][2]
            fld = SCALARS[typ][1](number, group=group, optional=optional)
        if kind == "rep":
            py = List[py]
        elif optional:
            py = Optional[py]
        annotations[name] = py
        namespace[name] = fld
    namespace["__annotations__"] = annotations
    namespace["__module__"] = __name__
    cls = type("M", (betterproto.Message,), namespace)
    return dataclass(eq=False, repr=False)(cls)


M = build_betterproto()
# make the names resolvable for get_type_hints
setattr(sys.modules[__name__], "M", M)

# ==================================================================== value helpers
# An "assignment" is (field name, state, payload):
#   state: "default" | "value"


def values_for(name):
    """All (state, payload) pairs to try for the field."""
    _, _, kind, typ = BY_NAME[name]
    if kind == "map":
        if typ[1] == "sub":
            # (map entries with default key / value are encoded differently from the
            # reference - entry encoding is not what this property is about)
            return [("value", {5: (1, "")}), ("value", {7: (3, "q")})]
        return [("value", {"a": 1}), ("value", {"k": -5})]
    if typ == "sub":
        if kind == "rep":
            return [("value", [(0, "")]), ("value", [(1, "a"), (0, ""), (0, "b")])]
        return [("default", (0, "")), ("value", (4, "")), ("value", (0, "t")), ("value", (-1, "uv"))]
    t = typ.split(":")[-1] if isinstance(typ, str) else typ
    if kind == "rep":
        d = DEFAULT[t]
        nd = NONDEFAULT[t]
        return [("value", [d]), ("value", list(nd)), ("value", [d] + list(nd) + [d])]
    return [("default", DEFAULT[t])] + [("value", v) for v in NONDEFAULT[t]]


def bp_value(name, payload):
    _, _, kind, typ = BY_NAME[name]
    if kind == "map":
        if typ[1] == "sub":
            return {k: Sub(x=x, s=s) for k, (x, s) in payload.items()}
        return dict(payload)
    if typ == "sub":
        if kind == "rep":
            return [Sub(x=x, s=s) for x, s in payload]
        x, s = payload
        # the constructor marks the child as set because fields were passed
        return Sub(x=x, s=s)
    if typ == "enum":
        if kind == "rep":
            return [Color(v) for v in payload]
        return Color(payload)
    if kind == "rep":
        return list(payload)
    return payload


def json_value(name, payload):
    _, _, kind, typ = BY_NAME[name]

    def scalar(t, v):
        if t in ("int64", "uint64", "sint64", "fixed64", "sfixed64"):
            return str(v)
        if t == "bytes":
            return base64.b64encode(v).decode()
        if t == "enum":
            return Color(v).name
        return v

    if kind == "map":
        if typ[1] == "sub":
            return {str(k): {"x": x, "s": s} for k, (x, s) in payload.items()}
        return dict(payload)
    if typ == "sub":
        if kind == "rep":
            return [{"x": x, "s": s} for x, s in payload]
        x, s = payload
        out = {}
        if x:
            out["x"] = x
        if s:
            out["s"] = s
        return out
    t = typ.split(":")[-1]
    if kind == "rep":
        return [scalar(t, v) for v in payload]
    return scalar(t, payload)


def ref_assign(ref, name, payload):
    _, _, kind, typ = BY_NAME[name]
    if kind == "map":
        for k, v in payload.items():
            if typ[1] == "sub":
                ref.m_is[k].x, ref.m_is[k].s = v
            else:
                getattr(ref, name)[k] = v
        return
    if typ == "sub":
        if kind == "rep":
            for x, s in payload:
                getattr(ref, name).add(x=x, s=s)
            return
        child = getattr(ref, name)
        child.SetInParent()
        child.x, child.s = payload
        return
    if kind == "wrap" or (isinstance(typ, str) and typ.startswith("wrap:")):
        getattr(ref, name).value = payload
        return
    if kind == "rep":
        getattr(ref, name).extend(payload)
        return
    setattr(ref, name, payload)


def bp_assign_attr(msg, name, payload, in_place):
    """Attribute assignment; plain / oneof sub-messages may be filled in place."""
    _, _, kind, typ = BY_NAME[name]
    if typ == "sub" and kind == "sub" and in_place:
        x, s = payload
        msg.p_sub.x = x
        msg.p_sub.s = s
        return
    if kind == "rep" and in_place:
        getattr(msg, name).extend(bp_value(name, payload))
        return
    if kind == "map" and in_place:
        getattr(msg, name).update(bp_value(name, payload))
        return
    setattr(msg, name, bp_value(name, payload))


PRESENCE_FIELDS = [f for f in FIELDS if f[2] in ("opt", "wrap", "sub")]


def ref_report(ref):
    rep = {"choice": ref.WhichOneof("choice") or "", "other": ref.WhichOneof("other") or ""}
    for name, _, kind, typ in PRESENCE_FIELDS:
        rep[name] = ref.HasField(name)
    return rep


def bp_report(msg):
    rep = {
        "choice": betterproto.which_one_of(msg, "choice")[0],
        "other": betterproto.which_one_of(msg, "other")[0],
    }
    for name, _, kind, typ in PRESENCE_FIELDS:
        rep[name] = msg.is_set(name)
    for name, _, kind, typ in FIELDS:
        if kind.startswith("oneof"):
            group = "choice" if kind == "oneof" else "other"
            assert msg.is_set(name) == (rep[group] == name), name
    # plain sub-message: serialized_on_wire agrees with is_set
    assert betterproto.serialized_on_wire(msg.p_sub) == rep["p_sub"]
    return rep


def check_values(msg, ref):
    """Every field reads as the reference reads it (defaults when unset)."""
    for name, _, kind, typ in FIELDS:
        if kind.startswith("oneof"):
            group = "choice" if kind == "oneof" else "other"
            if ref.WhichOneof(group) != name:
                try:
                    getattr(msg, name)
                except AttributeError as exc:
                    text = str(exc)
                    current = ref.WhichOneof(group)
                    assert text == f"{group!r} is set to {current!r}, not {name!r}", text
                    if sys.version_info >= (3, 10):
                        assert exc.name == name and exc.obj is msg
                else:
                    raise AssertionError(f"{name} readable although not selected")
                continue
        got = getattr(msg, name)
        if kind == "map":
            want = getattr(ref, name)
            assert set(got) == set(want), name
            for k in want:
                if typ[1] == "sub":
                    assert (got[k].x, got[k].s) == (want[k].x, want[k].s)
                else:
                    assert got[k] == want[k]
        elif typ == "sub":
            if kind == "rep":
                assert [(c.x, c.s) for c in got] == [(c.x, c.s) for c in getattr(ref, name)]
            elif kind == "opt" and not ref.HasField(name):
                assert got is None, name
            else:
                assert (got.x, got.s) == (getattr(ref, name).x, getattr(ref, name).s), name
        elif kind == "wrap" or (isinstance(typ, str) and typ.startswith("wrap:")):
            if ref.HasField(name):
                assert got == getattr(ref, name).value and got is not None, name
            else:
                assert got is None, name
        elif kind == "opt":
            if ref.HasField(name):
                assert got == getattr(ref, name) and got is not None, name
            else:
                assert got is None, name
        elif kind == "rep":
            assert list(got) == list(getattr(ref, name)), name
        else:
            assert got == getattr(ref, name), (name, got)
            assert type(got) is not type(PLACEHOLDER)


N_CHECKS = 0


def check_all(assignments, order_matters=True):
    """Build the same message in every way and compare with the reference."""
    global N_CHECKS
    ref = RefM()
    for name, payload in assignments:
        ref_assign(ref, name, payload)
    data = ref.SerializeToString(deterministic=True)
    want = ref_report(ref)

    built = {}
    # constructor: later duplicates / later oneof members win, as for the reference
    kwargs = {}
    for name, payload in assignments:
        group = BY_NAME[name][2]
        if group.startswith("oneof"):
            for other in [k for k in kwargs if BY_NAME[k][2] == group]:
                del kwargs[other]
        kwargs.pop(name, None)
        kwargs[name] = bp_value(name, payload)
    built["ctor"] = M(**kwargs)
    for in_place in (False, True):
        msg = M()
        for name, payload in assignments:
            if BY_NAME[name][2] in ("rep", "map") and not in_place:
                # plain assignment replaces, the reference extends: do it once
                total = [p for n, p in assignments if n == name]
                if BY_NAME[name][2] == "rep":
                    payload = [item for p in total for item in p]
                else:
                    payload = {k: v for p in total for k, v in p.items()}
            bp_assign_attr(msg, name, payload, in_place)
        built[f"attr{int(in_place)}"] = msg
    built["parse"] = M().parse(data)
    built["FromString"] = M.FromString(data)
    jd = {}
    for name, payload in assignments:
        group = BY_NAME[name][2]
        if group.startswith("oneof"):
            for other in [k for k in jd if BY_NAME[k][2] == group]:
                del jd[other]
        jv = json_value(name, payload)
        if BY_NAME[name][2] == "rep" and name in jd:
            jv = jd.pop(name) + jv
        elif BY_NAME[name][2] == "map" and name in jd:
            jv = {**jd.pop(name), **jv}
        else:
            jd.pop(name, None)
        jd[name] = jv
    built["from_dict_cls"] = M.from_dict(jd)
    built["from_dict_inst"] = M().from_dict(jd)

    for how, msg in built.items():
        ctx = (how, assignments)
        # presence before anything was read
        got = bp_report(msg)
        assert got == want, (ctx, {k: (got[k], want[k]) for k in want if got[k] != want[k]})
        out = bytes(msg)
        assert out == data, (ctx, out, data)
        assert len(msg) == len(data), ctx
        # reading every field (lazy defaults) must not set anything
        check_values(msg, ref)
        assert bp_report(msg) == want, ctx
        assert bytes(msg) == data, ctx
        check_values(msg, ref)
        # copies see the same
        for dup in (copy.copy(msg), copy.deepcopy(msg)):
            assert bp_report(dup) == want, ctx
            assert bytes(dup) == data, ctx
        N_CHECKS += 1
    return data


# ============================================================================ tests
def test_fresh():
    msg = M()
    assert bytes(msg) == b"" and len(msg) == 0
    assert not betterproto.serialized_on_wire(msg)
    check_all([])
    # raw slots stay PLACEHOLDER / None for scalars after reads, mutable defaults are kept
    msg = M()
    for name, _, kind, typ in FIELDS:
        if kind.startswith("oneof"):
            continue
        first = getattr(msg, name)
        raw = object.__getattribute__(msg, name)
        if kind in ("rep", "map", "sub"):
            assert raw is first, name
            assert getattr(msg, name) is first, name
        elif kind == "opt":
            assert raw is None and first is None, name
        elif kind == "wrap":
            assert raw is PLACEHOLDER and first is None, name
        else:
            assert raw is PLACEHOLDER, name
            assert first == DEFAULT[typ], name
    assert bytes(msg) == b"" and not betterproto.serialized_on_wire(msg)
    # every instance gets its own mutable defaults
    other = M()
    assert other.p_sub is not msg.p_sub
    assert other.r_int32 is not msg.r_int32
    assert other.m_si is not msg.m_si
    msg.p_sub.x = 3
    msg.r_int32.append(1)
    msg.m_si["a"] = 1
    assert bytes(other) == b"" and not other.is_set("p_sub")
    assert bytes(M()) == b""


def test_single_fields():
    for name, _, kind, typ in FIELDS:
        for state, payload in values_for(name):
            check_all([(name, payload)])


def test_special_attributes():
    msg = M(c_int32=0)
    assert msg.__class__ is M
    assert type(msg)._betterproto is msg._betterproto
    assert msg._betterproto.oneof_group_by_field["c_int32"] == "choice"
    assert msg._group_current == {"choice": "c_int32", "other": None}
    assert msg._serialized_on_wire is True
    assert msg._unknown_fields == b""
    try:
        msg.no_such_attribute
    except AttributeError as exc:
        assert "no_such_attribute" in str(exc)
    else:
        raise AssertionError
    assert callable(msg.to_dict) and callable(msg.is_set)
    # hasattr on unselected members is False, on the selected one True
    assert hasattr(msg, "c_int32") and not hasattr(msg, "c_string")
    assert getattr(msg, "c_sub", "fallback") == "fallback"
    fresh = M()
    assert not any(hasattr(fresh, f[0]) for f in FIELDS if f[2].startswith("oneof"))
    try:
        fresh.c_sub
    except AttributeError as exc:
        assert str(exc) == "'choice' is set to None, not 'c_sub'", str(exc)
    else:
        raise AssertionError
    # a subclass that inspects attributes inside __post_init__-less construction
    @dataclass(eq=False, repr=False)
    class Plain(betterproto.Message):
        a: int = betterproto.int32_field(1)
        child: Sub = betterproto.message_field(2)

    p = Plain.__new__(Plain)  # no _group_current yet: raw values are visible
    object.__setattr__(p, "a", PLACEHOLDER)
    assert p.a == 0


def test_switching_oneof():
    members = [f[0] for f in FIELDS if f[2] == "oneof"]
    rng = random.Random(6)
    for _ in range(150):
        seq = []
        for _ in range(rng.randint(2, 4)):
            name = rng.choice(members + ["d_string", "d_uint32"])
            state, payload = rng.choice(values_for(name))
            seq.append((name, payload))
        check_all(seq)


def test_combinations():
    rng = random.Random(606)
    names = [f[0] for f in FIELDS]
    for i in range(260):
        k = rng.choice([2, 3, 5, 8, 15, len(names)])
        chosen = rng.sample(names, min(k, len(names)))
        seq = []
        for name in chosen:
            state, payload = rng.choice(values_for(name))
            seq.append((name, payload))
        check_all(seq)
    # everything at its default at once
    seq = []
    for name in names:
        state, payload = values_for(name)[0]
        seq.append((name, payload))
    check_all(seq)


def test_in_place_child_sequences():
    msg = M()
    child = msg.p_sub
    assert not betterproto.serialized_on_wire(child) and not msg.is_set("p_sub")
    assert bytes(msg) == b""
    child.x = 0
    assert betterproto.serialized_on_wire(child) and msg.is_set("p_sub")
    number = BY_NAME["p_sub"][1]
    assert bytes(msg) == betterproto.encode_varint(number << 3 | 2) + b"\x00"
    ref = RefM()
    ref.ParseFromString(bytes(msg))
    assert ref.HasField("p_sub")
    # oneof sub-message selected through the constructor and filled in place
    msg = M(c_sub=Sub())
    assert betterproto.which_one_of(msg, "choice")[0] == "c_sub"
    msg.c_sub.s = "zz"
    ref = RefM()
    ref.ParseFromString(bytes(msg))
    assert ref.WhichOneof("choice") == "c_sub" and ref.c_sub.s == "zz"
    msg.c_bool = False
    ref = RefM()
    ref.ParseFromString(bytes(msg))
    assert ref.WhichOneof("choice") == "c_bool"
    try:
        msg.c_sub
    except AttributeError:
        pass
    else:
        raise AssertionError


def main():
    test_fresh()
    test_special_attributes()
    test_single_fields()
    test_switching_oneof()
    test_combinations()
    test_in_place_child_sequences()
    print(f"C06 keep1 equiv: OK ({N_CHECKS} message checks against google.protobuf)")


if __name__ == "__main__":
    main()
