"""Decoding of varint-typed fields (enum, int32, int64, uint*, sint*, bool) through
Message._postprocess_single, in every position an enum can occur in, checked against
an independent model (struct) and against google.protobuf."""
import random
import struct
from dataclasses import dataclass
from typing import Dict, List, Optional

import betterproto
from betterproto import encode_varint
from google.protobuf import descriptor_pb2, descriptor_pool, message_factory


class Level(betterproto.Enum):
    ZERO = 0
    LOW = 1
    ALSO_LOW = 1
    NEG = -3
    HIGH = 40
    MIN = -2147483648
    MAX = 2147483647


@dataclass(eq=False, repr=False)
class Msg(betterproto.Message):
    single: Level = betterproto.enum_field(1)
    many: List[Level] = betterproto.enum_field(2)
    by_key: Dict[str, Level] = betterproto.map_field(
        3, betterproto.TYPE_STRING, betterproto.TYPE_ENUM
    )
    opt: Optional[Level] = betterproto.enum_field(4, optional=True)
    one: Level = betterproto.enum_field(5, group="g")
    other: str = betterproto.string_field(6, group="g")
    i32: int = betterproto.int32_field(7)
    i64: int = betterproto.int64_field(8)
    u32: int = betterproto.uint32_field(9)
    u64: int = betterproto.uint64_field(10)
    s32: int = betterproto.sint32_field(11)
    s64: int = betterproto.sint64_field(12)
    flag: bool = betterproto.bool_field(13)
    i32s: List[int] = betterproto.int32_field(14)
    i64s: List[int] = betterproto.int64_field(15)
    s64s: List[int] = betterproto.sint64_field(16)
    flags: List[bool] = betterproto.bool_field(17)
    u64s: List[int] = betterproto.uint64_field(18)


def as_i32(raw):
    return struct.unpack("<i", struct.pack("<I", raw & 0xFFFFFFFF))[0]


def as_i64(raw):
    return struct.unpack("<q", struct.pack("<Q", raw & 0xFFFFFFFFFFFFFFFF))[0]


def unzigzag(raw):
    return (raw >> 1) if raw % 2 == 0 else -((raw + 1) >> 1)


MODEL = {
    betterproto.TYPE_ENUM: as_i32,
    betterproto.TYPE_INT32: as_i32,
    betterproto.TYPE_INT64: as_i64,
    betterproto.TYPE_UINT32: lambda raw: raw,
    betterproto.TYPE_UINT64: lambda raw: raw,
    betterproto.TYPE_SINT32: unzigzag,
    betterproto.TYPE_SINT64: unzigzag,
    betterproto.TYPE_BOOL: lambda raw: raw > 0,
}
FIELD_OF = {
    betterproto.TYPE_ENUM: "single",
    betterproto.TYPE_INT32: "i32",
    betterproto.TYPE_INT64: "i64",
    betterproto.TYPE_UINT32: "u32",
    betterproto.TYPE_UINT64: "u64",
    betterproto.TYPE_SINT32: "s32",
    betterproto.TYPE_SINT64: "s64",
    betterproto.TYPE_BOOL: "flag",
}

rng = random.Random(20)
RAW = {0, 1, 2, 3, 39, 40, 41, 127, 128, 255, 256, 16383, 16384}
for b in (7, 8, 14, 15, 16, 21, 28, 31, 32, 33, 35, 42, 49, 56, 62, 63, 64):
    for d in (-2, -1, 0, 1, 2):
        v = (1 << b) + d
        if 0 <= v < (1 << 64):
            RAW.add(v)
for n in (-1, -2, -3, -4, -40, -128, -2147483648, -2147483647, -2147483649):
    RAW.add(n + (1 << 64))  # sign-extended 64-bit form
    RAW.add(n & 0xFFFFFFFF)  # truncated 32-bit form
for _ in range(400):
    RAW.add(rng.getrandbits(rng.choice((7, 14, 31, 32, 33, 63, 64))))
RAW = sorted(RAW)

DEFINED = {m.value: m for m in Level}

# ---------------------------------------------------------------- direct calls
probe = Msg()
metas = probe._betterproto.meta_by_field_name
for proto_type, field in FIELD_OF.items():
    meta = metas[field]
    assert meta.proto_type == proto_type
    for raw in RAW:
        got = probe._postprocess_single(betterproto.WIRE_VARINT, meta, field, raw)
        want = MODEL[proto_type](raw)
        assert got == want, (proto_type, raw, got, want)
        if proto_type == betterproto.TYPE_BOOL:
            assert type(got) is bool
        elif proto_type == betterproto.TYPE_ENUM:
            assert type(got) is Level and got.value == want
            if want in DEFINED:
                assert got is DEFINED[want] and got.name == DEFINED[want].name
            else:
                assert got.name is None
        else:
            assert type(got) is int, (proto_type, raw, type(got))

# the enum conversion applies in the repeated / optional / oneof positions too
for field in ("many", "opt", "one"):
    meta = metas[field]
    for raw in RAW:
        got = probe._postprocess_single(betterproto.WIRE_VARINT, meta, field, raw)
        assert type(got) is Level and got == as_i32(raw)
        assert (got is DEFINED[int(got)]) if int(got) in DEFINED else got.name is None


# ------------------------------------------------------------- hand-made wire
def key(number, wire_type):
    return encode_varint((number << 3) | wire_type)


def ld(number, payload):
    return key(number, 2) + encode_varint(len(payload)) + payload


for raw in RAW:
    rv = encode_varint(raw)
    n32 = as_i32(raw)
    data = (
        key(1, 0) + rv  # singular
        + ld(2, rv + encode_varint(1) + rv)  # packed
        + key(2, 0) + rv  # unpacked occurrence of the repeated field
        + ld(3, ld(1, b"k") + key(2, 0) + rv)  # map entry
        + key(4, 0) + rv  # optional
        + key(5, 0) + rv  # oneof
        + key(7, 0) + rv
        + key(8, 0) + rv
        + key(9, 0) + rv
        + key(10, 0) + rv
        + key(11, 0) + rv
        + key(12, 0) + rv
        + key(13, 0) + rv
        + ld(14, rv + rv)
        + ld(15, rv)
        + ld(16, rv)
        + ld(17, rv + encode_varint(0))
        + ld(18, rv)
    )
    m = Msg().parse(data)
    assert m.single == n32 and type(m.single) is Level
    assert m.many == [n32, 1, n32, n32] and m.many[1] is Level.LOW
    assert all(type(x) is Level for x in m.many)
    assert m.by_key == {"k": n32} and type(m.by_key["k"]) is Level
    assert m.opt == n32 and m.one == n32
    assert betterproto.which_one_of(m, "g") == ("one", n32)
    if n32 in DEFINED:
        assert m.single is DEFINED[n32] and m.by_key["k"] is DEFINED[n32]
        assert m.opt is DEFINED[n32] and m.one is DEFINED[n32]
    else:
        assert m.single.name is None and m.single.value == n32
    assert m.i32 == n32 and m.i32s == [n32, n32]
    assert m.i64 == as_i64(raw) and m.i64s == [as_i64(raw)]
    assert m.u32 == raw and m.u64 == raw and m.u64s == [raw]
    assert m.s32 == unzigzag(raw) and m.s64 == unzigzag(raw) and m.s64s == [unzigzag(raw)]
    assert m.flag is (raw > 0) and m.flags == [raw > 0, False]
    # and the numbers survive re-encoding
    again = Msg().parse(bytes(m))
    assert again.single == n32 and again.many == m.many and again.by_key == m.by_key
    assert again.opt == n32 and again.one == n32 and again.i32 == n32
    assert again.i64 == as_i64(raw) and again.s64 == unzigzag(raw)

# ------------------------------------------------------------ google.protobuf
fdp = descriptor_pb2.FileDescriptorProto(name="c20_keep1.proto", package="c20k1", syntax="proto3")
e = fdp.enum_type.add(name="Level")
e.options.allow_alias = True
for name, number in (
    ("ZERO", 0), ("LOW", 1), ("ALSO_LOW", 1), ("NEG", -3), ("HIGH", 40),
    ("MIN", -2147483648), ("MAX", 2147483647),
):
    e.value.add(name=name, number=number)
F = descriptor_pb2.FieldDescriptorProto
msg = fdp.message_type.add(name="Msg")
entry = msg.nested_type.add(name="ByKeyEntry")
entry.options.map_entry = True
entry.field.add(name="key", number=1, type=F.TYPE_STRING, label=F.LABEL_OPTIONAL)
entry.field.add(name="value", number=2, type=F.TYPE_ENUM, type_name=".c20k1.Level", label=F.LABEL_OPTIONAL)
msg.field.add(name="single", number=1, type=F.TYPE_ENUM, type_name=".c20k1.Level", label=F.LABEL_OPTIONAL)
msg.field.add(name="many", number=2, type=F.TYPE_ENUM, type_name=".c20k1.Level", label=F.LABEL_REPEATED)
msg.field.add(name="by_key", number=3, type=F.TYPE_MESSAGE, type_name=".c20k1.Msg.ByKeyEntry", label=F.LABEL_REPEATED)
msg.oneof_decl.add(name="g")
msg.oneof_decl.add(name="_opt")
msg.field.add(name="opt", number=4, type=F.TYPE_ENUM, type_name=".c20k1.Level", label=F.LABEL_OPTIONAL, oneof_index=1, proto3_optional=True)
msg.field.add(name="one", number=5, type=F.TYPE_ENUM, type_name=".c20k1.Level", label=F.LABEL_OPTIONAL, oneof_index=0)
msg.field.add(name="other", number=6, type=F.TYPE_STRING, label=F.LABEL_OPTIONAL, oneof_index=0)
msg.field.add(name="i32", number=7, type=F.TYPE_INT32, label=F.LABEL_OPTIONAL)
msg.field.add(name="i64", number=8, type=F.TYPE_INT64, label=F.LABEL_OPTIONAL)
msg.field.add(name="s32", number=11, type=F.TYPE_SINT32, label=F.LABEL_OPTIONAL)
msg.field.add(name="s64", number=12, type=F.TYPE_SINT64, label=F.LABEL_OPTIONAL)
msg.field.add(name="i32s", number=14, type=F.TYPE_INT32, label=F.LABEL_REPEATED)
msg.field.add(name="i64s", number=15, type=F.TYPE_INT64, label=F.LABEL_REPEATED)
pool = descriptor_pool.DescriptorPool()
pool.Add(fdp)
GMsg = message_factory.GetMessageClass(pool.FindMessageTypeByName("c20k1.Msg"))

NUMBERS = sorted(
    {0, 1, 2, -1, -2, -3, -4, 39, 40, 41, 127, 128, -128, -129, 2**31 - 1, -(2**31), 2**31 - 2, -(2**31) + 1}
    | {rng.randint(-(2**31), 2**31 - 1) for _ in range(300)}
)
for n in NUMBERS:
    wide = n * 2**31 + (n % 7)  # some int64
    g = GMsg(single=n, many=[n, 1, n], opt=n, one=n, i32=n, i64=wide, s32=n, s64=wide, i32s=[n, 0, n], i64s=[wide, n])
    g.by_key["k"] = n
    g.by_key[""] = 0
    b = Msg().parse(g.SerializeToString())
    assert b.single == n and b.many == [n, 1, n] and b.opt == n and b.one == n
    assert b.by_key == {"k": n, "": 0}
    assert b.i32 == n and b.i64 == wide and b.s32 == n and b.s64 == wide
    assert b.i32s == [n, 0, n] and b.i64s == [wide, n]
    if n in DEFINED:
        assert b.single is DEFINED[n] and b.many[0] is DEFINED[n] and b.by_key["k"] is DEFINED[n]
    # and back: google reads what betterproto writes
    g2 = GMsg.FromString(bytes(b))
    assert g2.single == n and list(g2.many) == [n, 1, n] and g2.opt == n and g2.one == n
    assert dict(g2.by_key) == {"k": n, "": 0}
    assert g2.i32 == n and g2.i64 == wide and g2.s32 == n and g2.s64 == wide
    assert g2 == g

print("ok")
