"""Equivalence check for the restructured one-of bookkeeping in Message.__setattr__.

Every store into a known field made by the decoder goes through Message.__setattr__,
which selects the stored member of a one-of and unsets its siblings.  Checked here:

1. random assignment sequences against an explicit model (selected member of every
   group, raw slot of every field, which_one_of, AttributeError on unselected members)
   and against the bytes google.protobuf produces for the same assignments;
2. decoding of random field sequences - well-typed occurrences of one-of members and
   plain fields, occurrences with a wire type that does not fit (must be kept as
   unknown fields and alter nothing), unknown numbers - against the same model and
   against google.protobuf's WhichOneof / values, plus all truncations (mid-field
   cuts are rejected by both decoders);
3. a digest over all outcomes (values, unknown fields, exception class and text)
   compared with the one recorded on the reference tree.
"""
import hashlib
import random
import struct
from dataclasses import dataclass
from typing import List, Optional

import betterproto
from betterproto import PLACEHOLDER

EXPECTED_DIGEST = "424aa780906e33cb52c245c5810ab963e4be47e43bcbbde4df75ff7e02bab7e6"


@dataclass(eq=False, repr=False)
class Inner(betterproto.Message):
    v: int = betterproto.int32_field(1)


@dataclass(eq=False, repr=False)
class Empty(betterproto.Message):
    pass


@dataclass(eq=False, repr=False)
class One(betterproto.Message):
    a: int = betterproto.int32_field(1, group="g")
    b: str = betterproto.string_field(2, group="g")
    c: Inner = betterproto.message_field(3, group="g")
    d: bytes = betterproto.bytes_field(4, group="g")
    e: int = betterproto.fixed32_field(5, group="g")
    x: bool = betterproto.bool_field(6, group="h")
    y: float = betterproto.double_field(7, group="h")
    p: int = betterproto.sint32_field(8)
    q: List[int] = betterproto.uint32_field(9)
    z: Empty = betterproto.message_field(10, group="h")
    solo: int = betterproto.uint64_field(16, group="k")


GROUPS = {"g": ["a", "b", "c", "d", "e"], "h": ["x", "y", "z"], "k": ["solo"]}
GROUP_OF = {m: g for g, ms in GROUPS.items() for m in ms}
NUMBER = {"a": 1, "b": 2, "c": 3, "d": 4, "e": 5, "x": 6, "y": 7, "p": 8, "q": 9,
          "z": 10, "solo": 16}
NAMES = list(NUMBER)
DEFAULT = {"a": 0, "b": "", "d": b"", "e": 0, "x": False, "y": 0.0, "p": 0, "solo": 0}


def reference_cls():
    from google.protobuf import descriptor_pb2, descriptor_pool, message_factory

    F = descriptor_pb2.FieldDescriptorProto
    opt, rep = F.LABEL_OPTIONAL, F.LABEL_REPEATED
    fd = descriptor_pb2.FileDescriptorProto(
        name="c17_keep2.proto", package="c17k2", syntax="proto3"
    )
    inner = fd.message_type.add(name="Inner")
    inner.field.add(name="v", number=1, type=F.TYPE_INT32, label=opt)
    fd.message_type.add(name="Empty")
    o = fd.message_type.add(name="One")
    for g in ("g", "h", "k"):
        o.oneof_decl.add(name=g)
    o.field.add(name="a", number=1, type=F.TYPE_INT32, label=opt, oneof_index=0)
    o.field.add(name="b", number=2, type=F.TYPE_STRING, label=opt, oneof_index=0)
    o.field.add(name="c", number=3, type=F.TYPE_MESSAGE, label=opt, oneof_index=0,
                type_name=".c17k2.Inner")
    o.field.add(name="d", number=4, type=F.TYPE_BYTES, label=opt, oneof_index=0)
    o.field.add(name="e", number=5, type=F.TYPE_FIXED32, label=opt, oneof_index=0)
    o.field.add(name="x", number=6, type=F.TYPE_BOOL, label=opt, oneof_index=1)
    o.field.add(name="y", number=7, type=F.TYPE_DOUBLE, label=opt, oneof_index=1)
    o.field.add(name="p", number=8, type=F.TYPE_SINT32, label=opt)
    o.field.add(name="q", number=9, type=F.TYPE_UINT32, label=rep)
    o.field.add(name="z", number=10, type=F.TYPE_MESSAGE, label=opt, oneof_index=1,
                type_name=".c17k2.Empty")
    o.field.add(name="solo", number=16, type=F.TYPE_UINT64, label=opt, oneof_index=2)
    pool = descriptor_pool.DescriptorPool()
    pool.Add(fd)
    get = lambda n: message_factory.GetMessageClass(pool.FindMessageTypeByName(n))
    return get("c17k2.One"), get("c17k2.Inner"), get("c17k2.Empty")


Ref, RefInner, RefEmpty = reference_cls()


def raw_slot(msg, name):
    return object.__getattribute__(msg, name)


def plain(v):
    if isinstance(v, Inner):
        return ("Inner", v.v)
    if isinstance(v, Empty):
        return ("Empty",)
    if isinstance(v, float):
        return ("float", struct.pack("<d", v).hex())
    if isinstance(v, list):
        return ("list", tuple(v))
    return (type(v).__name__, v)


def check_against_model(msg: One, selected: dict, values: dict, ctx) -> None:
    """selected: group -> member or None; values: name -> expected plain value."""
    assert dict(msg._group_current) == selected, (ctx, msg._group_current, selected)
    for group, members in GROUPS.items():
        name, value = betterproto.which_one_of(msg, group)
        if selected[group] is None:
            assert (name, value) == ("", None), ctx
        else:
            assert name == selected[group], ctx
            assert plain(value) == values[name], (ctx, name, plain(value), values[name])
        for m in members:
            if m == selected[group]:
                assert raw_slot(msg, m) is not PLACEHOLDER, (ctx, m)
                assert plain(getattr(msg, m)) == values[m], (ctx, m)
            else:
                assert raw_slot(msg, m) is PLACEHOLDER, (ctx, m)
                if selected[group] is not None:
                    try:
                        getattr(msg, m)
                    except AttributeError:
                        pass
                    else:
                        raise AssertionError((ctx, m, "readable though not selected"))
    assert plain(msg.p) == values.get("p", ("int", 0)), ctx
    assert plain(msg.q) == values.get("q", ("list", ())), ctx


def random_value(rnd, name):
    if name == "a":
        return rnd.choice([0, 1, -1, 2**31 - 1, -(2**31), rnd.randrange(-999, 999)])
    if name == "b":
        return rnd.choice(["", "x", "héllo", "a" * rnd.randrange(0, 5)])
    if name == "c":
        return Inner(v=rnd.choice([0, 5, -2]))
    if name == "d":
        return rnd.choice([b"", b"\x00", b"\xff\xfe", bytes(rnd.randrange(256) for _ in range(3))])
    if name == "e":
        return rnd.choice([0, 1, 2**32 - 1, rnd.randrange(2**32)])
    if name == "x":
        return rnd.choice([False, True])
    if name == "y":
        return rnd.choice([0.0, -0.0, 1.5, -2.25, 1e300])
    if name == "p":
        return rnd.choice([0, -1, 1, 2**31 - 1, -(2**31)])
    if name == "z":
        return Empty()
    if name == "solo":
        return rnd.choice([0, 1, 2**64 - 1, rnd.randrange(2**64)])
    raise AssertionError(name)


def ref_set(ref, name, value):
    if name == "c":
        ref.c.CopyFrom(RefInner(v=value.v))
    elif name == "z":
        ref.z.CopyFrom(RefEmpty())
    else:
        setattr(ref, name, value)


# ------------------------------------------------------------ 1. assignment sequences
def assignment_sequences(h) -> int:
    rnd = random.Random(1717)
    settable = [n for n in NAMES if n != "q"]
    steps = 0
    for trial in range(1500):
        msg, ref = One(), Ref()
        selected = {g: None for g in GROUPS}
        values = {}
        check_against_model(msg, selected, values, ("fresh", trial))
        for step in range(rnd.randrange(1, 9)):
            name = rnd.choice(settable)
            value = random_value(rnd, name)
            setattr(msg, name, value)
            ref_set(ref, name, value)
            group = GROUP_OF.get(name)
            if group is not None:
                for sibling in GROUPS[group]:
                    values.pop(sibling, None)
                selected[group] = name
            values[name] = plain(value)
            ctx = ("assign", trial, step, name)
            check_against_model(msg, selected, values, ctx)
            assert msg._serialized_on_wire is True
            for g in GROUPS:
                assert (ref.WhichOneof(g) or None) == selected[g], ctx
            encoded = bytes(msg)
            assert encoded == ref.SerializeToString(deterministic=True), (
                ctx, encoded.hex(), ref.SerializeToString().hex())
            back = One().parse(encoded)
            check_against_model(back, selected, values, ctx + ("reparsed",))
            h.update(repr((trial, step, name, encoded)).encode())
            steps += 1
        # constructor keywords select as well
        kw_name = rnd.choice(settable)
        kw_val = random_value(rnd, kw_name)
        built = One(**{kw_name: kw_val})
        sel = {g: None for g in GROUPS}
        if kw_name in GROUP_OF:
            sel[GROUP_OF[kw_name]] = kw_name
        check_against_model(built, sel, {kw_name: plain(kw_val)}, ("ctor", trial))
    return steps


# --------------------------------------------------------------- 2. decoded sequences
def varint(n: int) -> bytes:
    out = bytearray()
    while True:
        b, n = n & 0x7F, n >> 7
        if n:
            out.append(b | 0x80)
        else:
            out.append(b)
            return bytes(out)


def tag(number: int, wt: int) -> bytes:
    return varint((number << 3) | wt)


FITTING_WT = {"a": 0, "b": 2, "c": 2, "d": 2, "e": 5, "x": 0, "y": 1, "p": 0, "z": 2,
              "solo": 0}


def payload(rnd, wt: int) -> bytes:
    if wt == 0:
        return varint(rnd.choice([0, 1, 2, 127, 128, 300, 2**32 - 1, 2**64 - 1]))
    if wt == 1:
        return struct.pack("<d", rnd.choice([0.0, 1.5, -3.0]))
    if wt == 5:
        return struct.pack("<I", rnd.choice([0, 7, 2**32 - 1]))
    body = rnd.choice([b"", b"ab", b"\x08\x05", b"\x08\x01\x08\x02", b"xyz"])
    return varint(len(body)) + body


def expected_value(name: str, wt: int, data: bytes):
    """Model of the value a well-typed occurrence decodes to (plain form)."""
    if wt == 0:
        n, shift = 0, 0
        for b in data:
            n |= (b & 0x7F) << shift
            shift += 7
        if name == "a":
            n &= 0xFFFFFFFF
            return ("int", n - (1 << 32) if n >> 31 else n)
        if name == "x":
            return ("bool", n > 0)
        if name == "p":
            return ("int", (n >> 1) ^ -(n & 1))
        return ("int", n)
    if wt == 1:
        return ("float", data.hex())
    if wt == 5:
        return ("int", struct.unpack("<I", data)[0])
    body = data[1:]  # all bodies are shorter than 128 bytes
    if name == "b":
        return ("str", body.decode("utf-8"))
    if name == "d":
        return ("bytes", body)
    if name == "z":
        return ("Empty",)
    v = 0  # Inner: last occurrence of field 1 wins
    for k in range(0, len(body), 2):
        v = body[k + 1]
    return ("Inner", v)


def decoded_sequences(h) -> int:
    rnd = random.Random(2718)
    count = 0
    for trial in range(2500):
        selected = {g: None for g in GROUPS}
        values = {}
        unknown = b""
        data = b""
        bounds = [0]
        q = []
        for _ in range(rnd.randrange(0, 8)):
            kind = rnd.random()
            if kind < 0.55:  # well-typed occurrence of a known field
                name = rnd.choice(NAMES)
                if name == "q":
                    n = rnd.choice([0, 1, 300])
                    occ = tag(9, 0) + varint(n)
                    q.append(n)
                    values["q"] = ("list", tuple(q))
                else:
                    wt = FITTING_WT[name]
                    while True:
                        pl = payload(rnd, wt)
                        if name == "c" and pl[1:] not in (b"", b"\x08\x05", b"\x08\x01\x08\x02"):
                            continue
                        if name == "z" and pl != b"\x00":
                            continue
                        if name == "p" and len(pl) > 5:
                            continue  # sint32 beyond 32 bits: not compared here
                        break
                    occ = tag(NUMBER[name], wt) + pl
                    group = GROUP_OF.get(name)
                    if group is not None:
                        for sibling in GROUPS[group]:
                            values.pop(sibling, None)
                        selected[group] = name
                    values[name] = expected_value(name, wt, pl)
            elif kind < 0.85:  # known number, wire type that does not fit
                name = rnd.choice([n for n in NAMES if n != "q"])
                wt = rnd.choice([w for w in (0, 1, 2, 5) if w != FITTING_WT[name]])
                occ = tag(NUMBER[name], wt) + payload(rnd, wt)
                unknown += occ
            else:  # unknown field number
                wt = rnd.choice([0, 1, 2, 5])
                occ = tag(rnd.choice([11, 15, 17, 99, 2048]), wt) + payload(rnd, wt)
                unknown += occ
            data += occ
            bounds.append(len(data))

        ctx = ("decode", trial, data.hex())
        msg = One().parse(data)
        check_against_model(msg, selected, values, ctx)
        assert msg._unknown_fields == unknown, ctx
        ref = Ref.FromString(data)
        for g in GROUPS:
            assert (ref.WhichOneof(g) or None) == selected[g], ctx
        for name in ("a", "b", "d", "e", "x", "p", "solo"):
            if name in values:
                assert getattr(ref, name) == values[name][1], (ctx, name)
        assert list(ref.q) == list(values.get("q", ("list", ()))[1]), ctx
        encoded = bytes(msg)
        again = One().parse(encoded)
        check_against_model(again, selected, values, ctx + ("reparsed",))
        assert again._unknown_fields == unknown and bytes(again) == encoded, ctx
        h.update(repr((data, encoded, sorted(values.items()), unknown)).encode())
        count += 1

        # decoding into a message that already has members selected: a mismatching
        # occurrence alters nothing, a fitting one displaces the sibling
        pre = One(b="keep", y=2.5, p=-4)
        before = (dict(pre._group_current), pre.b, pre.y, pre.p)
        pre.parse(unknown)
        assert (dict(pre._group_current), pre.b, pre.y, pre.p) == before, ctx
        assert pre._unknown_fields == unknown, ctx

        # truncations: mid-field cuts are rejected by both decoders
        for cut in range(len(data)):
            piece = data[:cut]
            try:
                part = One().parse(piece)
                res = ("ok", bytes(part), dict(part._group_current), part._unknown_fields)
            except Exception as e:  # noqa: BLE001
                res = ("err", type(e).__name__, str(e))
            try:
                Ref.FromString(piece)
                ref_ok = True
            except Exception:  # noqa: BLE001
                ref_ok = False
            if cut in bounds:
                assert res[0] == "ok" and ref_ok, (ctx, cut)
            else:
                assert res[0] == "err" and not ref_ok, (ctx, cut, res)
            h.update(repr((cut, res)).encode())
    return count


def main() -> None:
    h = hashlib.sha256()
    steps = assignment_sequences(h)
    decoded = decoded_sequences(h)
    assert steps > 4000 and decoded == 2500, (steps, decoded)
    digest = h.hexdigest()
    print("assignment steps:", steps, "decoded sequences:", decoded, "digest:", digest)
    assert digest == EXPECTED_DIGEST, digest
    print("ok")


if __name__ == "__main__":
    main()
