"""
Equivalence script for the refactor of Message.__eq__ (the `Newer().parse(...) == newer`
observation of property C08).  Plain asserts; exits 0 on the pristine tree and with the
patch applied.  Expected results are computed by an independent model of message
equality (dict of resolved field values, nan == nan for bare floats only).
"""
import itertools
import math
import random
import struct
from dataclasses import dataclass
from typing import Dict, List, Optional

import betterproto
from betterproto import Message


@dataclass(eq=False, repr=False)
class Sub(Message):
    a: int = betterproto.int32_field(1)
    s: str = betterproto.string_field(2)
    d: float = betterproto.double_field(3)


@dataclass(eq=False, repr=False)
class SubOld(Message):
    s: str = betterproto.string_field(2)


@dataclass(eq=False, repr=False)
class Newer(Message):
    i32: int = betterproto.int32_field(1)
    s64: int = betterproto.sint64_field(2)
    text: str = betterproto.string_field(3)
    blob: bytes = betterproto.bytes_field(4)
    dbl: float = betterproto.double_field(5)
    flt: float = betterproto.float_field(6)
    flag: bool = betterproto.bool_field(7)
    fx32: int = betterproto.fixed32_field(8)
    sfx64: int = betterproto.sfixed64_field(9)
    ints: List[int] = betterproto.int32_field(10)
    strs: List[str] = betterproto.string_field(11)
    sub: Sub = betterproto.message_field(12)
    subs: List[Sub] = betterproto.message_field(13)
    m: Dict[str, int] = betterproto.map_field(
        14, betterproto.TYPE_STRING, betterproto.TYPE_INT32
    )
    one_a: int = betterproto.int32_field(15, group="choice")
    one_b: str = betterproto.string_field(16, group="choice")
    opt: Optional[int] = betterproto.int32_field(17, optional=True, group="_opt")
    dbls: List[float] = betterproto.double_field(18)
    big: int = betterproto.uint64_field(1000)


FIELD_SPECS = {
    "i32": ("int", "betterproto.int32_field(1)"),
    "s64": ("int", "betterproto.sint64_field(2)"),
    "text": ("str", "betterproto.string_field(3)"),
    "blob": ("bytes", "betterproto.bytes_field(4)"),
    "dbl": ("float", "betterproto.double_field(5)"),
    "flt": ("float", "betterproto.float_field(6)"),
    "flag": ("bool", "betterproto.bool_field(7)"),
    "fx32": ("int", "betterproto.fixed32_field(8)"),
    "sfx64": ("int", "betterproto.sfixed64_field(9)"),
    "ints": ("List[int]", "betterproto.int32_field(10)"),
    "strs": ("List[str]", "betterproto.string_field(11)"),
    "sub": ("Sub", "betterproto.message_field(12)"),
    "subs": ("List[Sub]", "betterproto.message_field(13)"),
    "m": (
        "Dict[str, int]",
        "betterproto.map_field(14, betterproto.TYPE_STRING, betterproto.TYPE_INT32)",
    ),
    "one_a": ("int", "betterproto.int32_field(15, group='choice')"),
    "one_b": ("str", "betterproto.string_field(16, group='choice')"),
    "opt": ("Optional[int]", "betterproto.int32_field(17, optional=True, group='_opt')"),
    "dbls": ("List[float]", "betterproto.double_field(18)"),
    "big": ("int", "betterproto.uint64_field(1000)"),
}
ALL = list(FIELD_SPECS)
_counter = itertools.count()


def make_older(keep, sub_cls="Sub"):
    """Older schema: Newer with only the fields in `keep` (declaration order kept)."""
    name = f"Older{next(_counter)}"
    lines = ["@dataclass(eq=False, repr=False)", f"class {name}(Message):"]
    body = [
        f"    {f}: {FIELD_SPECS[f][0].replace('Sub', sub_cls)} = {FIELD_SPECS[f][1]}"
        for f in ALL
        if f in keep
    ]
    lines += body or ["    pass"]
    ns = dict(globals())
    exec("\n".join(lines), ns)
    return ns[name]


def f32(x):
    return struct.unpack("<f", struct.pack("<f", x))[0]


def rand_sub(rng):
    return Sub(
        a=rng.choice([0, 1, -1, 2**31 - 1, -(2**31)]),
        s=rng.choice(["", "x", "é中"]),
        d=rng.choice([0.0, 1.5, -2.25, 1e300]),
    )


def rand_values(rng):
    vals = {
        "i32": rng.choice([0, 1, -1, 2**31 - 1, -(2**31), rng.randrange(-999, 999)]),
        "s64": rng.choice([0, -1, 2**63 - 1, -(2**63), rng.randrange(-(10**12), 10**12)]),
        "text": rng.choice(["", "a", "hello", "ü" * rng.randrange(1, 200)]),
        "blob": rng.choice([b"", b"\x00", bytes(rng.randrange(256) for _ in range(rng.randrange(1, 300)))]),
        "dbl": rng.choice([0.0, -0.0, 1.0, -3.5, 1e-300, float("inf"), float("-inf")]),
        "flt": f32(rng.choice([0.0, 1.0, -2.5, 3.1415, 1e30])),
        "flag": rng.choice([False, True]),
        "fx32": rng.choice([0, 1, 2**32 - 1, rng.randrange(2**32)]),
        "sfx64": rng.choice([0, -1, 2**63 - 1, -(2**63)]),
        "ints": [rng.randrange(-(2**31), 2**31) for _ in range(rng.randrange(0, 6))],
        "strs": [rng.choice(["", "q", "zz"]) for _ in range(rng.randrange(0, 4))],
        "sub": rand_sub(rng),
        "subs": [rand_sub(rng) for _ in range(rng.randrange(0, 3))],
        "m": {rng.choice("abcdef"): rng.randrange(-50, 50) for _ in range(rng.randrange(0, 4))},
        "dbls": [rng.choice([0.0, 2.5, -1e10]) for _ in range(rng.randrange(0, 4))],
        "big": rng.choice([0, 1, 2**64 - 1, rng.randrange(2**64)]),
    }
    which = rng.randrange(3)
    if which == 0:
        vals["one_a"] = rng.choice([0, 7, -7])
    elif which == 1:
        vals["one_b"] = rng.choice(["", "picked"])
    if rng.random() < 0.5:
        vals["opt"] = rng.choice([0, 5, -5])
    # leave a random subset unset altogether
    for k in list(vals):
        if rng.random() < 0.25:
            del vals[k]
    return vals


# ---------------------------------------------------------------- model of equality
DEFAULTS = {
    "i32": 0, "s64": 0, "text": "", "blob": b"", "dbl": 0.0, "flt": 0.0, "flag": False,
    "fx32": 0, "sfx64": 0, "ints": [], "strs": [], "subs": [], "m": {}, "one_a": 0,
    "one_b": "", "opt": None, "dbls": [], "big": 0,
}


def model_sub(sub):
    return (sub.get("a", 0), sub.get("s", ""), sub.get("d", 0.0))


def scalar_eq(x, y):
    if x == y:
        return True
    return (
        isinstance(x, float) and isinstance(y, float) and math.isnan(x) and math.isnan(y)
    )


def model_eq(v1, v2):
    """v1 / v2: dicts field -> plain value ('sub' / 'subs' given as dicts of Sub kwargs)."""
    for f in ALL:
        if f not in v1 and f not in v2:
            continue
        if f == "sub":
            a, b = model_sub(v1.get(f, {})), model_sub(v2.get(f, {}))
            if not all(scalar_eq(x, y) for x, y in zip(a, b)):
                return False
        elif f == "subs":
            a = [model_sub(x) for x in v1.get(f, [])]
            b = [model_sub(x) for x in v2.get(f, [])]
            if len(a) != len(b):
                return False
            for x, y in zip(a, b):
                if not all(scalar_eq(p, q) for p, q in zip(x, y)):
                    return False
        else:
            a, b = v1.get(f, DEFAULTS[f]), v2.get(f, DEFAULTS[f])
            if not scalar_eq(a, b):
                return False
    return True


def build(vals):
    kw = dict(vals)
    if "sub" in kw:
        kw["sub"] = Sub(**kw["sub"])
    if "subs" in kw:
        kw["subs"] = [Sub(**x) for x in kw["subs"]]
    return Newer(**kw)


def plain_values(rng):
    vals = rand_values(rng)
    if "sub" in vals:
        s = vals["sub"]
        vals["sub"] = {"a": s.a, "s": s.s, "d": s.d}
    if "subs" in vals:
        vals["subs"] = [{"a": s.a, "s": s.s, "d": s.d} for s in vals["subs"]]
    return vals


def check_eq(a, b, expected):
    assert (a == b) is expected, (a, b, expected)
    assert (b == a) is expected, (a, b, expected)
    assert (a != b) is (not expected), (a, b, expected)
    assert a.__eq__(b) is expected
    assert b.__eq__(a) is expected


def test_model(rng, rounds):
    mutations = {
        "i32": 12345, "s64": -98765, "text": "other", "blob": b"\xff\xfe", "dbl": 9.75,
        "flt": 0.5, "flag": True, "fx32": 77, "sfx64": -77, "ints": [1, 2, 3],
        "strs": ["m"], "m": {"zz": 1}, "dbls": [4.5], "big": 99,
        "sub": {"a": 321}, "subs": [{"s": "mut"}],
    }
    n_true = n_false = 0
    for _ in range(rounds):
        v1 = plain_values(rng)
        # identical values: equal, also reflexive on one object
        a, b = build(v1), build(v1)
        check_eq(a, b, True)
        check_eq(a, a, True)
        # explicit defaults on one side, unset on the other
        v_explicit = dict(v1)
        for f in ALL:
            if f not in v_explicit and f not in ("one_a", "one_b", "opt", "sub") and rng.random() < 0.5:
                v_explicit[f] = DEFAULTS[f]
        if "sub" not in v_explicit and rng.random() < 0.5:
            v_explicit["sub"] = {}
        assert model_eq(v1, v_explicit)
        check_eq(build(v1), build(v_explicit), True)
        # one mutated field
        f = rng.choice(list(mutations))
        v2 = dict(v1)
        v2[f] = mutations[f]
        exp = model_eq(v1, v2)
        check_eq(build(v1), build(v2), exp)
        n_true += exp
        n_false += not exp
        # an unrelated second random message
        v3 = plain_values(rng)
        exp = model_eq(v1, v3)
        check_eq(build(v1), build(v3), exp)
    assert n_false > rounds // 2 and n_true >= 0


def test_nan():
    nan1, nan2 = float("nan"), float("nan")
    check_eq(Newer(dbl=nan1), Newer(dbl=nan2), True)
    check_eq(Newer(dbl=nan1), Newer(dbl=nan1), True)
    check_eq(Newer(dbl=nan1, flt=nan2), Newer(dbl=nan2, flt=nan1), True)
    check_eq(Newer(dbl=nan1), Newer(), False)  # nan against the default of an unset field
    check_eq(Newer(), Newer(flt=nan1), False)
    check_eq(Newer(dbl=nan1), Newer(dbl=0.0), False)
    check_eq(Newer(dbl=nan1), Newer(dbl=1.0), False)
    check_eq(Newer(dbl=nan1, i32=1), Newer(dbl=nan2, i32=2), False)
    check_eq(Newer(dbl=nan1, i32=1), Newer(dbl=nan2, i32=1), True)
    # nan inside containers is compared by the container (identity, then ==)
    check_eq(Newer(dbls=[nan1]), Newer(dbls=[nan2]), False)
    check_eq(Newer(dbls=[nan1]), Newer(dbls=[nan1]), True)
    # nan in a nested message: the nested __eq__ applies the same rule
    check_eq(Newer(sub=Sub(d=nan1)), Newer(sub=Sub(d=nan2)), True)
    check_eq(Newer(sub=Sub(d=nan1)), Newer(sub=Sub(d=2.0)), False)
    check_eq(Newer(subs=[Sub(d=nan1)]), Newer(subs=[Sub(d=nan2)]), True)
    # a nan in a non-float-typed slot next to an int
    check_eq(Newer(i32=nan1), Newer(i32=0), False)
    check_eq(Newer(i32=1), Newer(i32=1.0), True)
    check_eq(Newer(dbl=1), Newer(dbl=1.0), True)
    check_eq(Newer(flag=True), Newer(flag=1), True)
    # decoded nans (fresh float objects)
    n = Newer(dbl=nan1, flt=nan2, dbls=[1.0])
    check_eq(Newer().parse(bytes(n)), n, True)
    check_eq(Newer().parse(bytes(n)), Newer().parse(bytes(n)), True)


def test_other_types():
    a = Newer(i32=1)
    for other in (None, 1, "x", b"", object(), {"i32": 1}, Sub(a=1), [a]):
        assert a.__eq__(other) is NotImplemented
        assert (a == other) is False
        assert (a != other) is True
    Older = make_older({"i32"})
    o = Older(i32=1)
    assert a.__eq__(o) is NotImplemented and o.__eq__(a) is NotImplemented
    assert (a == o) is False

    @dataclass(eq=False, repr=False)
    class Child(Newer):
        pass

    assert a.__eq__(Child(i32=1)) is NotImplemented
    assert (Child(i32=1) == a) is False
    check_eq(Child(i32=1), Child(i32=1), True)

    @dataclass(eq=False, repr=False)
    class Empty(Message):
        pass

    check_eq(Empty(), Empty(), True)
    check_eq(Empty().parse(b"\x08\x01"), Empty(), True)


def test_lazy_and_state():
    # reading a mutable default stores it; reading a scalar does not: both compare equal
    a, b = Newer(), Newer()
    _ = a.sub, a.ints, a.m, a.i32, a.text
    check_eq(a, b, True)
    a.ints.append(1)
    check_eq(a, b, False)
    b.ints.append(1)
    check_eq(a, b, True)
    a.sub.a = 4
    check_eq(a, b, False)
    b.sub = Sub(a=4)
    check_eq(a, b, True)
    # oneof members
    check_eq(Newer(one_a=0), Newer(), True)  # same resolved value, by design of __eq__
    check_eq(Newer(one_a=3), Newer(one_b="x"), False)
    check_eq(Newer(one_a=3), Newer(one_a=3), True)
    x = Newer(one_a=3)
    x.one_b = "x"
    check_eq(x, Newer(one_b="x"), True)
    # optional
    check_eq(Newer(opt=None), Newer(), True)
    check_eq(Newer(opt=0), Newer(), False)
    check_eq(Newer(opt=0), Newer(opt=0), True)
    # unknown fields and the on-wire flag take no part in equality
    c = Newer().parse(b"\x98\x7f\x05")  # field 1939, varint
    assert c._unknown_fields == b"\x98\x7f\x05"
    check_eq(c, Newer(), True)
    check_eq(Newer().parse(b""), Newer(), True)
    # element-wise container comparison
    check_eq(Newer(ints=[1, 2]), Newer(ints=[2, 1]), False)
    check_eq(Newer(ints=[1, 2]), Newer(ints=[1, 2, 0]), False)
    check_eq(Newer(m={"a": 1, "b": 2}), Newer(m={"b": 2, "a": 1}), True)
    check_eq(Newer(m={"a": 1}), Newer(m={"a": 2}), False)
    check_eq(Newer(blob=b"a"), Newer(blob=b"b"), False)
    check_eq(Newer(text="a"), Newer(text="A"), False)
    check_eq(Newer(dbl=0.0), Newer(dbl=-0.0), True)


# ---------------------------------------------------------------- schema evolution
def split_fields(data):
    """Independent wire splitter -> list of (number, wire_type, raw bytes)."""
    out, i = [], 0

    def varint(i):
        v = s = 0
        while True:
            b = data[i]
            i += 1
            v |= (b & 0x7F) << s
            s += 7
            if not b & 0x80:
                return v, i

    while i < len(data):
        start = i
        tag, i = varint(i)
        wt = tag & 7
        if wt == 0:
            _, i = varint(i)
        elif wt == 1:
            i += 8
        elif wt == 5:
            i += 4
        elif wt == 2:
            n, i = varint(i)
            i += n
        else:
            raise AssertionError(wt)
        assert i <= len(data)
        out.append((tag >> 3, wt, data[start:i]))
    return out


NUMBER = {"i32": 1, "s64": 2, "text": 3, "blob": 4, "dbl": 5, "flt": 6, "flag": 7, "fx32": 8,
          "sfx64": 9, "ints": 10, "strs": 11, "sub": 12, "subs": 13, "m": 14, "one_a": 15,
          "one_b": 16, "opt": 17, "dbls": 18, "big": 1000}


def test_evolution(rng, n_schemas, n_values):
    schemas = [set(), set(ALL)]
    schemas += [{f} for f in ALL]
    schemas += [set(ALL) - {f} for f in ALL]
    while len(schemas) < n_schemas:
        schemas.append({f for f in ALL if rng.random() < 0.5})
    for keep in schemas:
        sub_cls = rng.choice(["Sub", "SubOld"])
        Older = make_older(keep, sub_cls)
        kept_numbers = {NUMBER[f] for f in keep}
        for _ in range(n_values):
            vals = rand_values(rng)
            newer = Newer(**vals)
            wire = bytes(newer)
            older = Older().parse(wire)
            # unknown fields: exactly the fields of dropped numbers, in arrival order
            expected_unknown = b"".join(
                raw for num, _, raw in split_fields(wire) if num not in kept_numbers
            )
            assert older._unknown_fields == expected_unknown
            # known fields are undisturbed (compare with the message built directly)
            direct_kw = {}
            for f in keep:
                if f in vals:
                    v = vals[f]
                    if sub_cls == "SubOld" and f == "sub":
                        v = SubOld(s=v.s)
                    elif sub_cls == "SubOld" and f == "subs":
                        v = [SubOld(s=x.s) for x in v]
                    direct_kw[f] = v
            direct = Older(**direct_kw)
            check_eq(older, direct, True)
            # pass through the older reader/writer and read again with the newer schema
            again = bytes(older)
            assert len(older) == len(again)
            if sub_cls == "Sub":  # (an older nested schema reorders inside the child)
                assert sorted(r for _, _, r in split_fields(again)) == sorted(
                    r for _, _, r in split_fields(wire)
                )
            back = Newer().parse(again)
            check_eq(back, newer, True)
            assert bytes(back) == wire
            # equality distinguishes a changed message after the round trip too
            changed = Newer().parse(again)
            changed.i32 = vals.get("i32", 0) + 1
            check_eq(changed, newer, False)


def main():
    rng = random.Random(20240812)
    test_nan()
    test_other_types()
    test_lazy_and_state()
    test_model(rng, 600)
    test_evolution(rng, 80, 12)
    print("equiv OK")


if __name__ == "__main__":
    main()
