"""C11 keep2: get_type_reference yields the same references/imports for every package
topology, and services generated with cross-package / well-known request and response
types still import and route calls correctly."""
import asyncio
import importlib
import itertools
import os
import sys
import tempfile

import grpc_tools
import grpc_tools.protoc
import grpclib
from grpclib.testing import ChannelFor

import betterproto.plugin.compiler as plugin_compiler
from betterproto.lib.google.protobuf import FileDescriptorSet
from betterproto.lib.google.protobuf.compiler import CodeGeneratorRequest
from betterproto.plugin.parser import generate_code

# ruff is not installed: skip the two formatting passes of the plugin
plugin_compiler.subprocess.check_output = lambda cmd, input, encoding: input

_counter = itertools.count()


def generate(protos, parameter=""):
    work = tempfile.mkdtemp(prefix="c11_")
    src = os.path.join(work, "src")
    for name, text in protos.items():
        path = os.path.join(src, name)
        os.makedirs(os.path.dirname(path), exist_ok=True)
        with open(path, "w") as fh:
            fh.write(text)
    ds = os.path.join(work, "ds.bin")
    inc = os.path.join(os.path.dirname(grpc_tools.__file__), "_proto")
    rc = grpc_tools.protoc.main(
        ["protoc", f"-I{src}", f"-I{inc}", "--include_imports",
         "--include_source_info", f"--descriptor_set_out={ds}", *protos]
    )
    assert rc == 0
    with open(ds, "rb") as fh:
        fds = FileDescriptorSet().parse(fh.read())
    request = CodeGeneratorRequest(
        file_to_generate=list(protos), parameter=parameter, proto_file=fds.file
    )
    saved, sys.stderr = sys.stderr, open(os.devnull, "w")
    try:
        response = generate_code(request)
    finally:
        sys.stderr = saved
    root = f"c11gen{next(_counter)}"
    out = os.path.join(work, "out", root)
    for f in response.file:
        path = os.path.join(out, f.name)
        os.makedirs(os.path.dirname(path), exist_ok=True)
        with open(path, "w") as fh:
            fh.write(f.content)
    init = os.path.join(out, "__init__.py")
    if not os.path.exists(init):
        open(init, "w").close()
    sys.path.insert(0, os.path.join(work, "out"))
    return root



import itertools as it
import os.path

from betterproto.casing import safe_snake_case
from betterproto.compile.importing import get_type_reference, parse_source_type_name
from betterproto.compile.naming import pythonize_class_name
from betterproto.plugin.typing_compiler import (
    DirectImportTypingCompiler,
    NoTyping310TypingCompiler,
    TypingImportTypingCompiler,
)

# --------------------------------------------------------------------------- part 1
# get_type_reference against an independent oracle over a grid of package topologies


def oracle(package, source_type, unwrap, pydantic, tc):
    """Expected (reference, imports) written down from the documented naming scheme."""
    wrappers = {
        "DoubleValue": "float", "FloatValue": "float", "Int32Value": "int",
        "Int64Value": "int", "UInt32Value": "int", "UInt64Value": "int",
        "BoolValue": "bool", "StringValue": "str", "BytesValue": "bytes",
    }
    if unwrap and source_type.startswith(".google.protobuf."):
        short = source_type[len(".google.protobuf."):]
        if short in wrappers:
            return tc.optional(wrappers[short]), set()
        if short == "Duration":
            return "timedelta", set()
        if short == "Timestamp":
            return "datetime", set()
    src_pkg, name = parse_source_type_name(source_type)
    cur = package.split(".") if package else []
    src = src_pkg.split(".") if src_pkg else []
    cls = pythonize_class_name(name)
    if src == ["google", "protobuf"] and cur != ["google", "protobuf"]:
        mod = "betterproto.lib.pydantic.google.protobuf" if pydantic else "betterproto.lib.google.protobuf"
        alias = mod.replace(".", "_")
        return f'"{alias}.{cls}"', {f"import {mod} as {alias}"}
    if src[:1] == ["betterproto"]:
        mod = ".".join(src)
        alias = safe_snake_case(mod)
        return f'"{alias}.{cls}"', {f"import {mod} as {alias}"}
    common = 0
    while common < min(len(cur), len(src)) and cur[common] == src[common]:
        common += 1
    up = len(cur) - common
    down = src[common:]
    if up == 0 and not down:
        return f'"{cls}"', set()
    if up == 0:  # descendant
        if len(down) == 1:
            return f'"{down[0]}.{cls}"', {f"from . import {down[0]}"}
        alias = "_".join(down)
        return f'"{alias}.{cls}"', {f"from .{'.'.join(down[:-1])} import {down[-1]} as {alias}"}
    if not down:  # ancestor
        if src:
            alias = f"_{'_' * up}{src[-1]}__"
            return f'"{alias}.{cls}"', {f"from ..{'.' * up} import {src[-1]} as {alias}"}
        alias = f"{'_' * up}{cls}__"
        return f'"{alias}"', {f"from .{'.' * up} import {cls} as {alias}"}
    alias = "_" * up + safe_snake_case(".".join(down)) + "__"
    return f'"{alias}.{cls}"', {f"from .{'.' * up}{'.'.join(down[:-1])} import {down[-1]} as {alias}"}


def check_grid():
    packages = [
        "", "a", "b", "a.b", "a.c", "a.b.c", "a.b.d", "a.b.c.d", "b.a", "ab", "a.bc",
        "x.y.z", "a.a", "a.a.a", "google", "google.protobuf", "google.protobuf.compiler",
        "google.type", "betterproto", "betterproto.lib", "betterproto.lib.google.protobuf",
        "foo_bar.baz1", "v1", "a.v1", "a.v2",
    ]
    names = ["Msg", "Outer.Inner", "lower_case", "HTTPReq", "Empty", "Timestamp",
             "Duration", "StringValue", "Int64Value", "BoolValue", "BytesValue",
             "Struct", "Any", "FieldMask", "None"]
    compilers = [DirectImportTypingCompiler, TypingImportTypingCompiler, NoTyping310TypingCompiler]
    checked = 0
    for cur, src, name in it.product(packages, packages, names):
        source_type = "." + (src + "." if src else "") + name
        for unwrap, pydantic, tc_cls in it.product((True, False), (True, False), compilers):
            tc, tc2 = tc_cls(), tc_cls()
            imports = {"sentinel"}
            got = get_type_reference(
                package=cur, imports=imports, source_type=source_type,
                typing_compiler=tc, unwrap=unwrap, pydantic=pydantic,
            )
            want, want_imports = oracle(cur, source_type, unwrap, pydantic, tc2)
            assert got == want, (cur, source_type, unwrap, pydantic, got, want)
            assert imports == want_imports | {"sentinel"}, (cur, source_type, imports, want_imports)
            assert tc.imports() == tc2.imports(), (cur, source_type)
            checked += 1
    # defaults: unwrap=True, pydantic=False
    tc = DirectImportTypingCompiler()
    assert get_type_reference(package="a", imports=set(), source_type=".google.protobuf.Timestamp", typing_compiler=tc) == "datetime"
    assert get_type_reference(package="a", imports=set(), source_type=".google.protobuf.Duration", typing_compiler=tc) == "timedelta"
    assert get_type_reference(package="a", imports=set(), source_type=".google.protobuf.Int32Value", typing_compiler=tc) == "Optional[int]"
    # a few literal expectations, independent of the oracle
    literal = [
        ("a.b", ".a.b.Msg", '"Msg"', set()),
        ("a.b", ".a.b.c.Msg", '"c.Msg"', {"from . import c"}),
        ("a.b", ".a.b.c.d.Msg", '"c_d.Msg"', {"from .c import d as c_d"}),
        ("", ".a.b.Msg", '"a_b.Msg"', {"from .a import b as a_b"}),
        ("", ".Msg", '"Msg"', set()),
        ("a.b", ".a.Msg", '"__a__.Msg"', {"from ... import a as __a__"}),
        ("a.b.c", ".a.Msg", '"___a__.Msg"', {"from .... import a as ___a__"}),
        ("a.b", ".Msg", '"__Msg__"', {"from ... import Msg as __Msg__"}),
        ("a", ".Msg", '"_Msg__"', {"from .. import Msg as _Msg__"}),
        ("a.b", ".a.x.Msg", '"_x__.Msg"', {"from .. import x as _x__"}),
        ("a.b", ".z.y.Msg", '"__z_y__.Msg"', {"from ...z import y as __z_y__"}),
        ("a", ".b.Msg", '"_b__.Msg"', {"from .. import b as _b__"}),
        ("a.b", ".google.protobuf.Empty", '"betterproto_lib_google_protobuf.Empty"',
         {"import betterproto.lib.google.protobuf as betterproto_lib_google_protobuf"}),
        ("google.protobuf", ".google.protobuf.Empty", '"Empty"', set()),
        ("google.protobuf.compiler", ".google.protobuf.FileDescriptorProto",
         '"betterproto_lib_google_protobuf.FileDescriptorProto"',
         {"import betterproto.lib.google.protobuf as betterproto_lib_google_protobuf"}),
    ]
    for cur, st, want, want_imports in literal:
        imports = set()
        got = get_type_reference(package=cur, imports=imports, source_type=st,
                                 typing_compiler=DirectImportTypingCompiler(), unwrap=False)
        assert (got, imports) == (want, want_imports), (cur, st, got, imports)
    return checked


checked = check_grid()
assert checked > 100000, checked

# --------------------------------------------------------------------------- part 2
# generated services whose request / response types live in other packages


def svc_proto(package, imports, types, extra=""):
    """a service with one RPC of every cardinality per (request, response) type pair"""
    lines = ['syntax = "proto3";']
    if package:
        lines.append(f"package {package};")
    lines += [f'import "{i}";' for i in imports]
    lines.append(extra)
    lines.append("service Hub {")
    for k, (req, resp) in enumerate(types):
        lines.append(f"  rpc UU{k} ({req}) returns ({resp});")
        lines.append(f"  rpc US{k} ({req}) returns (stream {resp});")
        lines.append(f"  rpc SU{k} (stream {req}) returns ({resp});")
        lines.append(f"  rpc SS{k} (stream {req}) returns (stream {resp});")
    lines.append("}")
    return "\n".join(lines)


def msg_proto(package, name):
    pkg = f"package {package};" if package else ""
    return f'syntax = "proto3"; {pkg} message {name} {{ string s = 1; int32 n = 2; }}'


FILES = {
    "root.proto": msg_proto("", "RootMsg"),
    "a.proto": msg_proto("a", "AMsg"),
    "a_b_c.proto": msg_proto("a.b.c", "CMsg"),
    "a_b_c_d.proto": msg_proto("a.b.c.d", "DMsg"),
    "a_x.proto": msg_proto("a.x", "XMsg"),
    "z_y.proto": msg_proto("z.y", "YMsg"),
}
LEAVES = list(FILES)
# the service under test lives in a.b and pulls its types from everywhere
PAIRS = [
    ("Local", "Local"),
    ("Local.Nested", ".a.b.c.CMsg"),
    (".a.b.c.CMsg", ".a.b.c.d.DMsg"),
    (".a.AMsg", ".RootMsg"),
    (".RootMsg", ".a.x.XMsg"),
    (".a.x.XMsg", ".z.y.YMsg"),
    (".z.y.YMsg", "google.protobuf.Empty"),
    ("google.protobuf.StringValue", "google.protobuf.Timestamp"),
    ("google.protobuf.Duration", ".a.AMsg"),
]
FILES["a_b.proto"] = svc_proto(
    "a.b",
    LEAVES + ["google/protobuf/empty.proto", "google/protobuf/wrappers.proto",
              "google/protobuf/timestamp.proto", "google/protobuf/duration.proto"],
    PAIRS,
    "message Local { string s = 1; int32 n = 2; message Nested { string s = 1; int32 n = 2; } }",
)
# a service in the root package (everything is a descendant) and one deep down
# that refers upwards only
ROOT_PAIRS = [(".a.b.c.CMsg", ".a.AMsg"), (".z.y.YMsg", "RootLocal")]
FILES["root_svc.proto"] = svc_proto(
    "", ["a.proto", "a_b_c.proto", "z_y.proto"], ROOT_PAIRS,
    "message RootLocal { string s = 1; int32 n = 2; }",
)
DEEP_PAIRS = [(".a.AMsg", ".RootMsg"), (".a.b.c.CMsg", ".a.x.XMsg")]
FILES["deep_svc.proto"] = svc_proto(
    "a.b.c.d.e", ["a.proto", "root.proto", "a_b_c.proto", "a_x.proto"], DEEP_PAIRS)


def resolve(root, current_pkg, name):
    import betterproto.lib.google.protobuf as gpb
    if name.startswith("google.protobuf."):
        return getattr(gpb, name.rsplit(".", 1)[1])
    if name.startswith("."):
        pkg, _, cls = name[1:].rpartition(".")
    else:
        pkg, cls = current_pkg, name.replace(".", "")
    return getattr(importlib.import_module(root + ("." + pkg if pkg else "")), cls)


def sample(cls, i):
    import datetime
    n = cls.__name__
    if n == "Empty":
        return cls()
    if n == "StringValue":
        return cls(value=f"v{i}")
    if n in ("Timestamp", "Duration"):
        return cls(seconds=1000 + i, nanos=i)
    return cls(s=f"s{i}", n=i)


async def run_service(root, pkg, pairs):
    mod = importlib.import_module(root + ("." + pkg if pkg else ""))
    Stub, Base = mod.HubStub, mod.HubBase
    types = [(resolve(root, pkg, a), resolve(root, pkg, b)) for a, b in pairs]
    log = []
    ns = {}
    for k, (req_t, resp_t) in enumerate(types):
        def make(k=k, req_t=req_t, resp_t=resp_t):
            async def uu(self, request):
                log.append((f"uu{k}", request))
                assert type(request) is req_t
                return sample(resp_t, 1)

            async def us(self, request):
                log.append((f"us{k}", request))
                for i in range(3):
                    yield sample(resp_t, i)

            async def su(self, request_iterator):
                got = [r async for r in request_iterator]
                log.append((f"su{k}", got))
                assert all(type(r) is req_t for r in got)
                return sample(resp_t, len(got))

            async def ss(self, request_iterator):
                got = []
                async for r in request_iterator:
                    got.append(r)
                    yield sample(resp_t, len(got))
                log.append((f"ss{k}", got))

            return {f"uu{k}": uu, f"us{k}": us, f"su{k}": su, f"ss{k}": ss}
        ns.update(make())
    Impl = type("Impl", (Base,), ns)
    # the route table names the generated types
    mapping = Impl().__mapping__()
    assert len(mapping) == 4 * len(pairs)
    service_name = (pkg + "." if pkg else "") + "Hub"
    for k, (req_t, resp_t) in enumerate(types):
        for prefix in ("UU", "US", "SU", "SS"):
            h = mapping[f"/{service_name}/{prefix}{k}"]
            assert h.request_type is req_t and h.reply_type is resp_t, (prefix, k, h)
    async with ChannelFor([Impl()]) as channel:
        stub = Stub(channel)
        for k, (req_t, resp_t) in enumerate(types):
            reqs = [sample(req_t, i) for i in range(3)]
            log.clear()
            r = await getattr(stub, f"uu{k}")(reqs[0])
            assert type(r) is resp_t and r == sample(resp_t, 1)
            rs = [x async for x in getattr(stub, f"us{k}")(reqs[1])]
            assert rs == [sample(resp_t, i) for i in range(3)] and all(type(x) is resp_t for x in rs)
            r = await getattr(stub, f"su{k}")(reqs)
            assert type(r) is resp_t and r == sample(resp_t, 3)
            rs = [x async for x in getattr(stub, f"ss{k}")(reqs)]
            assert rs == [sample(resp_t, i) for i in (1, 2, 3)]
            assert log == [(f"uu{k}", reqs[0]), (f"us{k}", reqs[1]), (f"su{k}", reqs), (f"ss{k}", reqs)], log
    # nothing overridden -> UNIMPLEMENTED everywhere
    async with ChannelFor([Base()]) as channel:
        stub = Stub(channel)
        req_t = types[0][0]
        for call in (
            lambda: stub.uu0(sample(req_t, 0)),
            lambda: stub.su0([sample(req_t, 0)]),
        ):
            try:
                await call()
            except grpclib.GRPCError as e:
                assert e.status == grpclib.const.Status.UNIMPLEMENTED
            else:
                raise AssertionError("UNIMPLEMENTED expected")
        for gen in (stub.us0(sample(req_t, 0)), stub.ss0([sample(req_t, 0)])):
            try:
                async for _ in gen:
                    pass
            except grpclib.GRPCError as e:
                assert e.status == grpclib.const.Status.UNIMPLEMENTED
            else:
                raise AssertionError("UNIMPLEMENTED expected")


async def main():
    for parameter in ("", "typing.root", "typing.310"):
        root = generate(FILES, parameter)
        await run_service(root, "a.b", PAIRS)
        await run_service(root, "", ROOT_PAIRS)
        await run_service(root, "a.b.c.d.e", DEEP_PAIRS)


asyncio.run(asyncio.wait_for(main(), 100))
print(f"C11 keep2 equiv OK ({checked} type references checked)")
