"""Equivalence check for the from_pydict refactor (property C07).

Random operation histories are applied in lock step to two messages: one uses the
library's Message.from_pydict, the other a verbatim transcription of the original
from_pydict body (ref_from_pydict).  After every step all oneof observables (raw slots,
_group_current, which_one_of, attribute reads / AttributeError text, bytes, to_dict,
to_pydict, flags, exceptions) must be identical, and the C07 invariants must hold.
"""
import copy
import pickle
import random
import sys
from dataclasses import dataclass
from datetime import datetime, timedelta, timezone
from typing import Dict, List, Optional

import betterproto
from betterproto import (
    PLACEHOLDER,
    TYPE_INT32,
    TYPE_MESSAGE,
    TYPE_STRING,
    Casing,
    which_one_of,
)
from betterproto.casing import safe_snake_case


class Color(betterproto.Enum):
    ZERO = 0
    RED = 1
    BLUE = 2


@dataclass(eq=False, repr=False)
class Empty(betterproto.Message):
    pass


@dataclass(eq=False, repr=False)
class Inner(betterproto.Message):
    a: int = betterproto.int32_field(1)
    s: str = betterproto.string_field(2, group="g")
    n: int = betterproto.sint64_field(3, group="g")
    kids: List["Inner"] = betterproto.message_field(4)


@dataclass(eq=False, repr=False)
class M(betterproto.Message):
    plain: int = betterproto.int32_field(1)
    a_int: int = betterproto.int32_field(2, group="a")
    a_str: str = betterproto.string_field(3, group="a")
    a_enum: Color = betterproto.enum_field(4, group="a")
    a_msg: Inner = betterproto.message_field(5, group="a")
    b_bool: bool = betterproto.bool_field(6, group="b")
    b_bytes: bytes = betterproto.bytes_field(7, group="b")
    b_i64: int = betterproto.int64_field(8, group="b")
    b_dbl: float = betterproto.double_field(9, group="b")
    b_empty: Empty = betterproto.message_field(10, group="b")
    c_ts: datetime = betterproto.message_field(11, group="c")
    c_dur: timedelta = betterproto.message_field(12, group="c")
    c_wrap: Optional[int] = betterproto.message_field(13, wraps=TYPE_INT32, group="c")
    c_msg_2: Inner = betterproto.message_field(14, group="c")
    reps: List[Inner] = betterproto.message_field(15)
    mp: Dict[str, Inner] = betterproto.map_field(16, TYPE_STRING, TYPE_MESSAGE)
    mp2: Dict[str, int] = betterproto.map_field(17, TYPE_STRING, TYPE_INT32)
    opt: Optional[int] = betterproto.int32_field(18, optional=True, group="_opt")
    opt_msg: Optional[Inner] = betterproto.message_field(
        19, optional=True, group="_opt_msg"
    )
    nums: List[int] = betterproto.int64_field(20)
    sub: Inner = betterproto.message_field(21)
    wrap_plain: Optional[str] = betterproto.message_field(22, wraps=TYPE_STRING)
    ts_plain: datetime = betterproto.message_field(23)
    dur_plain: timedelta = betterproto.message_field(24)


GROUPS = {
    "a": ["a_int", "a_str", "a_enum", "a_msg"],
    "b": ["b_bool", "b_bytes", "b_i64", "b_dbl", "b_empty"],
    "c": ["c_ts", "c_dur", "c_wrap", "c_msg_2"],
}
NUMBER = {n: m.number for n, m in M._betterproto.meta_by_field_name.items()}


# --------------------------------------------------------------------------- reference
def ref_from_pydict(self, value):
    """The original body of Message.from_pydict, as a free function."""
    self._serialized_on_wire = True
    for key in value:
        field_name = self._betterproto.field_name_by_key.get(key) or safe_snake_case(
            key
        )
        meta = self._betterproto.meta_by_field_name.get(field_name)
        if not meta:
            continue

        if value[key] is not None:
            if meta.proto_type == TYPE_MESSAGE:
                v = getattr(self, field_name)
                if isinstance(v, list):
                    cls = self._betterproto.cls_by_field[field_name]
                    for item in value[key]:
                        v.append(ref_from_pydict(cls(), item))
                elif isinstance(v, datetime):
                    v = value[key]
                elif isinstance(v, timedelta):
                    v = value[key]
                elif meta.wraps:
                    v = value[key]
                else:
                    ref_from_pydict(v, value[key])
            elif meta.map_types and meta.map_types[1] == TYPE_MESSAGE:
                v = getattr(self, field_name)
                cls = self._betterproto.cls_by_field[f"{field_name}.value"]
                for k in value[key]:
                    v[k] = ref_from_pydict(cls(), value[key][k])
            else:
                v = value[key]

            if v is not None:
                setattr(self, field_name, v)
    return self


def lib_from_pydict(self, value):
    return self.from_pydict(value)


# --------------------------------------------------------------------------- snapshots
def raw(m, name):
    return object.__getattribute__(m, name)


def snap_value(v):
    if isinstance(v, betterproto.Message):
        return snap(v)
    if isinstance(v, list):
        return ["list"] + [snap_value(i) for i in v]
    if isinstance(v, dict):
        return ["dict"] + [(k, snap_value(i)) for k, i in v.items()]
    return (type(v).__name__, repr(v))


def obs(fn):
    """An observable that may fail for ill-typed content: the failure is the result."""
    try:
        return ("ok", fn())
    except Exception as e:  # noqa: BLE001
        return ("err", type(e).__name__, str(e))


def snap(m):
    """Everything observable about a message (without lazily creating defaults first)."""
    out = [type(m).__name__]
    out.append(
        [(n, snap_value(raw(m, n))) for n in m._betterproto.meta_by_field_name]
    )
    out.append(list(m._group_current.items()))
    out.append((m._serialized_on_wire, m._unknown_fields))
    out.append(obs(lambda: bytes(m)))
    out.append(obs(lambda: len(m)))
    for casing in (Casing.CAMEL, Casing.SNAKE):
        for inc in (False, True):
            out.append(obs(lambda: repr(m.to_dict(casing, inc))))
            out.append(obs(lambda: repr(m.to_pydict(casing, inc))))
    for g in m._betterproto.oneof_field_by_group:
        name, val = which_one_of(m, g)
        out.append((g, name, snap_value(val)))
    reads = []
    for n in m._betterproto.meta_by_field_name:
        if n in m._betterproto.oneof_group_by_field:
            try:
                reads.append((n, "ok", snap_value(getattr(m, n))))
            except AttributeError as e:
                reads.append((n, "AttributeError", str(e)))
    out.append(reads)
    return out


def wire_numbers(data):
    return [f.number for f in betterproto.parse_fields(data)]


def check_invariants(m):
    """The C07 statement itself, on the top-level message."""
    try:
        data = bytes(m)
        js = m.to_dict(Casing.SNAKE)
    except Exception:  # noqa: BLE001 - an ill-typed value was stored on purpose
        return
    # (ill-typed values stored on purpose can come back as unknown fields; those
    # are appended verbatim and are not members of anything)
    assert data.endswith(m._unknown_fields)
    numbers = wire_numbers(data[: len(data) - len(m._unknown_fields)])
    for g, members in GROUPS.items():
        name, _ = which_one_of(m, g)
        assert name == "" or name in members, (g, name)
        set_members = [n for n in members if raw(m, n) is not PLACEHOLDER]
        assert len(set_members) <= 1, (g, set_members)
        if name:
            assert set_members == [name], (g, name, set_members)
        for n in members:
            if n == name:
                if getattr(m, n) is not None:  # None = wrapper member without a value
                    assert NUMBER[n] in numbers, (n, numbers)
                    assert n in js, (n, js)
            else:
                try:
                    getattr(m, n)
                except AttributeError:
                    pass
                else:
                    raise AssertionError(f"reading unselected {n} did not raise")
                assert NUMBER[n] not in numbers, (n, numbers)
                assert n not in js, (n, js)


# --------------------------------------------------------------------------- generators
def gen_inner_kwargs(rng, depth=0):
    kw = {}
    if rng.random() < 0.5:
        kw["a"] = rng.choice([0, 1, -1, 2**31 - 1])
    r = rng.random()
    if r < 0.3:
        kw["s"] = rng.choice(["", "x", "héllo"])
    elif r < 0.6:
        kw["n"] = rng.choice([0, -1, 2**62, -(2**63)])
    if depth < 2 and rng.random() < 0.2:
        kw["kids"] = [
            Inner(**gen_inner_kwargs(rng, depth + 1)) for _ in range(rng.randint(0, 2))
        ]
    return kw


def gen_value(rng, name):
    default = rng.random() < 0.35
    if name in ("a_msg", "c_msg_2", "sub", "opt_msg"):
        return Inner() if default else Inner(**gen_inner_kwargs(rng))
    if name in ("plain", "a_int", "opt"):
        return 0 if default else rng.choice([1, -1, 7, 2**31 - 1, -(2**31)])
    if name == "a_str":
        return "" if default else rng.choice(["a", "zz", "ünï", " "])
    if name == "a_enum":
        return Color.ZERO if default else rng.choice([Color.RED, Color.BLUE, 1, 2, 5])
    if name == "b_bool":
        return False if default else True
    if name == "b_bytes":
        return b"" if default else rng.choice([b"\x00", b"abc", b"\xff\xfe"])
    if name == "b_i64":
        return 0 if default else rng.choice([1, -1, 2**63 - 1, -(2**63)])
    if name == "b_dbl":
        return 0.0 if default else rng.choice([1.5, -2.25, float("inf"), 1e300])
    if name == "b_empty":
        return Empty()
    if name in ("c_ts", "ts_plain"):
        return (
            datetime(1970, 1, 1, tzinfo=timezone.utc)
            if default
            else datetime(2020, 5, rng.randint(1, 28), 3, 4, 5, 600, tzinfo=timezone.utc)
        )
    if name in ("c_dur", "dur_plain"):
        return (
            timedelta(0) if default else timedelta(seconds=rng.randint(-99, 99), microseconds=5)
        )
    if name == "c_wrap":
        return 0 if default else rng.choice([3, -3, None])
    if name == "wrap_plain":
        return "" if default else rng.choice(["w", None])
    if name == "reps":
        return [Inner(**gen_inner_kwargs(rng)) for _ in range(rng.randint(0, 3))]
    if name == "mp":
        return {
            rng.choice("pqr"): Inner(**gen_inner_kwargs(rng))
            for _ in range(rng.randint(0, 3))
        }
    if name == "mp2":
        return {rng.choice("pqr"): rng.randint(-3, 3) for _ in range(rng.randint(0, 3))}
    if name == "nums":
        return [rng.choice([0, 1, -1, 2**40]) for _ in range(rng.randint(0, 3))]
    raise AssertionError(name)


ALL_FIELDS = list(NUMBER)


def gen_kwargs(rng):
    kw = {}
    for g, members in GROUPS.items():
        if rng.random() < 0.6:
            n = rng.choice(members)
            kw[n] = gen_value(rng, n)
    for n in ALL_FIELDS:
        if n not in M._betterproto.oneof_group_by_field or n in ("opt", "opt_msg"):
            if rng.random() < 0.25:
                kw[n] = gen_value(rng, n)
    return kw


def inner_pydict(rng, depth=0):
    d = {}
    if rng.random() < 0.6:
        d[rng.choice(["a", "A"])] = rng.choice([0, 5, -5, None])
    r = rng.random()
    if r < 0.35:
        d["s"] = rng.choice(["", "q", None])
    elif r < 0.7:
        d["n"] = rng.choice([0, 9, -9])
    elif r < 0.8:  # both members of the inner group, in either order
        items = [("s", "both"), ("n", 4)]
        rng.shuffle(items)
        d.update(items)
    if depth < 2 and rng.random() < 0.25:
        d["kids"] = [inner_pydict(rng, depth + 1) for _ in range(rng.randint(0, 2))]
    if rng.random() < 0.1:
        d["nope"] = 1
    return d


def key_of(rng, name):
    r = rng.random()
    if r < 0.4:
        return name
    if r < 0.8:
        return Casing.CAMEL(name).rstrip("_")
    if r < 0.9:
        return Casing.SNAKE(name).rstrip("_")
    return name.upper()  # resolved through safe_snake_case, or unknown


def gen_pydict(rng):
    """A pydict naming 0..n members of each group in any order, plus other fields."""
    r = rng.random()
    if r < 0.15:
        # feed back what to_pydict produced for some other message
        src = build(rng)
        return src.to_pydict(
            rng.choice([Casing.CAMEL, Casing.SNAKE]), rng.random() < 0.3
        )
    items = []
    for n in rng.sample(ALL_FIELDS, rng.randint(0, 7)):
        q = rng.random()
        if q < 0.12:
            v = None
        elif n in ("a_msg", "c_msg_2", "sub", "opt_msg"):
            v = inner_pydict(rng)
        elif n == "b_empty":
            v = {}
        elif n == "reps":
            v = [inner_pydict(rng) for _ in range(rng.randint(0, 3))]
        elif n == "mp":
            v = {rng.choice("pqr"): inner_pydict(rng) for _ in range(rng.randint(0, 3))}
        else:
            v = gen_value(rng, n)
        if q > 0.97:  # ill-typed entries: the error path has to match too
            v = rng.choice([5, "text", [1], {"a": {"b": 1}}])
        items.append((key_of(rng, n), v))
    if rng.random() < 0.2:
        items.append((rng.choice(["unknown", "aInt2", "", "__"]), 1))
    rng.shuffle(items)
    return dict(items)


def build(rng):
    return M(**gen_kwargs(rng))


def gen_wire(rng):
    """Bytes with 0..n members of the groups in any order."""
    parts = []
    for _ in range(rng.randint(0, 4)):
        parts.append(bytes(build(rng)))
    return b"".join(parts)


# --------------------------------------------------------------------------- operations
OPS = [
    "construct", "set", "set", "set_default", "parse", "from_dict", "from_dict_new",
    "from_pydict", "from_pydict", "from_pydict", "from_pydict", "from_pydict_new",
    "copy", "deepcopy", "pickle", "nested_from_pydict",
]


def apply_op(op, seed, m, from_pydict):
    rng = random.Random(seed)
    if op == "construct":
        return build(rng)
    if op == "set":
        n = rng.choice(ALL_FIELDS)
        setattr(m, n, gen_value(rng, n))
        return m
    if op == "set_default":
        g = rng.choice(list(GROUPS))
        n = rng.choice(GROUPS[g])
        setattr(m, n, m._get_field_default(n))
        return m
    if op == "parse":
        return m.parse(gen_wire(rng))
    if op == "from_dict":
        return m.from_dict(build(rng).to_dict(rng.choice([Casing.CAMEL, Casing.SNAKE])))
    if op == "from_dict_new":
        return M.from_dict(build(rng).to_dict())
    if op == "from_pydict":
        return from_pydict(m, gen_pydict(rng))
    if op == "from_pydict_new":
        return from_pydict(M(), gen_pydict(rng))
    if op == "nested_from_pydict":
        target = rng.choice(["a_msg", "c_msg_2", "sub"])
        return from_pydict(m, {target: inner_pydict(rng)})
    if op == "copy":
        return copy.copy(m)
    if op == "deepcopy":
        return copy.deepcopy(m)
    if op == "pickle":
        return pickle.loads(pickle.dumps(m))
    raise AssertionError(op)


def run(n_histories, length, master_seed):
    master = random.Random(master_seed)
    steps = errors = pydict_steps = 0
    for _ in range(n_histories):
        lib, ref = M(), M()
        for _ in range(length):
            op = master.choice(OPS)
            seed = master.getrandbits(48)
            results = []
            for impl, msg in ((lib_from_pydict, lib), (ref_from_pydict, ref)):
                try:
                    results.append(("ok", apply_op(op, seed, msg, impl)))
                except Exception as e:  # noqa: BLE001 - the error is an observable
                    results.append(("err", (type(e).__name__, str(e)), msg))
            assert results[0][0] == results[1][0], (op, seed, results)
            if results[0][0] == "err":
                assert results[0][1] == results[1][1], (op, seed, results)
                errors += 1
                # a failed from_pydict leaves the same partial state behind
            else:
                lib, ref = results[0][1], results[1][1]
                assert isinstance(lib, M) and isinstance(ref, M)
            a, b = snap(lib), snap(ref)
            assert a == b, (op, seed, a, b)
            check_invariants(lib)
            steps += 1
            pydict_steps += "pydict" in op
    return steps, pydict_steps, errors


def fixed_cases():
    """Hand-written boundary cases, library against reference and against expectations."""
    cases = [
        {},
        {"a_int": 0},
        {"aInt": 0, "aStr": ""},
        {"aStr": "", "aInt": 0},
        {"a_int": 1, "a_str": None},
        {"a_enum": Color.ZERO},
        {"aEnum": 2, "bBool": False, "cWrap": 0},
        {"b_empty": {}},
        {"bBytes": b"", "bI64": 0, "bDbl": 0.0},
        {"c_ts": datetime(1970, 1, 1, tzinfo=timezone.utc)},
        {"c_dur": timedelta(0)},
        {"cWrap": 0},
        {"reps": [{}, {"s": ""}, {"n": 0, "s": "x"}]},
        {"mp": {"k": {"s": ""}, "j": {}}},
        {"mp": {}},
        {"mp2": {"k": 1}},
        {"opt": 0},
        {"opt": None},
        {"sub": {"s": "", "n": 0}},
        {"sub": {"kids": [{"kids": [{"n": 1}]}]}},
        {"wrap_plain": ""},
        {"tsPlain": datetime(2000, 1, 1, tzinfo=timezone.utc), "durPlain": timedelta(1)},
        {"unknown": 3, "plain": 4},
        {"PLAIN": 9},
    ]
    starts = [
        lambda: M(),
        lambda: M(a_int=0, b_bool=True, c_dur=timedelta(seconds=1)),
        lambda: M(a_msg=Inner(s="")),
        lambda: M(a_str="s", b_empty=Empty(), c_wrap=0, sub=Inner(n=0)),
    ]
    n = 0
    for start in starts:
        for case in cases:
            lib, ref = start(), start()
            out = []
            for impl, msg in ((lib_from_pydict, lib), (ref_from_pydict, ref)):
                try:
                    r = impl(msg, copy.deepcopy(case))
                    assert r is msg  # chainable: returns the instance itself
                    out.append("ok")
                except Exception as e:  # noqa: BLE001
                    out.append((type(e).__name__, str(e)))
            assert out[0] == out[1], (case, out)
            assert snap(lib) == snap(ref), (case, snap(lib), snap(ref))
            check_invariants(lib)
            n += 1

    # the last member named in the dict wins, also with default values
    m = M().from_pydict({"aInt": 0, "aStr": ""})
    assert which_one_of(m, "a") == ("a_str", "")
    assert bytes(m) == b"\x1a\x00" and m.to_dict() == {"aStr": ""}
    m.from_pydict({"a_str": "x", "a_int": 0})
    assert which_one_of(m, "a") == ("a_int", 0)
    assert bytes(m) == b"\x10\x00" and m.to_dict() == {"aInt": 0}
    # None entries and unknown keys select nothing
    m.from_pydict({"a_str": None, "whatever": 1, "b_i64": None})
    assert which_one_of(m, "a") == ("a_int", 0) and which_one_of(m, "b") == ("", None)
    # a selected sub-message is filled in place and stays selected
    m = M(a_msg=Inner(a=1))
    inner = m.a_msg
    m.from_pydict({"aMsg": {"s": ""}})
    assert m.a_msg is inner and which_one_of(m, "a")[0] == "a_msg"
    assert which_one_of(inner, "g") == ("s", "") and inner.a == 1
    # an unselected message member cannot be filled in place (historic behaviour)
    m = M(a_int=3)
    try:
        m.from_pydict({"aMsg": {"s": ""}})
    except AttributeError as e:
        assert "a_int" in str(e) and "a_msg" in str(e)
    else:
        raise AssertionError("expected AttributeError")
    assert which_one_of(m, "a") == ("a_int", 3)
    # containers are extended in place
    m = M(reps=[Inner(a=1)])
    lst = m.reps
    m.from_pydict({"reps": [{"n": 0}]})
    assert m.reps is lst and len(lst) == 2 and which_one_of(lst[1], "g") == ("n", 0)
    return n


if __name__ == "__main__":
    n_fixed = fixed_cases()
    total = [0, 0, 0]
    for master_seed, (n_hist, length) in enumerate([(30, 20), (6, 50), (100, 6)]):
        r = run(n_hist, length, 1000 + master_seed)
        total = [x + y for x, y in zip(total, r)]
    assert total[1] > 400 and total[2] > 20, total
    print(
        f"equiv OK: {n_fixed} fixed cases, {total[0]} history steps "
        f"({total[1]} from_pydict steps, {total[2]} matching error outcomes)"
    )
    sys.exit(0)
