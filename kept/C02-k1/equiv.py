"""C02 / keep1: decoding of packed repeated scalars (all 14 packable types) against the
reference implementation, for the canonical encoding and for legal re-encodings
(unpacked, split into chunks, mixed packed/unpacked, padded varints, interleaved with
other and unknown fields)."""
import math
import random
import struct
from dataclasses import dataclass
from typing import List

import betterproto
from google.protobuf import descriptor_pb2, descriptor_pool, message_factory

F = descriptor_pb2.FieldDescriptorProto
rnd = random.Random(20240)

KINDS = [
    # name, reference type, betterproto field factory, wire type when unpacked
    ("int32", F.TYPE_INT32, betterproto.int32_field, 0),
    ("int64", F.TYPE_INT64, betterproto.int64_field, 0),
    ("uint32", F.TYPE_UINT32, betterproto.uint32_field, 0),
    ("uint64", F.TYPE_UINT64, betterproto.uint64_field, 0),
    ("sint32", F.TYPE_SINT32, betterproto.sint32_field, 0),
    ("sint64", F.TYPE_SINT64, betterproto.sint64_field, 0),
    ("bool", F.TYPE_BOOL, betterproto.bool_field, 0),
    ("enum", F.TYPE_ENUM, betterproto.enum_field, 0),
    ("fixed32", F.TYPE_FIXED32, betterproto.fixed32_field, 5),
    ("sfixed32", F.TYPE_SFIXED32, betterproto.sfixed32_field, 5),
    ("float", F.TYPE_FLOAT, betterproto.float_field, 5),
    ("fixed64", F.TYPE_FIXED64, betterproto.fixed64_field, 1),
    ("sfixed64", F.TYPE_SFIXED64, betterproto.sfixed64_field, 1),
    ("double", F.TYPE_DOUBLE, betterproto.double_field, 1),
]

# ---- reference schema ---------------------------------------------------------------
fdp = descriptor_pb2.FileDescriptorProto(name="c02_keep1.proto", package="c02k1", syntax="proto3")
en = fdp.enum_type.add(name="Color")
for n, v in (("BLACK", 0), ("RED", 1), ("BLUE", 2), ("NEG", -5), ("LOW", -(1 << 31)), ("HIGH", (1 << 31) - 1)):
    en.value.add(name=n, number=v)
msg = fdp.message_type.add(name="Packed")
msg.field.add(name="head", number=1, type=F.TYPE_STRING, label=F.LABEL_OPTIONAL)
for i, (name, rtype, _, _) in enumerate(KINDS):
    f = msg.field.add(name="r_" + name, number=10 + i, type=rtype, label=F.LABEL_REPEATED)
    if rtype == F.TYPE_ENUM:
        f.type_name = ".c02k1.Color"
msg.field.add(name="tail", number=40, type=F.TYPE_INT32, label=F.LABEL_OPTIONAL)
pool = descriptor_pool.DescriptorPool()
pool.Add(fdp)
RefPacked = message_factory.GetMessageClass(pool.FindMessageTypeByName("c02k1.Packed"))


class Color(betterproto.Enum):
    BLACK = 0
    RED = 1
    BLUE = 2
    NEG = -5
    LOW = -(1 << 31)
    HIGH = (1 << 31) - 1


@dataclass(eq=False, repr=False)
class Packed(betterproto.Message):
    head: str = betterproto.string_field(1)
    r_int32: List[int] = betterproto.int32_field(10)
    r_int64: List[int] = betterproto.int64_field(11)
    r_uint32: List[int] = betterproto.uint32_field(12)
    r_uint64: List[int] = betterproto.uint64_field(13)
    r_sint32: List[int] = betterproto.sint32_field(14)
    r_sint64: List[int] = betterproto.sint64_field(15)
    r_bool: List[bool] = betterproto.bool_field(16)
    r_enum: List["Color"] = betterproto.enum_field(17)
    r_fixed32: List[int] = betterproto.fixed32_field(18)
    r_sfixed32: List[int] = betterproto.sfixed32_field(19)
    r_float: List[float] = betterproto.float_field(20)
    r_fixed64: List[int] = betterproto.fixed64_field(21)
    r_sfixed64: List[int] = betterproto.sfixed64_field(22)
    r_double: List[float] = betterproto.double_field(23)
    tail: int = betterproto.int32_field(40)


NUMBER = {name: 10 + i for i, (name, *_rest) in enumerate(KINDS)}
WIRE = {name: wt for name, _, _, wt in KINDS}

S32 = [0, 1, -1, 127, 128, 300, -128, -129, (1 << 31) - 1, -(1 << 31), -(1 << 31) + 1, 16383, 16384]
S64 = S32 + [1 << 31, -(1 << 31) - 1, (1 << 63) - 1, -(1 << 63), -(1 << 63) + 1, 1 << 62, 1 << 56, (1 << 56) - 1]
U32 = [0, 1, 127, 128, 255, 256, 16383, 16384, (1 << 31) - 1, 1 << 31, (1 << 32) - 1]
U64 = U32 + [1 << 32, (1 << 63) - 1, 1 << 63, (1 << 64) - 1, (1 << 56) - 1, 1 << 56]
F32 = [0.0, -0.0, 1.0, -1.5, 0.1, 3.4028234663852886e38, -3.4028234663852886e38, 1e-45, 1.17549435e-38,
       math.inf, -math.inf, math.nan, 16777216.0, 16777217.0]
F64 = F32 + [1.7976931348623157e308, -1.7976931348623157e308, 5e-324, 2.2250738585072014e-308, 1e39, 0.1 + 0.2]
BOUNDARY = {
    "int32": S32, "sint32": S32, "sfixed32": S32,
    "int64": S64, "sint64": S64, "sfixed64": S64,
    "uint32": U32, "fixed32": U32,
    "uint64": U64, "fixed64": U64,
    "bool": [False, True, True, False, False],
    "enum": [0, 1, 2, -5, -(1 << 31), (1 << 31) - 1, 7, -7, 123456],  # open enum: unknown numbers too
    "float": F32, "double": F64,
}


def rand_value(name):
    if name == "bool":
        return rnd.random() < 0.5
    if name == "float":
        return struct.unpack("<f", struct.pack("<I", rnd.getrandbits(32)))[0]
    if name == "double":
        return struct.unpack("<d", struct.pack("<Q", rnd.getrandbits(64)))[0]
    if rnd.random() < 0.3:
        return rnd.choice(BOUNDARY[name])
    bits = rnd.choice([1, 7, 8, 14, 15, 21, 28, 31, 32, 35, 49, 56, 63, 64])
    if name in ("uint32", "fixed32"):
        return rnd.getrandbits(min(bits, 32))
    if name in ("uint64", "fixed64"):
        return rnd.getrandbits(bits)
    if name in ("int32", "sint32", "sfixed32", "enum"):
        return rnd.getrandbits(min(bits, 32)) - (1 << 31) if bits >= 32 else rnd.choice([1, -1]) * rnd.getrandbits(min(bits, 31))
    return rnd.getrandbits(64) - (1 << 63) if bits >= 64 else rnd.choice([1, -1]) * rnd.getrandbits(min(bits, 63))


# ---- independent spec-level wire helpers -------------------------------------------------
def varint(n, pad=0):
    assert 0 <= n < 1 << 64
    out = []
    while True:
        b, n = n & 0x7F, n >> 7
        out.append(b)
        if not n:
            break
    out += [0] * min(pad, 10 - len(out))
    return bytes([b | 0x80 for b in out[:-1]] + [out[-1]])


def read_varint(data, pos):
    shift = value = 0
    while True:
        b = data[pos]
        pos += 1
        value |= (b & 0x7F) << shift
        shift += 7
        if not b & 0x80:
            return value, pos


def split_records(data):
    """[(number, wire_type, payload bytes)] of a serialized message."""
    pos, out = 0, []
    while pos < len(data):
        key, pos = read_varint(data, pos)
        number, wt = key >> 3, key & 7
        if wt == 0:
            v, end = read_varint(data, pos)
            payload = v
        elif wt == 1:
            end = pos + 8
            payload = data[pos:end]
        elif wt == 5:
            end = pos + 4
            payload = data[pos:end]
        else:
            n, pos = read_varint(data, pos)
            end = pos + n
            payload = data[pos:end]
        pos = end
        out.append((number, wt, payload))
    return out


def elements(name, payload):
    """Split the payload of a packed run into per-element payloads."""
    wt = WIRE[name]
    if wt == 0:
        pos, out = 0, []
        while pos < len(payload):
            v, pos = read_varint(payload, pos)
            out.append(v)
        return out
    width = 4 if wt == 5 else 8
    assert len(payload) % width == 0
    return [payload[i : i + width] for i in range(0, len(payload), width)]


def emit(number, wt, payload, pad=0):
    key = varint(number << 3 | wt, pad=rnd.randint(0, 2) if pad else 0)
    if wt == 0:
        return key + varint(payload, pad=rnd.randint(0, pad))
    if wt == 2:
        return key + varint(len(payload), pad=rnd.randint(0, min(pad, 3))) + payload
    return key + payload


def reencode(data, mode):
    """A legal alternative encoding of the same message."""
    by_number = {n: name for name, n in NUMBER.items()}
    pad = 9 if mode in ("pad", "wild") else 0
    groups = []  # each group is a list of records whose relative order must be kept
    for number, wt, payload in split_records(data):
        name = by_number.get(number)
        if name is None or wt != 2:
            groups.append([emit(number, wt, payload, pad)])
            continue
        elems = elements(name, payload)
        ewt = WIRE[name]
        recs = []
        i = 0
        while i < len(elems):
            if mode == "unpacked":
                take, packed = 1, False
            elif mode == "chunks":
                take, packed = rnd.randint(1, 4), True
            elif mode == "pad":
                take, packed = len(elems), True
            else:  # mixed / wild: runs of either kind, also empty packed runs
                take, packed = rnd.randint(0, 3), rnd.random() < 0.6
                if not packed:
                    take = 1
            chunk = elems[i : i + take]
            i += take
            if packed:
                if ewt == 0:
                    body = b"".join(varint(e, pad=rnd.randint(0, pad)) for e in chunk)
                else:
                    body = b"".join(chunk)
                recs.append(emit(number, 2, body, pad))
            else:
                recs.append(emit(number, ewt, chunk[0], pad))
        groups.append(recs)
    if mode in ("mixed", "wild"):
        # unknown fields of every wire type, then a random interleaving that keeps the
        # relative order of the records of each field
        groups.append([emit(900, 0, rnd.getrandbits(40), pad), emit(901, 2, b"\x08\x96\x01", pad)])
        groups.append([emit(902, 5, b"abcd"), emit(903, 1, b"abcdefgh")])
        out = []
        live = [list(g) for g in groups if g]
        while live:
            g = rnd.choice(live)
            out.append(g.pop(0))
            if not g:
                live.remove(g)
        return b"".join(out)
    return b"".join(r for g in groups for r in g)


def same(name, a, b):
    if name in ("float", "double"):
        if math.isnan(a) or math.isnan(b):
            return math.isnan(a) and math.isnan(b)
        return a == b and math.copysign(1, a) == math.copysign(1, b)
    if name == "bool":
        return a is b or (isinstance(a, bool) and a == b)
    return int(a) == int(b) and not isinstance(a, bool)


def check(data, ref):
    got = Packed().parse(data)
    assert got.head == ref.head and got.tail == ref.tail
    for name, *_ in KINDS:
        mine, theirs = getattr(got, "r_" + name), list(getattr(ref, "r_" + name))
        assert len(mine) == len(theirs), (name, mine, theirs)
        for a, b in zip(mine, theirs):
            assert same(name, a, b), (name, a, b)
        if name == "enum":
            assert all(isinstance(x, Color) for x in mine), mine
        if name == "bool":
            assert all(type(x) is bool for x in mine), mine
        if name in ("float", "double"):
            assert all(type(x) is float for x in mine), mine
    return got


def f32(x):
    return struct.unpack("<f", struct.pack("<f", x))[0]


cases = 0
for trial in range(400):
    ref = RefPacked(head=rnd.choice(["", "h", "héllo"]), tail=rnd.choice([0, 7, -7]))
    for name, *_ in KINDS:
        if trial == 0:
            vals = list(BOUNDARY[name])
        elif trial == 1:
            vals = []
        elif trial == 2:
            vals = [BOUNDARY[name][-1]]
        else:
            vals = [rand_value(name) for _ in range(rnd.choice([0, 1, 2, 3, 5, 17]))]
        if name == "float":
            vals = [v if math.isinf(v) or math.isnan(v) or abs(v) <= 3.4028234663852886e38 else math.inf for v in vals]
        getattr(ref, "r_" + name).extend(vals)
    data = ref.SerializeToString()
    got = check(data, ref)
    # betterproto's own bytes go back through the reference unchanged
    back = RefPacked.FromString(bytes(got))
    check(back.SerializeToString(), ref)
    for mode in ("unpacked", "chunks", "pad", "mixed", "wild"):
        alt = reencode(data, mode)
        ref2 = RefPacked.FromString(alt)
        # the re-encoding is the same message as far as the reference is concerned
        # (compared on the canonical bytes, so that NaN payloads do not matter)
        ref2.DiscardUnknownFields()
        assert ref2.SerializeToString() == data, mode
        check(alt, ref)
        cases += 1

# a few literal vectors that do not depend on the reference at all
m = Packed().parse(bytes.fromhex("52" "0d" "01" "ffffffffffffffffff01" "ac02" + "50" "80808080f8ffffffff01"))
assert m.r_int32 == [1, -1, 300, -(1 << 31)]
m = Packed().parse(bytes.fromhex("a201" "08" "0000803f" "000000c0" + "a501" "0000c07f" + "a201" "00"))
assert m.r_float[:2] == [1.0, -2.0] and math.isnan(m.r_float[2]) and len(m.r_float) == 3
m = Packed().parse(bytes.fromhex("ba01" "10" "000000000000f03f" "0000000000000080"))
assert m.r_double[0] == 1.0 and m.r_double[1] == 0.0 and math.copysign(1, m.r_double[1]) == -1
m = Packed().parse(bytes.fromhex("8201" "03" "010002" + "8001" "05" + "8a01" "0b" "02" "fbffffffffffffffff01"))
assert m.r_bool == [True, False, True, True] and m.r_enum == [Color.BLUE, Color.NEG]
m = Packed().parse(bytes.fromhex("7a" "0c" "01" "02" "ffffffffffffffffff01" + "72" "06" "01" "ffffffff0f"))
assert m.r_sint64 == [-1, 1, -(1 << 63)] and m.r_sint32 == [-1, -(1 << 31)]
m = Packed().parse(bytes.fromhex("9201" "04" "ffffffff" + "9a01" "04" "ffffffff" + "aa01" "08" "ffffffffffffffff" + "b201" "08" "0000000000000080"))
assert m.r_fixed32 == [(1 << 32) - 1] and m.r_sfixed32 == [-1] and m.r_fixed64 == [(1 << 64) - 1] and m.r_sfixed64 == [-(1 << 63)]
# an empty packed run adds nothing, and a repeated field decoded twice accumulates
m = Packed().parse(bytes.fromhex("5200" "a20100" "ba0100"))
assert m.r_int32 == [] and m.r_float == [] and m.r_double == []
# malformed packed payloads are still rejected
for bad in ("a201" "03" "000080", "ba01" "09" "000000000000f03f00", "52" "01" "80"):
    try:
        Packed().parse(bytes.fromhex(bad))
    except (struct.error, EOFError, ValueError):
        pass
    else:
        raise AssertionError("accepted malformed packed field " + bad)

print("C02 keep1 equiv: OK (%d re-encodings checked)" % cases)
