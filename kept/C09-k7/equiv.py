"""Equivalence check for the C09 refactor of Message.__len__ (packed / map branches) and
_len_single's length-delimited branch.

Exercises len(m), bytes(m), dump(stream), dump(stream, SIZE_DELIMITED) and SerializeToString
on packed repeated fields of every packable type and on maps of many key/value types, with
boundary values and payload sizes around the varint length-prefix boundaries, and compares
against golden bytes and against google.protobuf.  Passes on the pristine tree and with the
refactor applied.
"""
import enum
import math
import random
import struct
from dataclasses import dataclass
from datetime import datetime, timedelta, timezone
from io import BytesIO
from typing import Dict, List, Optional

import betterproto
from betterproto import (
    _len_single,
    _serialize_single,
    encode_varint,
    size_varint,
)

rnd = random.Random(0xC09)


class Color(betterproto.Enum):
    ZERO = 0
    ONE = 1
    BIG = 300
    NEG = -1


@dataclass(eq=False, repr=False)
class Sub(betterproto.Message):
    a: int = betterproto.int32_field(1)
    s: str = betterproto.string_field(2)


@dataclass(eq=False, repr=False)
class Packed(betterproto.Message):
    e: List[Color] = betterproto.enum_field(1)
    b: List[bool] = betterproto.bool_field(2)
    i32: List[int] = betterproto.int32_field(3)
    i64: List[int] = betterproto.int64_field(4)
    u32: List[int] = betterproto.uint32_field(5)
    u64: List[int] = betterproto.uint64_field(6)
    s32: List[int] = betterproto.sint32_field(7)
    s64: List[int] = betterproto.sint64_field(8)
    f: List[float] = betterproto.float_field(9)
    d: List[float] = betterproto.double_field(10)
    fx32: List[int] = betterproto.fixed32_field(15)
    sfx32: List[int] = betterproto.sfixed32_field(16)
    fx64: List[int] = betterproto.fixed64_field(2047)
    sfx64: List[int] = betterproto.sfixed64_field(2048)
    far: List[int] = betterproto.int32_field(536870911)  # largest field number


@dataclass(eq=False, repr=False)
class Maps(betterproto.Message):
    si: Dict[str, int] = betterproto.map_field(
        1, betterproto.TYPE_STRING, betterproto.TYPE_INT32
    )
    ii: Dict[int, int] = betterproto.map_field(
        2, betterproto.TYPE_INT64, betterproto.TYPE_SINT64
    )
    bs: Dict[bool, str] = betterproto.map_field(
        3, betterproto.TYPE_BOOL, betterproto.TYPE_STRING
    )
    um: Dict[int, Sub] = betterproto.map_field(
        15, betterproto.TYPE_UINT32, betterproto.TYPE_MESSAGE
    )
    se: Dict[str, Color] = betterproto.map_field(
        16, betterproto.TYPE_STRING, betterproto.TYPE_ENUM
    )
    fb: Dict[int, bytes] = betterproto.map_field(
        2047, betterproto.TYPE_FIXED64, betterproto.TYPE_BYTES
    )
    sd: Dict[int, float] = betterproto.map_field(
        2048, betterproto.TYPE_SFIXED32, betterproto.TYPE_DOUBLE
    )
    zf: Dict[int, float] = betterproto.map_field(
        20, betterproto.TYPE_SINT32, betterproto.TYPE_FLOAT
    )
    ub: Dict[int, bool] = betterproto.map_field(
        21, betterproto.TYPE_UINT64, betterproto.TYPE_BOOL
    )
    sb: Dict[str, bytes] = betterproto.map_field(
        22, betterproto.TYPE_STRING, betterproto.TYPE_BYTES
    )


@dataclass(eq=False, repr=False)
class Holder(betterproto.Message):
    """Packed + map members nested in singular / repeated / optional / oneof members."""

    p: Packed = betterproto.message_field(1)
    ms: List[Maps] = betterproto.message_field(2)
    op: Optional[Packed] = betterproto.message_field(3, optional=True)
    om: Maps = betterproto.message_field(4, group="g")
    oi: int = betterproto.int32_field(5, group="g")
    tail: str = betterproto.string_field(6)


checked = 0


def check(m: betterproto.Message, expected: Optional[bytes] = None) -> bytes:
    global checked
    checked += 1
    data = bytes(m)
    if expected is not None:
        assert data == expected, (data, expected)
    assert m.SerializeToString() == data
    assert len(m) == len(data), (len(m), len(data), data[:40])
    s = BytesIO()
    m.dump(s)
    assert s.getvalue() == data
    s = BytesIO()
    m.dump(s, betterproto.SIZE_DELIMITED)
    assert s.getvalue() == encode_varint(len(data)) + data
    # and the sizes survive a round trip
    again = type(m)().parse(data)
    assert bytes(again) == data and len(again) == len(data)
    return data


# ---------------------------------------------------------------------------------------
# 1. golden bytes / sizes
# ---------------------------------------------------------------------------------------
check(Packed(), b"")
check(Packed(i32=[1, 2, 3]), b"\x1a\x03\x01\x02\x03")
check(Packed(i32=[0]), b"\x1a\x01\x00")
check(Packed(i32=[-1]), b"\x1a\x0a" + b"\xff" * 9 + b"\x01")
check(Packed(s32=[-1, 1, -64, 64]), b"\x3a\x05\x01\x02\x7f\x80\x01")
check(Packed(b=[True, False]), b"\x12\x02\x01\x00")
check(Packed(e=[Color.BIG, Color.ZERO]), b"\x0a\x03\xac\x02\x00")
check(Packed(f=[1.0]), b"\x4a\x04" + struct.pack("<f", 1.0))
check(Packed(d=[-0.0]), b"\x52\x08" + struct.pack("<d", -0.0))
check(Packed(fx32=[1]), b"\x7a\x04\x01\x00\x00\x00")
check(Packed(sfx32=[-1]), b"\x82\x01\x04\xff\xff\xff\xff")
check(Packed(fx64=[2]), b"\xfa\x7f\x08" + struct.pack("<Q", 2))
check(Packed(sfx64=[-2]), b"\x82\x80\x01\x08" + struct.pack("<q", -2))
check(Packed(far=[5]), b"\xfa\xff\xff\xff\x0f\x01\x05")
assert len(Packed(i32=[1] * 127)) == 1 + 1 + 127
assert len(Packed(i32=[1] * 128)) == 1 + 2 + 128
assert len(Packed(sfx32=[1] * 32)) == 2 + 2 + 128
assert len(Packed(i32=[1] * 16383)) == 1 + 2 + 16383
assert len(Packed(i32=[1] * 16384)) == 1 + 3 + 16384

check(Maps(), b"")
check(Maps(si={"a": 1}), b"\x0a\x05\x0a\x01a\x10\x01")
check(Maps(si={"": 0}), b"\x0a\x02\x10\x00")  # varints are always written in an entry
check(Maps(si={"a": 0}), b"\x0a\x05\x0a\x01a\x10\x00")
check(Maps(sb={"": b""}), b"\xb2\x01\x00")  # default key and value: still an entry
check(Maps(sb={"": b"", "k": b""}), b"\xb2\x01\x00\xb2\x01\x03\x0a\x01k")
check(Maps(sb={"": b"v"}), b"\xb2\x01\x03\x12\x01v")
check(Maps(si={"": 7}), b"\x0a\x02\x10\x07")
check(Maps(ii={0: 0, 1: -1}), b"\x12\x04\x08\x00\x10\x00\x12\x04\x08\x01\x10\x01")
check(Maps(bs={False: "", True: "x"}), b"\x1a\x02\x08\x00\x1a\x05\x08\x01\x12\x01x")
check(Maps(um={0: Sub()}), b"\x7a\x02\x08\x00")
check(Maps(um={3: Sub(a=1)}), b"\x7a\x06\x08\x03\x12\x02\x08\x01")
check(Maps(se={"k": Color.ZERO}), b"\x82\x01\x05\x0a\x01k\x10\x00")
check(Maps(fb={0: b""}), b"\xfa\x7f\x09\x09" + b"\x00" * 8)
check(
    Maps(sd={0: 0.0}),
    b"\x82\x80\x01\x0e\x0d\x00\x00\x00\x00\x11" + b"\x00" * 8,
)
# entry sizes across the one/two byte length-prefix boundary
for n in (120, 121, 122, 123, 124, 125, 126, 127, 128, 129, 16376, 16377, 16378, 16379, 16380):
    data = check(Maps(si={"k" * n: 1}))
    entry = (1 + size_varint(n) + n) + 2
    assert len(data) == 1 + size_varint(entry) + entry
    data = check(Maps(fb={1: b"\x00" * n}))
    entry = 9 + (1 + size_varint(n) + n)
    assert len(data) == 2 + size_varint(entry) + entry

# ---------------------------------------------------------------------------------------
# 2. private helpers agree with each other on every map key / value type
# ---------------------------------------------------------------------------------------
INT_EDGES = {
    betterproto.TYPE_INT32: [0, 1, -1, 127, 128, 16383, 16384, 2**31 - 1, -(2**31)],
    betterproto.TYPE_INT64: [0, 1, -1, 2**35 - 1, 2**35, 2**63 - 1, -(2**63)],
    betterproto.TYPE_UINT32: [0, 1, 127, 128, 2**21 - 1, 2**21, 2**28, 2**32 - 1],
    betterproto.TYPE_UINT64: [0, 1, 2**49 - 1, 2**49, 2**56, 2**63, 2**64 - 1],
    betterproto.TYPE_SINT32: [0, -1, 1, -64, 63, 64, -65, -8192, 8191, 2**31 - 1, -(2**31)],
    betterproto.TYPE_SINT64: [0, -1, 1, -64, 64, -(2**34), 2**34, 2**63 - 1, -(2**63)],
    betterproto.TYPE_FIXED32: [0, 1, 2**32 - 1],
    betterproto.TYPE_SFIXED32: [0, -1, 2**31 - 1, -(2**31)],
    betterproto.TYPE_FIXED64: [0, 1, 2**64 - 1],
    betterproto.TYPE_SFIXED64: [0, -1, 2**63 - 1, -(2**63)],
    betterproto.TYPE_BOOL: [False, True],
    betterproto.TYPE_ENUM: [Color.ZERO, Color.ONE, Color.BIG, Color.NEG, 0, 5, -7],
}
FLOAT_EDGES = {
    betterproto.TYPE_FLOAT: [0.0, -0.0, 1.5, -2.25, math.inf, -math.inf, math.nan, 3.4e38],
    betterproto.TYPE_DOUBLE: [0.0, -0.0, 1.5, 1e308, 5e-324, math.inf, math.nan],
}
OTHER_EDGES = {
    betterproto.TYPE_STRING: ["", "a", "é", "\U0001f600", "x" * 127, "x" * 128, "€" * 43],
    betterproto.TYPE_BYTES: [b"", b"\x00", b"a" * 127, b"a" * 128, b"\xff" * 300],
    betterproto.TYPE_MESSAGE: [
        Sub(),
        Sub(a=1),
        Sub(s="x" * 200),
        Sub().parse(b"\x48\x01"),  # only unknown fields
        datetime(1970, 1, 1, tzinfo=timezone.utc),
        datetime(2001, 2, 3, 4, 5, 6, 7, tzinfo=timezone.utc),
        timedelta(0),
        timedelta(days=-3, microseconds=5),
    ],
}
ALL_EDGES = {**INT_EDGES, **FLOAT_EDGES, **OTHER_EDGES}
for proto_type, values in ALL_EDGES.items():
    for number in (1, 2, 15, 16, 2047, 2048, 262143, 262144, 536870911):
        for v in values:
            for serialize_empty in (False, True):
                raw = _serialize_single(number, proto_type, v, serialize_empty=serialize_empty)
                n = _len_single(number, proto_type, v, serialize_empty=serialize_empty)
                assert n == len(raw), (proto_type, number, v, serialize_empty, n, raw)
                assert type(n) is int
# wrapped values through _len_single's length-delimited branch
for wraps, values in (
    (betterproto.TYPE_INT32, [None, 0, 1, -1]),
    (betterproto.TYPE_STRING, [None, "", "x" * 130]),
    (betterproto.TYPE_BOOL, [None, False, True]),
    (betterproto.TYPE_DOUBLE, [None, 0.0, 1.0]),
    (betterproto.TYPE_BYTES, [None, b"", b"\x00" * 128]),
):
    for number in (1, 16, 2048):
        for v in values:
            for serialize_empty in (False, True):
                raw = _serialize_single(
                    number, betterproto.TYPE_MESSAGE, v, wraps=wraps, serialize_empty=serialize_empty
                )
                n = _len_single(
                    number, betterproto.TYPE_MESSAGE, v, wraps=wraps, serialize_empty=serialize_empty
                )
                assert n == len(raw), (wraps, number, v, serialize_empty)
# raw-bytes payloads as used for a packed buffer / map entry
for number in (1, 15, 16, 2047, 2048):
    for size in (0, 1, 126, 127, 128, 129, 16383, 16384, 2097151, 2097152):
        payload = bytes(size)
        for t in (betterproto.TYPE_BYTES, betterproto.TYPE_MAP):
            for serialize_empty in (False, True):
                raw = _serialize_single(number, t, payload, serialize_empty=serialize_empty)
                n = _len_single(number, t, payload, serialize_empty=serialize_empty)
                assert n == len(raw)
                if size or serialize_empty:
                    assert n == size_varint((number << 3) | 2) + size_varint(size) + size
                else:
                    assert n == 0 and raw == b""
# unknown proto types are still rejected
for fn in (_len_single, _serialize_single):
    try:
        fn(1, "group", b"")
    except NotImplementedError as exc:
        assert exc.args == ("group",)
    else:
        raise AssertionError("expected NotImplementedError")

# ---------------------------------------------------------------------------------------
# 3. every packed field with edge values, singly, all together and in random mixtures
# ---------------------------------------------------------------------------------------
PACKED_FIELDS = {
    "e": betterproto.TYPE_ENUM,
    "b": betterproto.TYPE_BOOL,
    "i32": betterproto.TYPE_INT32,
    "i64": betterproto.TYPE_INT64,
    "u32": betterproto.TYPE_UINT32,
    "u64": betterproto.TYPE_UINT64,
    "s32": betterproto.TYPE_SINT32,
    "s64": betterproto.TYPE_SINT64,
    "f": betterproto.TYPE_FLOAT,
    "d": betterproto.TYPE_DOUBLE,
    "fx32": betterproto.TYPE_FIXED32,
    "sfx32": betterproto.TYPE_SFIXED32,
    "fx64": betterproto.TYPE_FIXED64,
    "sfx64": betterproto.TYPE_SFIXED64,
    "far": betterproto.TYPE_INT32,
}
for name, t in PACKED_FIELDS.items():
    edges = ALL_EDGES[t]
    for v in edges:
        check(Packed(**{name: [v]}))
        check(Packed(**{name: [v] * 3}))
    check(Packed(**{name: list(edges)}))
    # payload length straddling 127/128 and 16383/16384 bytes
    for count in (1, 12, 13, 15, 16, 31, 32, 63, 64, 126, 127, 128, 129, 2047, 2048, 16383, 16384):
        check(Packed(**{name: [edges[1]] * count}))
check(Packed(**{name: list(ALL_EDGES[t]) for name, t in PACKED_FIELDS.items()}))


def random_packed() -> Packed:
    kwargs = {}
    for name, t in PACKED_FIELDS.items():
        if rnd.random() < 0.5:
            kwargs[name] = [rnd.choice(ALL_EDGES[t]) for _ in range(rnd.choice((1, 2, 5, 40, 130)))]
    return Packed(**kwargs)


MAP_FIELDS = {
    "si": (betterproto.TYPE_STRING, betterproto.TYPE_INT32),
    "ii": (betterproto.TYPE_INT64, betterproto.TYPE_SINT64),
    "bs": (betterproto.TYPE_BOOL, betterproto.TYPE_STRING),
    "um": (betterproto.TYPE_UINT32, betterproto.TYPE_MESSAGE),
    "se": (betterproto.TYPE_STRING, betterproto.TYPE_ENUM),
    "fb": (betterproto.TYPE_FIXED64, betterproto.TYPE_BYTES),
    "sd": (betterproto.TYPE_SFIXED32, betterproto.TYPE_DOUBLE),
    "zf": (betterproto.TYPE_SINT32, betterproto.TYPE_FLOAT),
    "ub": (betterproto.TYPE_UINT64, betterproto.TYPE_BOOL),
    "sb": (betterproto.TYPE_STRING, betterproto.TYPE_BYTES),
}
SUBS = [Sub(), Sub(a=1), Sub(a=-1, s="é" * 70), Sub().parse(b"\x48\x96\x01")]


def map_values(t):
    if t == betterproto.TYPE_MESSAGE:
        return SUBS
    if t == betterproto.TYPE_FLOAT:
        return [0.0, -0.0, 1.5, math.inf, 3.4e38]
    if t == betterproto.TYPE_DOUBLE:
        return [0.0, -0.0, 1.5, 1e308, math.inf]
    if t == betterproto.TYPE_ENUM:
        return [Color.ZERO, Color.ONE, Color.BIG, Color.NEG]
    return ALL_EDGES[t]


for name, (kt, vt) in MAP_FIELDS.items():
    for k in ALL_EDGES[kt]:
        for v in map_values(vt):
            check(Maps(**{name: {k: v}}))
    full = {k: map_values(vt)[i % len(map_values(vt))] for i, k in enumerate(ALL_EDGES[kt])}
    check(Maps(**{name: full}))


def random_maps() -> Maps:
    kwargs = {}
    for name, (kt, vt) in MAP_FIELDS.items():
        if rnd.random() < 0.5:
            kwargs[name] = {
                rnd.choice(ALL_EDGES[kt]): rnd.choice(map_values(vt))
                for _ in range(rnd.choice((1, 2, 6)))
            }
    return Maps(**kwargs)


for _ in range(300):
    check(random_packed())
    check(random_maps())

# nested in singular / repeated / optional / oneof members, and carrying unknown fields
for _ in range(150):
    h = Holder()
    if rnd.random() < 0.6:
        h.p = random_packed()
    if rnd.random() < 0.6:
        h.ms = [random_maps() for _ in range(rnd.randrange(1, 4))]
    if rnd.random() < 0.4:
        h.op = random_packed()
    r = rnd.random()
    if r < 0.3:
        h.om = random_maps()
    elif r < 0.5:
        h.oi = rnd.choice((0, 1, -1))
    if rnd.random() < 0.5:
        h.tail = "t" * rnd.choice((0, 1, 127, 128))
    data = check(h)
    # the same message with trailing unknown fields
    with_unknown = Holder().parse(data + b"\xa0\x06\x05" + b"\xaa\x06\x02ok")
    check(with_unknown, data + b"\xa0\x06\x05" + b"\xaa\x06\x02ok")
check(Holder(p=Packed(), op=Packed(), om=Maps()))
check(Holder(ms=[Maps(), Maps(sb={"": b""}), Maps(si={"": 0})]))

# mutation in place after construction
m = Maps()
m.si["x"] = 1
m.um[5] = Sub()
m.um[5].a = 3
check(m)
p = Packed()
p.i64.append(-1)
p.d.extend([1.0, 2.0])
check(p)

# ---------------------------------------------------------------------------------------
# 4. google.protobuf agrees on the size of the packed encodings and reads the maps
# ---------------------------------------------------------------------------------------
from google.protobuf import descriptor_pb2, descriptor_pool, message_factory

F = descriptor_pb2.FieldDescriptorProto
fdp = descriptor_pb2.FileDescriptorProto(name="c09_keep1.proto", package="c09k1", syntax="proto3")
en = fdp.enum_type.add(name="Color")
for n_, v_ in (("ZERO", 0), ("ONE", 1), ("BIG", 300), ("NEG", -1)):
    en.value.add(name=n_, number=v_)
sub = fdp.message_type.add(name="Sub")
sub.field.add(name="a", number=1, type=F.TYPE_INT32, label=F.LABEL_OPTIONAL)
sub.field.add(name="s", number=2, type=F.TYPE_STRING, label=F.LABEL_OPTIONAL)
pk = fdp.message_type.add(name="Packed")
G = {
    "e": (1, F.TYPE_ENUM), "b": (2, F.TYPE_BOOL), "i32": (3, F.TYPE_INT32),
    "i64": (4, F.TYPE_INT64), "u32": (5, F.TYPE_UINT32), "u64": (6, F.TYPE_UINT64),
    "s32": (7, F.TYPE_SINT32), "s64": (8, F.TYPE_SINT64), "f": (9, F.TYPE_FLOAT),
    "d": (10, F.TYPE_DOUBLE), "fx32": (15, F.TYPE_FIXED32), "sfx32": (16, F.TYPE_SFIXED32),
    "fx64": (2047, F.TYPE_FIXED64), "sfx64": (2048, F.TYPE_SFIXED64),
    "far": (536870911, F.TYPE_INT32),
}
for name, (number, ftype) in G.items():
    fld = pk.field.add(name=name, number=number, type=ftype, label=F.LABEL_REPEATED)
    if ftype == F.TYPE_ENUM:
        fld.type_name = ".c09k1.Color"
mp = fdp.message_type.add(name="Maps")


def add_map(msg, name, number, ktype, vtype, vtype_name=None):
    entry = msg.nested_type.add(name=name.capitalize() + "Entry")
    entry.options.map_entry = True
    entry.field.add(name="key", number=1, type=ktype, label=F.LABEL_OPTIONAL)
    vf = entry.field.add(name="value", number=2, type=vtype, label=F.LABEL_OPTIONAL)
    if vtype_name:
        vf.type_name = vtype_name
    msg.field.add(
        name=name, number=number, type=F.TYPE_MESSAGE, label=F.LABEL_REPEATED,
        type_name=f".c09k1.Maps.{entry.name}",
    )


add_map(mp, "si", 1, F.TYPE_STRING, F.TYPE_INT32)
add_map(mp, "ii", 2, F.TYPE_INT64, F.TYPE_SINT64)
add_map(mp, "bs", 3, F.TYPE_BOOL, F.TYPE_STRING)
add_map(mp, "um", 15, F.TYPE_UINT32, F.TYPE_MESSAGE, ".c09k1.Sub")
add_map(mp, "se", 16, F.TYPE_STRING, F.TYPE_ENUM, ".c09k1.Color")
add_map(mp, "fb", 2047, F.TYPE_FIXED64, F.TYPE_BYTES)
add_map(mp, "sd", 2048, F.TYPE_SFIXED32, F.TYPE_DOUBLE)
add_map(mp, "zf", 20, F.TYPE_SINT32, F.TYPE_FLOAT)
add_map(mp, "ub", 21, F.TYPE_UINT64, F.TYPE_BOOL)
add_map(mp, "sb", 22, F.TYPE_STRING, F.TYPE_BYTES)

pool = descriptor_pool.DescriptorPool()
pool.Add(fdp)
GPacked = message_factory.GetMessageClass(pool.FindMessageTypeByName("c09k1.Packed"))
GMaps = message_factory.GetMessageClass(pool.FindMessageTypeByName("c09k1.Maps"))

for _ in range(300):
    bp = random_packed()
    data = bytes(bp)
    g = GPacked.FromString(data)
    # both emit fields in field-number order with packed encoding: identical bytes
    assert g.SerializeToString(deterministic=True) == data
    assert g.ByteSize() == len(bp) == len(data)
    for name in G:
        got = list(getattr(g, name))
        want = [int(x) if not isinstance(x, float) else x for x in getattr(bp, name)]
        assert len(got) == len(want)
        for a, b_ in zip(got, want):
            if isinstance(b_, float):
                if math.isnan(b_):
                    assert math.isnan(a)
                elif name == "f":
                    assert a == struct.unpack("<f", struct.pack("<f", b_))[0]
                else:
                    assert a == b_
            else:
                assert a == b_, (name, a, b_)

for _ in range(300):
    bm = random_maps()
    data = bytes(bm)
    assert len(bm) == len(data)
    g = GMaps.FromString(data)
    for name in MAP_FIELDS:
        bmap = getattr(bm, name)
        gmap = getattr(g, name)
        assert len(gmap) == len(bmap), name
        for k, v in bmap.items():
            gv = gmap[k]
            if isinstance(v, Sub):
                assert (gv.a, gv.s) == (v.a, v.s)
            elif isinstance(v, float) and name == "zf":
                assert gv == struct.unpack("<f", struct.pack("<f", v))[0]
            else:
                assert gv == v, (name, k, gv, v)
    # what google writes for the same maps is read back by betterproto with a consistent size
    back = Maps().parse(g.SerializeToString(deterministic=True))
    assert len(back) == len(bytes(back))

print("ok", checked, "messages checked")
