"""Exercises load_varint / decode_varint (directly and through load_fields, parse_fields
and Message.parse / load) and the way Message.load merges successive occurrences of a
field into the message (singular: last wins, repeated: append / extend for unpacked and
packed chunks in any interleaving, maps: insert).  Compared with independently written
expectations and, where the reference decoder defines the same thing, google.protobuf.
"""
import hashlib
import io
import random
from dataclasses import dataclass
from typing import Dict, List

import betterproto
from betterproto import decode_varint, load_fields, load_varint, parse_fields
from google.protobuf import descriptor_pb2, descriptor_pool, message_factory
from google.protobuf.message import DecodeError

rnd = random.Random(170017)


def varint(n: int) -> bytes:
    out = bytearray()
    while True:
        b = n & 0x7F
        n >>= 7
        if n:
            out.append(b | 0x80)
        else:
            out.append(b)
            return bytes(out)


def model_varint(data: bytes, pos: int = 0):
    """Independent model: (value, consumed) / 'eof' / 'toolong' plus bytes consumed."""
    value = 0
    for i in range(10):
        if pos + i >= len(data):
            return "eof", i
        byte = data[pos + i]
        value += (byte % 128) * (128 ** i)
        if byte < 128:
            return value, i + 1
    return "toolong", 10


class CountingStream:
    """A binary stream that records how it is read."""

    def __init__(self, data: bytes):
        self._s = io.BytesIO(data)
        self.calls = []

    def read(self, n=-1):
        self.calls.append(n)
        return self._s.read(n)

    def tell(self):
        return self._s.tell()


def run_load_varint(data: bytes, use_first: bool):
    st = CountingStream(data)
    try:
        if use_first:
            first = st.read(1)
            st.calls.clear()
            res = load_varint(st, first)
        else:
            res = load_varint(st)
    except EOFError:
        res = "eof"
    except ValueError:
        res = "toolong"
    return res, st.tell(), st.calls


# ---------------------------------------------------------------- 1. varint readers
samples = []
for n in [0, 1, 127, 128, 129, 255, 256, 300, 16383, 16384, (1 << 21) - 1, 1 << 21, (1 << 28) - 1,
          1 << 28, (1 << 31) - 1, 1 << 31, (1 << 32) - 1, 1 << 32, (1 << 35) - 1, 1 << 35,
          (1 << 56) - 1, 1 << 56, (1 << 63) - 1, 1 << 63, (1 << 64) - 1, 1 << 64, (1 << 70) - 1]:
    samples.append(varint(n))
# non-canonical (over-long) encodings, too long ones, only-continuation runs
for k in range(1, 14):
    samples.append(b"\x80" * (k - 1) + b"\x00")
    samples.append(b"\x81" * (k - 1) + b"\x01")
    samples.append(b"\xff" * (k - 1) + b"\x7f")
    samples.append(b"\xff" * k)
    samples.append(b"\x80" * k)
for _ in range(400):
    k = rnd.randint(0, 12)
    samples.append(bytes(rnd.randrange(128, 256) for _ in range(k)) + bytes([rnd.randrange(128)]))
samples.append(b"")

n_checked = 0
for enc in samples:
    for suffix in (b"", b"\x05", b"\x96\x01rest"):
        for cut in range(len(enc) + 1):
            data = enc[:cut] + (suffix if cut == len(enc) else b"")
            exp, used = model_varint(data)
            for use_first in (False, True):
                res, told, calls = run_load_varint(data, use_first)
                if exp == "eof":
                    assert res == "eof", (data, res)
                    assert told == len(data)
                elif exp == "toolong":
                    assert res == "toolong", (data, res)
                    # gives up after ten bytes without touching the eleventh
                    assert told == 10, (data, told)
                else:
                    assert res == (exp, data[:used]), (data, res)
                    assert type(res[0]) is int and type(res[1]) is bytes
                    assert told == used
                assert all(c == 1 for c in calls)
                if data:
                    assert len(calls) == (told - 1 if use_first else told) + (1 if exp == "eof" else 0)
            # decode_varint at every offset inside a buffer
            for prefix in (b"", b"\xff", b"\x00\x80\x80"):
                buf = prefix + data
                try:
                    got = decode_varint(buf, len(prefix))
                except EOFError:
                    got = "eof"
                except ValueError:
                    got = "toolong"
                if isinstance(exp, int):
                    assert got == (exp, len(prefix) + used), (buf, got)
                else:
                    assert got == exp, (buf, got, exp)
            n_checked += 1
assert n_checked > 5000
# a position at / behind the end of the buffer is an EOF
for pos in (3, 4, 100):
    try:
        decode_varint(b"\x01\x02\x03", pos)
        raise AssertionError("no EOFError")
    except EOFError:
        pass


# ---------------------------------------------------------------- 2. field readers
def fields_via_stream(data: bytes):
    out = []
    try:
        for f in load_fields(io.BytesIO(data)):
            out.append((f.number, f.wire_type, f.value, f.raw))
    except Exception as e:  # noqa
        out.append(type(e).__name__)
    return out


def fields_via_buffer(data: bytes):
    out = []
    try:
        for f in parse_fields(data):
            out.append((f.number, f.wire_type, f.value, f.raw))
    except Exception as e:  # noqa
        out.append(type(e).__name__)
    return out


def tag(number: int, wt: int) -> bytes:
    return varint((number << 3) | wt)


def ld(number: int, payload: bytes) -> bytes:
    return tag(number, 2) + varint(len(payload)) + payload


stream_log = []
for number in (1, 15, 16, 2047, 2048, (1 << 29) - 1, 1 << 29, (1 << 61) - 1):
    for value in (0, 1, 300, (1 << 64) - 1):
        data = tag(number, 0) + varint(value) + ld(number, b"abc") + tag(number, 5) + b"1234"
        a, b = fields_via_stream(data), fields_via_buffer(data)
        assert a == b == [(number, 0, value, tag(number, 0) + varint(value)),
                          (number, 2, b"abc", ld(number, b"abc")),
                          (number, 5, b"1234", tag(number, 5) + b"1234")]
        for cut in range(len(data)):
            a, b = fields_via_stream(data[:cut]), fields_via_buffer(data[:cut])
            assert a == b, (data, cut)
            stream_log.append(a)
# tags / lengths that are over-long varints, field number 0, eleven-byte tags
for data in [b"\x80\x00", b"\x00", b"\x88\x80\x80\x80\x80\x80\x80\x80\x80\x00\x01",
             b"\x88\x80\x80\x80\x80\x80\x80\x80\x80\x80\x00\x01", b"\x0a\x80\x00", b"\x0a\x81\x00x",
             b"\x0a" + b"\xff" * 10 + b"\x01", b"\x0a" + b"\xff" * 9 + b"\x01", b"\x08" + b"\x80" * 10 + b"\x00",
             b"\x08" + b"\x80" * 9 + b"\x00", b"\x08" + b"\xff" * 9 + b"\x7f"]:
    a, b = fields_via_stream(data), fields_via_buffer(data)
    # same fields, and both reject or both accept (the exception class may differ for
    # absurd lengths: the stream reader cannot even ask for 2**64 bytes)
    assert a[:-1] == b[:-1] and isinstance(a[-1:], list), (data, a, b)
    assert (a[-1:] == b[-1:]) or (isinstance(a[-1], str) and isinstance(b[-1], str)), (data, a, b)
    stream_log.append((a, b))
for _ in range(3000):
    data = rnd.randbytes(rnd.randint(0, 14))
    a, b = fields_via_stream(data), fields_via_buffer(data)
    # same fields, and both reject or both accept (the exception class may differ for
    # absurd lengths: the stream reader cannot even ask for 2**64 bytes)
    assert a[:-1] == b[:-1] and isinstance(a[-1:], list), (data, a, b)
    assert (a[-1:] == b[-1:]) or (isinstance(a[-1], str) and isinstance(b[-1], str)), (data, a, b)
    stream_log.append((a, b))


# ---------------------------------------------------------------- 3. merging in Message.load
@dataclass(eq=False, repr=False)
class Item(betterproto.Message):
    a: int = betterproto.int32_field(1)
    b: str = betterproto.string_field(2)


@dataclass(eq=False, repr=False)
class Msg(betterproto.Message):
    single: int = betterproto.int64_field(1)
    text: str = betterproto.string_field(2)
    nums: List[int] = betterproto.sint32_field(3)
    fixeds: List[int] = betterproto.fixed32_field(4)
    names: List[str] = betterproto.string_field(5)
    items: List[Item] = betterproto.message_field(6)
    table: Dict[str, int] = betterproto.map_field(7, betterproto.TYPE_STRING, betterproto.TYPE_UINT32)
    blobs: List[bytes] = betterproto.bytes_field(8)
    flag: bool = betterproto.bool_field(9)
    one_a: int = betterproto.uint32_field(10, group="choice")
    one_b: str = betterproto.string_field(11, group="choice")


FD = descriptor_pb2.FieldDescriptorProto


def build_google():
    fdp = descriptor_pb2.FileDescriptorProto(name="c17_keep2.proto", package="c17k2", syntax="proto3")
    it = fdp.message_type.add(name="Item")
    it.field.add(name="a", number=1, type=FD.TYPE_INT32, label=FD.LABEL_OPTIONAL)
    it.field.add(name="b", number=2, type=FD.TYPE_STRING, label=FD.LABEL_OPTIONAL)
    m = fdp.message_type.add(name="Msg")
    m.field.add(name="single", number=1, type=FD.TYPE_INT64, label=FD.LABEL_OPTIONAL)
    m.field.add(name="text", number=2, type=FD.TYPE_STRING, label=FD.LABEL_OPTIONAL)
    m.field.add(name="nums", number=3, type=FD.TYPE_SINT32, label=FD.LABEL_REPEATED)
    m.field.add(name="fixeds", number=4, type=FD.TYPE_FIXED32, label=FD.LABEL_REPEATED)
    m.field.add(name="names", number=5, type=FD.TYPE_STRING, label=FD.LABEL_REPEATED)
    m.field.add(name="items", number=6, type=FD.TYPE_MESSAGE, type_name=".c17k2.Item", label=FD.LABEL_REPEATED)
    e = m.nested_type.add(name="TableEntry")
    e.options.map_entry = True
    e.field.add(name="key", number=1, type=FD.TYPE_STRING, label=FD.LABEL_OPTIONAL)
    e.field.add(name="value", number=2, type=FD.TYPE_UINT32, label=FD.LABEL_OPTIONAL)
    m.field.add(name="table", number=7, type=FD.TYPE_MESSAGE, type_name=".c17k2.Msg.TableEntry", label=FD.LABEL_REPEATED)
    m.field.add(name="blobs", number=8, type=FD.TYPE_BYTES, label=FD.LABEL_REPEATED)
    m.field.add(name="flag", number=9, type=FD.TYPE_BOOL, label=FD.LABEL_OPTIONAL)
    m.oneof_decl.add(name="choice")
    m.field.add(name="one_a", number=10, type=FD.TYPE_UINT32, label=FD.LABEL_OPTIONAL, oneof_index=0)
    m.field.add(name="one_b", number=11, type=FD.TYPE_STRING, label=FD.LABEL_OPTIONAL, oneof_index=0)
    pool = descriptor_pool.DescriptorPool()
    pool.Add(fdp)
    return message_factory.GetMessageClass(pool.FindMessageTypeByName("c17k2.Msg"))


GMsg = build_google()


def zz(n: int) -> int:
    return (n << 1) ^ (n >> 31) if n >= 0 else ((-n) << 1) - 1


def snapshot_bp(m: Msg):
    which, chosen = betterproto.which_one_of(m, "choice")
    return {
        "single": m.single, "text": m.text, "nums": list(m.nums), "fixeds": list(m.fixeds),
        "names": list(m.names), "items": [(i.a, i.b) for i in m.items], "table": dict(m.table),
        "blobs": list(m.blobs), "flag": m.flag,
        # members of a oneof that are not the chosen one cannot be read in this version
        "one_a": chosen if which == "one_a" else 0, "one_b": chosen if which == "one_b" else "",
        "which": which,
    }


def snapshot_g(g):
    return {
        "single": g.single, "text": g.text, "nums": list(g.nums), "fixeds": list(g.fixeds),
        "names": list(g.names), "items": [(i.a, i.b) for i in g.items], "table": dict(g.table),
        "blobs": list(g.blobs), "flag": g.flag, "one_a": g.one_a, "one_b": g.one_b,
        "which": g.WhichOneof("choice") or "",
    }


def occurrence():
    """One well-formed occurrence of a random field, with the model update to apply."""
    k = rnd.randrange(14)
    if k == 0:
        v = rnd.choice([0, 1, -1, (1 << 63) - 1, -(1 << 63), rnd.getrandbits(40)])
        return tag(1, 0) + varint(v & ((1 << 64) - 1)), ("set", "single", v)
    if k == 1:
        s = rnd.choice(["", "a", "häh", "xyz" * 5])
        return ld(2, s.encode()), ("set", "text", s)
    if k == 2:
        v = rnd.choice([0, 1, -1, 2147483647, -2147483648, rnd.randint(-1000, 1000)])
        return tag(3, 0) + varint(zz(v)), ("append", "nums", v)
    if k == 3:
        vs = [rnd.randint(-70, 70) for _ in range(rnd.randint(0, 4))]
        return ld(3, b"".join(varint(zz(v)) for v in vs)), ("extend", "nums", vs)
    if k == 4:
        v = rnd.getrandbits(32)
        return tag(4, 5) + v.to_bytes(4, "little"), ("append", "fixeds", v)
    if k == 5:
        vs = [rnd.getrandbits(32) for _ in range(rnd.randint(0, 3))]
        return ld(4, b"".join(v.to_bytes(4, "little") for v in vs)), ("extend", "fixeds", vs)
    if k == 6:
        s = rnd.choice(["", "n", "name", "€"])
        return ld(5, s.encode()), ("append", "names", s)
    if k == 7:
        a, b = rnd.randint(-3, 3), rnd.choice(["", "b"])
        body = (tag(1, 0) + varint(a & ((1 << 64) - 1)) if a else b"") + (ld(2, b.encode()) if b else b"")
        return ld(6, body), ("append", "items", (a, b))
    if k == 8:
        key, val = rnd.choice(["", "k", "kk"]), rnd.getrandbits(rnd.choice([1, 32]))
        body = (ld(1, key.encode()) if key else b"") + (tag(2, 0) + varint(val) if val else b"")
        return ld(7, body), ("put", "table", (key, val))
    if k == 9:
        v = rnd.randbytes(rnd.randint(0, 3))
        return ld(8, v), ("append", "blobs", v)
    if k == 10:
        v = rnd.choice([0, 1, 2, 1 << 40])
        return tag(9, 0) + varint(v), ("set", "flag", v != 0)
    if k == 11:
        v = rnd.getrandbits(32)
        return tag(10, 0) + varint(v), ("oneof", "one_a", v)
    if k == 12:
        s = rnd.choice(["", "o"])
        return ld(11, s.encode()), ("oneof", "one_b", s)
    # an unknown field in between
    return tag(99, 0) + varint(rnd.getrandbits(20)), ("nop", None, None)


merge_log = []
for _ in range(2500):
    model = {"single": 0, "text": "", "nums": [], "fixeds": [], "names": [], "items": [], "table": {},
             "blobs": [], "flag": False, "one_a": 0, "one_b": "", "which": ""}
    data = b""
    for _ in range(rnd.randint(0, 9)):
        enc, (op, name, v) = occurrence()
        data += enc
        if op == "set":
            model[name] = v
        elif op == "append":
            model[name].append(v)
        elif op == "extend":
            model[name].extend(v)
        elif op == "put":
            model["table"][v[0]] = v[1]
        elif op == "oneof":
            model["one_a"], model["one_b"] = 0, ""
            model[name] = v
            model["which"] = name
    m = Msg().parse(data)
    snap = snapshot_bp(m)
    assert snap == model, (data, snap, model)
    g = GMsg()
    g.ParseFromString(data)
    assert snapshot_g(g) == model, (data, snapshot_g(g), model)
    assert type(m.nums) is list and type(m.fixeds) is list and type(m.table) is dict
    assert all(type(i) is Item for i in m.items) and type(m.flag) is bool
    # encodes again to something both decoders read back as the same message
    out = bytes(m)
    assert snapshot_bp(Msg().parse(out)) == model
    g2 = GMsg()
    g2.ParseFromString(out)
    assert snapshot_g(g2) == model
    # the same through load() from a stream, with and without a size prefix
    assert snapshot_bp(Msg().load(io.BytesIO(data))) == model
    st = io.BytesIO(varint(len(data)) + data + b"\x08\x01")
    assert snapshot_bp(Msg().load(st, betterproto.SIZE_DELIMITED)) == model
    assert st.read() == b"\x08\x01"
    # every truncation is either a clean field boundary or rejected, like the reference
    if len(data) <= 40:
        for cut in range(len(data)):
            try:
                r = snapshot_bp(Msg().parse(data[:cut]))
            except Exception as e:  # noqa
                r = type(e).__name__
            try:
                gg = GMsg()
                gg.ParseFromString(data[:cut])
                gr = snapshot_g(gg)
            except DecodeError:
                gr = "reject"
            assert (gr == "reject") == isinstance(r, str), (data, cut, r, gr)
            if not isinstance(r, str):
                assert r == gr
            merge_log.append(r)

digest = hashlib.sha256(repr((stream_log, merge_log)).encode()).hexdigest()
print("digest", digest)
EXPECTED_DIGEST = "227cb9d6353b18beee1be654ad41bb3bb8100c3bf8877dd60dbea288a10840ce"
assert EXPECTED_DIGEST.startswith("@@") or digest == EXPECTED_DIGEST, digest
print("ok")
