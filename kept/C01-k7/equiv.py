"""C01 keep1: fixed-width codecs (float/double/fixed32/fixed64/sfixed32/sfixed64).

Exercises _pack_fmt, _preprocess_single, _len_preprocessed_single and
Message._postprocess_single for the fixed-width types: exact bytes against
struct and against google.protobuf, round trips, sizes and error behaviour.
"""
import math
import random
import struct
from dataclasses import dataclass
from typing import Dict, List, Optional

import betterproto
from betterproto import (
    FieldMetadata,
    _len_preprocessed_single,
    _len_single,
    _pack_fmt,
    _preprocess_single,
    _serialize_single,
)
from google.protobuf import descriptor_pb2, descriptor_pool, message_factory

rnd = random.Random(20240701)

FMT = {
    "double": "<d",
    "float": "<f",
    "fixed32": "<I",
    "fixed64": "<Q",
    "sfixed32": "<i",
    "sfixed64": "<q",
}

# ---------------------------------------------------------------- _pack_fmt
for t, f in FMT.items():
    got = _pack_fmt(t)
    assert got == f and type(got) is str, (t, got)
for bad in ("int32", "string", "message", "bool", "", "map"):
    try:
        _pack_fmt(bad)
    except KeyError:
        pass
    else:
        raise AssertionError(bad)


# ------------------------------------------------------------- value pools
def f32(x: float) -> float:
    return struct.unpack("<f", struct.pack("<f", x))[0]


F32_MAX = struct.unpack("<f", b"\xff\xff\x7f\x7f")[0]
F32_MIN_SUB = struct.unpack("<f", b"\x01\x00\x00\x00")[0]
DBL_MAX = 1.7976931348623157e308
DBL_MIN_SUB = 5e-324

POOL = {
    "fixed32": [0, 1, 127, 128, 255, 256, 2**16, 2**31 - 1, 2**31, 2**32 - 1]
    + [rnd.randrange(2**32) for _ in range(200)],
    "fixed64": [0, 1, 2**32 - 1, 2**32, 2**53, 2**63 - 1, 2**63, 2**64 - 1]
    + [rnd.randrange(2**64) for _ in range(200)],
    "sfixed32": [0, 1, -1, 127, -128, 2**31 - 1, -(2**31), -(2**31) + 1]
    + [rnd.randrange(-(2**31), 2**31) for _ in range(200)],
    "sfixed64": [0, 1, -1, 2**31, -(2**31) - 1, 2**63 - 1, -(2**63), -(2**63) + 1]
    + [rnd.randrange(-(2**63), 2**63) for _ in range(200)],
    "float": [0.0, -0.0, 1.0, -1.0, 0.5, f32(0.1), F32_MAX, -F32_MAX, F32_MIN_SUB,
              math.inf, -math.inf, math.nan]
    + [f32(rnd.uniform(-1e6, 1e6)) for _ in range(100)]
    + [struct.unpack("<f", struct.pack("<I", rnd.randrange(2**32)))[0] for _ in range(100)],
    "double": [0.0, -0.0, 1.0, -1.0, 0.1, DBL_MAX, -DBL_MAX, DBL_MIN_SUB, 2.0**53 + 2,
               math.inf, -math.inf, math.nan]
    + [rnd.uniform(-1e300, 1e300) for _ in range(100)]
    + [struct.unpack("<d", struct.pack("<Q", rnd.randrange(2**64)))[0] for _ in range(100)],
}


def same(a, b) -> bool:
    """Value identity for the purposes of the round trip (NaN equals NaN)."""
    if isinstance(a, float) and isinstance(b, float) and math.isnan(a) and math.isnan(b):
        return True
    return a == b and type(a) is type(b)


# ------------------------------------- _preprocess_single and its size twin
for t, values in POOL.items():
    width = struct.calcsize(FMT[t])
    for v in values:
        raw = _preprocess_single(t, "", v)
        assert type(raw) is bytes and raw == struct.pack(FMT[t], v), (t, v, raw)
        assert _len_preprocessed_single(t, "", v) == width
        wire = 5 if width == 4 else 1
        for number in (1, 15, 16, 2047, 2048, 2**29 - 1):
            s = _serialize_single(number, t, v)
            assert s == betterproto.encode_varint((number << 3) | wire) + raw
            assert _len_single(number, t, v) == len(s)

# bool and Enum members are ints as far as struct is concerned
assert _preprocess_single("fixed32", "", True) == b"\x01\x00\x00\x00"
assert _preprocess_single("sfixed64", "", False) == b"\x00" * 8
# an int in a floating point field is converted by struct
assert _preprocess_single("double", "", 3) == struct.pack("<d", 3.0)
assert _preprocess_single("float", "", -2) == struct.pack("<f", -2.0)

# out-of-range / wrong-typed values: same exception type from both functions
BAD = [
    ("fixed32", -1), ("fixed32", 2**32), ("fixed64", -1), ("fixed64", 2**64),
    ("sfixed32", 2**31), ("sfixed32", -(2**31) - 1), ("sfixed64", 2**63),
    ("sfixed64", -(2**63) - 1), ("fixed32", 1.5), ("sfixed64", "1"), ("double", "x"),
    ("float", None), ("fixed64", None),
]
for t, v in BAD:
    for fn in (_preprocess_single, _len_preprocessed_single):
        try:
            fn(t, "", v)
        except struct.error:
            pass
        else:
            raise AssertionError((fn.__name__, t, v))
# a double too large for float32 is an OverflowError in struct
for fn in (_preprocess_single, _len_preprocessed_single):
    try:
        fn("float", "", 1e39)
    except OverflowError:
        pass
    else:
        raise AssertionError(fn.__name__)


# ------------------------------------------------------------ message level
@dataclass(eq=False, repr=False)
class Inner(betterproto.Message):
    f: float = betterproto.float_field(1)
    d: float = betterproto.double_field(2)


@dataclass(eq=False, repr=False)
class Fixed(betterproto.Message):
    f: float = betterproto.float_field(1)
    d: float = betterproto.double_field(2)
    u32: int = betterproto.fixed32_field(3)
    u64: int = betterproto.fixed64_field(4)
    s32: int = betterproto.sfixed32_field(5)
    s64: int = betterproto.sfixed64_field(6)
    rf: List[float] = betterproto.float_field(7)
    rd: List[float] = betterproto.double_field(8)
    ru32: List[int] = betterproto.fixed32_field(9)
    ru64: List[int] = betterproto.fixed64_field(10)
    rs32: List[int] = betterproto.sfixed32_field(11)
    rs64: List[int] = betterproto.sfixed64_field(12)
    m_u32_s64: Dict[int, int] = betterproto.map_field(13, "fixed32", "sfixed64")
    m_s32_d: Dict[int, float] = betterproto.map_field(14, "sfixed32", "double")
    m_u64_f: Dict[int, float] = betterproto.map_field(15, "fixed64", "float")
    m_s64_u32: Dict[int, int] = betterproto.map_field(16, "sfixed64", "fixed32")
    of: float = betterproto.float_field(17, group="pick")
    od: float = betterproto.double_field(18, group="pick")
    ou32: int = betterproto.fixed32_field(19, group="pick")
    ou64: int = betterproto.fixed64_field(20, group="pick")
    os32: int = betterproto.sfixed32_field(21, group="pick")
    os64: int = betterproto.sfixed64_field(22, group="pick")
    pf: Optional[float] = betterproto.float_field(23, optional=True)
    pd: Optional[float] = betterproto.double_field(24, optional=True)
    pu32: Optional[int] = betterproto.fixed32_field(25, optional=True)
    pu64: Optional[int] = betterproto.fixed64_field(26, optional=True)
    ps32: Optional[int] = betterproto.sfixed32_field(27, optional=True)
    ps64: Optional[int] = betterproto.sfixed64_field(28, optional=True)
    wf: Optional[float] = betterproto.message_field(29, wraps=betterproto.TYPE_FLOAT)
    wd: Optional[float] = betterproto.message_field(30, wraps=betterproto.TYPE_DOUBLE)
    inner: Inner = betterproto.message_field(31)


SCALARS = {"f": "float", "d": "double", "u32": "fixed32", "u64": "fixed64",
           "s32": "sfixed32", "s64": "sfixed64"}


# the same schema for google.protobuf -------------------------------------
FD = descriptor_pb2.FieldDescriptorProto
GTYPE = {"float": FD.TYPE_FLOAT, "double": FD.TYPE_DOUBLE, "fixed32": FD.TYPE_FIXED32,
         "fixed64": FD.TYPE_FIXED64, "sfixed32": FD.TYPE_SFIXED32, "sfixed64": FD.TYPE_SFIXED64}

fdp = descriptor_pb2.FileDescriptorProto(name="c01_keep1.proto", package="c01k1", syntax="proto3")
fdp.dependency.append("google/protobuf/wrappers.proto")
inner = fdp.message_type.add(name="Inner")
inner.field.add(name="f", number=1, type=FD.TYPE_FLOAT, label=FD.LABEL_OPTIONAL)
inner.field.add(name="d", number=2, type=FD.TYPE_DOUBLE, label=FD.LABEL_OPTIONAL)
msg = fdp.message_type.add(name="Fixed")
n = 0
for name, t in SCALARS.items():
    n += 1
    msg.field.add(name=name, number=n, type=GTYPE[t], label=FD.LABEL_OPTIONAL)
for name, t in SCALARS.items():
    n += 1
    msg.field.add(name="r" + name, number=n, type=GTYPE[t], label=FD.LABEL_REPEATED)
for name, kt, vt in (("m_u32_s64", "fixed32", "sfixed64"), ("m_s32_d", "sfixed32", "double"),
                     ("m_u64_f", "fixed64", "float"), ("m_s64_u32", "sfixed64", "fixed32")):
    n += 1
    entry_name = "".join(p.capitalize() for p in name.split("_")) + "Entry"
    entry = msg.nested_type.add(name=entry_name)
    entry.options.map_entry = True
    entry.field.add(name="key", number=1, type=GTYPE[kt], label=FD.LABEL_OPTIONAL)
    entry.field.add(name="value", number=2, type=GTYPE[vt], label=FD.LABEL_OPTIONAL)
    msg.field.add(name=name, number=n, type=FD.TYPE_MESSAGE, label=FD.LABEL_REPEATED,
                  type_name=f".c01k1.Fixed.{entry_name}")
msg.oneof_decl.add(name="pick")
for name, t in SCALARS.items():
    n += 1
    msg.field.add(name="o" + name, number=n, type=GTYPE[t], label=FD.LABEL_OPTIONAL, oneof_index=0)
idx = 0
for name, t in SCALARS.items():
    n += 1
    idx += 1
    msg.oneof_decl.add(name="_p" + name)
    msg.field.add(name="p" + name, number=n, type=GTYPE[t], label=FD.LABEL_OPTIONAL,
                  oneof_index=idx, proto3_optional=True)
msg.field.add(name="wf", number=29, type=FD.TYPE_MESSAGE, label=FD.LABEL_OPTIONAL,
              type_name=".google.protobuf.FloatValue")
msg.field.add(name="wd", number=30, type=FD.TYPE_MESSAGE, label=FD.LABEL_OPTIONAL,
              type_name=".google.protobuf.DoubleValue")
msg.field.add(name="inner", number=31, type=FD.TYPE_MESSAGE, label=FD.LABEL_OPTIONAL,
              type_name=".c01k1.Inner")

from google.protobuf import wrappers_pb2  # noqa: E402  (registers the dependency)

pool = descriptor_pool.Default()
pool.Add(fdp)
GFixed = message_factory.GetMessageClass(pool.FindMessageTypeByName("c01k1.Fixed"))


def nz(v):
    """betterproto does not put a zero on the wire where there is no presence, and
    -0.0 counts as zero: the reference message gets +0.0 in those places."""
    return 0.0 if isinstance(v, float) and v == 0 else v


def to_google(m: Fixed):
    g = GFixed()
    for name in SCALARS:
        v = getattr(m, name)
        if v:
            setattr(g, name, v)
        getattr(g, "r" + name).extend(getattr(m, "r" + name))
        pv = getattr(m, "p" + name)
        if pv is not None:
            setattr(g, "p" + name, pv)
    for name in ("m_u32_s64", "m_s32_d", "m_u64_f", "m_s64_u32"):
        for k, v in getattr(m, name).items():
            getattr(g, name)[k] = v
    which, val = betterproto.which_one_of(m, "pick")
    if which:
        setattr(g, which, val)
    if m.wf is not None:
        g.wf.value = nz(m.wf)
    if m.wd is not None:
        g.wd.value = nz(m.wd)
    if betterproto.serialized_on_wire(m.inner):
        g.inner.SetInParent()
        g.inner.f = nz(m.inner.f)
        g.inner.d = nz(m.inner.d)
    return g


def pick(t: str, allow_nan: bool = True):
    while True:
        v = rnd.choice(POOL[t])
        if allow_nan or not (isinstance(v, float) and math.isnan(v)):
            return v


def random_message() -> Fixed:
    kw = {}
    for name, t in SCALARS.items():
        if rnd.random() < 0.6:
            kw[name] = pick(t)
        if rnd.random() < 0.6:
            # NaN is not equal to itself inside a list, keep it out of containers
            kw["r" + name] = [pick(t, allow_nan=False) for _ in range(rnd.randrange(0, 6))]
        if rnd.random() < 0.5:
            kw["p" + name] = pick(t)
    kw["m_u32_s64"] = {pick("fixed32"): pick("sfixed64") for _ in range(rnd.randrange(0, 4))}
    kw["m_s32_d"] = {pick("sfixed32"): pick("double", False) for _ in range(rnd.randrange(0, 4))}
    kw["m_u64_f"] = {pick("fixed64"): pick("float", False) for _ in range(rnd.randrange(0, 4))}
    kw["m_s64_u32"] = {pick("sfixed64"): pick("fixed32") for _ in range(rnd.randrange(0, 4))}
    if rnd.random() < 0.7:
        name = rnd.choice(list(SCALARS))
        kw["o" + name] = pick(SCALARS[name])
    if rnd.random() < 0.5:
        kw["wf"] = pick("float")
    if rnd.random() < 0.5:
        kw["wd"] = pick("double")
    if rnd.random() < 0.5:
        kw["inner"] = Inner(f=pick("float"), d=pick("double"))
    return Fixed(**kw)


def check_message(m: Fixed, compare_google: bool = True) -> None:
    data = bytes(m)
    assert len(m) == len(data)
    back = Fixed().parse(data)
    assert back == m, (m, back)
    assert bytes(back) == data
    assert betterproto.which_one_of(back, "pick")[0] == betterproto.which_one_of(m, "pick")[0]
    w1, w2 = betterproto.which_one_of(back, "pick")[1], betterproto.which_one_of(m, "pick")[1]
    assert (w1 is None and w2 is None) or same(w1, w2)
    for name in SCALARS:
        a, b = getattr(back, "p" + name), getattr(m, "p" + name)
        assert (a is None) == (b is None) and (a is None or same(a, b)), name
        assert same(getattr(back, name), type(getattr(back, name))(getattr(m, name))), name
        assert all(same(x, y) for x, y in zip(getattr(back, "r" + name), getattr(m, "r" + name)))
    assert (back.wf is None) == (m.wf is None) and (back.wd is None) == (m.wd is None)
    assert betterproto.serialized_on_wire(back.inner) == betterproto.serialized_on_wire(m.inner)
    if compare_google:
        g = to_google(m)
        gdata = g.SerializeToString(deterministic=True)
        # google emits fields by number and map entries in its own order: compare
        # the decoded content in both directions instead of raw bytes ...
        g2 = GFixed.FromString(data)
        assert g2 == g or "nan" in repr(m).lower(), (m,)
        assert Fixed().parse(gdata) == m
        # ... and raw bytes when there is at most one entry per map
        if all(len(getattr(m, n)) <= 1 for n in ("m_u32_s64", "m_s32_d", "m_u64_f", "m_s64_u32")):
            assert gdata == data, (m, data, gdata)


# every pool value in every position, one at a time
for name, t in SCALARS.items():
    for v in POOL[t]:
        nan = isinstance(v, float) and math.isnan(v)
        check_message(Fixed(**{name: v}))
        check_message(Fixed(**{"o" + name: v}))
        check_message(Fixed(**{"p" + name: v}))
        if not nan:
            check_message(Fixed(**{"r" + name: [v]}))
            check_message(Fixed(**{"r" + name: [v, v, POOL[t][1]]}))
for v in POOL["float"]:
    check_message(Fixed(wf=v))
    check_message(Fixed(inner=Inner(f=v)))
for v in POOL["double"]:
    check_message(Fixed(wd=v))
    check_message(Fixed(inner=Inner(d=v)))
for k in POOL["fixed32"][:40]:
    for v in POOL["sfixed64"][:8]:
        check_message(Fixed(m_u32_s64={k: v}))
for k in POOL["sfixed32"][:40]:
    check_message(Fixed(m_s32_d={k: 0.25}))
for k in POOL["fixed64"][:40]:
    check_message(Fixed(m_u64_f={k: -1.5}))
for k in POOL["sfixed64"][:40]:
    check_message(Fixed(m_s64_u32={k: 2**32 - 1}))
check_message(Fixed())
check_message(Fixed(inner=Inner()))

# exact golden bytes
assert bytes(Fixed(f=1.0)) == b"\x0d\x00\x00\x80\x3f"
assert bytes(Fixed(d=-2.0)) == b"\x11\x00\x00\x00\x00\x00\x00\x00\xc0"
assert bytes(Fixed(u32=2**32 - 1)) == b"\x1d\xff\xff\xff\xff"
assert bytes(Fixed(u64=2**63)) == b"\x21" + b"\x00" * 7 + b"\x80"
assert bytes(Fixed(s32=-(2**31))) == b"\x2d\x00\x00\x00\x80"
assert bytes(Fixed(s64=-1)) == b"\x31" + b"\xff" * 8
assert bytes(Fixed(rs32=[-1, 1])) == b"\x5a\x08\xff\xff\xff\xff\x01\x00\x00\x00"
assert bytes(Fixed(rd=[0.0])) == b"\x42\x08" + b"\x00" * 8
assert bytes(Fixed(ou32=0)) == b"\x9d\x01\x00\x00\x00\x00"
assert bytes(Fixed(pf=0.0)) == b"\xbd\x01\x00\x00\x00\x00"
assert bytes(Fixed(wd=0.0)) == b"\xf2\x01\x00"
assert bytes(Fixed(wf=1.0)) == b"\xea\x01\x05\x0d\x00\x00\x80\x3f"
# NaN payload and sign of zero survive decoding bit for bit
for pattern in (b"\x01\x00\xc0\x7f", b"\x00\x00\xc0\xff", b"\x00\x00\x00\x80"):
    m = Fixed().parse(b"\x0d" + pattern)
    assert struct.pack("<f", m.f) == pattern or math.isnan(m.f)
    assert bytes(Fixed().parse(b"\xbd\x01" + pattern))[2:] == pattern or math.isnan(m.f)
assert math.copysign(1.0, Fixed().parse(b"\x11" + b"\x00" * 7 + b"\x80").d) == -1.0

# random composite messages
for _ in range(1500):
    check_message(random_message())

# decoding errors: wrong payload widths inside a packed run
for data in (b"\x3a\x03\x00\x00\x00", b"\x42\x07" + b"\x00" * 7, b"\x5a\x05" + b"\x00" * 5):
    try:
        Fixed().parse(data)
    except struct.error:
        pass
    else:
        raise AssertionError(data)

# _postprocess_single directly
probe = Fixed()
for name, t in SCALARS.items():
    meta = FieldMetadata.get(Fixed.__dataclass_fields__[name])
    for v in POOL[t]:
        raw = struct.pack(FMT[t], v)
        wire = 5 if len(raw) == 4 else 1
        out = probe._postprocess_single(wire, meta, name, raw)
        assert same(out, struct.unpack(FMT[t], raw)[0]), (t, v, out)
    for bad_raw in (b"", b"\x00", b"\x00" * 3, b"\x00" * 5, b"\x00" * 9):
        try:
            probe._postprocess_single(5, meta, name, bad_raw)
        except struct.error:
            pass
        else:
            raise AssertionError((name, bad_raw))
# a fixed wire type on a field that has no fixed codec is a KeyError
meta = FieldMetadata(1, "int32")
try:
    probe._postprocess_single(5, meta, "f", b"\x00" * 4)
except KeyError:
    pass
else:
    raise AssertionError("KeyError expected")

print("ok")
