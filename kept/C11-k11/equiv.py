"""C11 keep1: generate_code() (plugin/parser.py) -- gathering of output packages,
option handling (typing.*, pydantic_dataclasses, INCLUDE_GOOGLE) and reading of the
services -- still builds the same model and renders the same modules, and the generated
stubs / bases still talk to each other for all four cardinalities.
"""
import asyncio
import hashlib
import importlib
import itertools
import os
import sys
import tempfile

import grpclib
from grpclib.testing import ChannelFor

from betterproto.lib.google.protobuf import FileDescriptorSet
from betterproto.lib.google.protobuf.compiler import CodeGeneratorRequest
from betterproto.plugin import compiler as plugin_compiler
from betterproto.plugin import parser as plugin_parser
from betterproto.plugin.models import monkey_patch_oneof_index
from betterproto.plugin.parser import generate_code

plugin_compiler.subprocess.check_output = lambda cmd, input, encoding: input
monkey_patch_oneof_index()
_counter = itertools.count()


def descriptor_set(protos):
    import grpc_tools
    from grpc_tools import protoc

    with tempfile.TemporaryDirectory() as tmp:
        for name, text in protos.items():
            with open(os.path.join(tmp, name), "w") as fh:
                fh.write(text)
        out = os.path.join(tmp, "set.bin")
        include = os.path.join(os.path.dirname(grpc_tools.__file__), "_proto")
        rc = protoc.main(
            ["protoc", f"-I{tmp}", f"-I{include}", "--include_imports",
             "--include_source_info", f"--descriptor_set_out={out}", *protos]
        )
        assert rc == 0, "protoc failed"
        with open(out, "rb") as fh:
            return fh.read()


def run_plugin(fds_bytes, names, parameter=""):
    fds = FileDescriptorSet().parse(fds_bytes)  # fresh objects: traverse() renames
    request = CodeGeneratorRequest(
        file_to_generate=list(names), parameter=parameter, proto_file=fds.file
    )
    stderr, sys.stderr = sys.stderr, open(os.devnull, "w")
    try:
        return generate_code(request)
    finally:
        sys.stderr.close()
        sys.stderr = stderr


def load(files):
    root_name = f"gen_c11_keep1_{next(_counter)}"
    tmp = tempfile.mkdtemp()
    root = os.path.join(tmp, root_name)
    os.makedirs(root)
    for name, code in files.items():
        path = os.path.join(root, name)
        os.makedirs(os.path.dirname(path), exist_ok=True)
        with open(path, "w") as fh:
            fh.write(code)
    sys.path.insert(0, tmp)
    importlib.invalidate_caches()
    mods = {}
    for name in files:
        parts = [p for p in os.path.dirname(name).split(os.sep) if p]
        mods[".".join(parts)] = importlib.import_module(".".join([root_name, *parts]))
    return mods


PROTOS = {
    "a1.proto": """
syntax = "proto3";
package alpha;
// request
message Req { int32 n = 1; string s = 2; }
message Rep { int32 n = 1; repeated string items = 2; }
service First_service {
  rpc UnaryUnary(Req) returns (Rep);
  rpc UnaryStream(Req) returns (stream Rep);
  rpc StreamUnary(stream Req) returns (Rep);
  rpc StreamStream(stream Req) returns (stream Rep);
}
""",
    "a2.proto": """
syntax = "proto3";
package alpha;
import "a1.proto";
import "b.proto";
import "google/protobuf/empty.proto";
import "google/protobuf/wrappers.proto";
import "google/protobuf/timestamp.proto";
service Second {
  rpc GetHTTPStatus(google.protobuf.Empty) returns (google.protobuf.StringValue);
  rpc do_thing(alpha.beta.v1.Thing) returns (stream alpha.beta.v1.Thing);
  rpc Import(stream google.protobuf.Timestamp) returns (Rep);
  rpc Unimplemented(Req) returns (Rep);
  rpc UnimplementedStream(Req) returns (stream Rep);
}
service Third { rpc Ping(Req) returns (Req); }
""",
    "b.proto": """
syntax = "proto3";
package alpha.beta.v1;
message Thing { string name = 1; Kind kind = 2; }
enum Kind { KIND_UNKNOWN = 0; KIND_GOOD = 1; }
service Things { rpc Rename(Thing) returns (Thing); }
""",
    "root.proto": """
syntax = "proto3";
import "a1.proto";
message Bare { bool flag = 1; }
service Rootless { rpc Flip(Bare) returns (Bare); rpc Up(stream alpha.Req) returns (stream Bare); }
""",
}
NAMES = list(PROTOS)
FDS = descriptor_set(PROTOS)

# ---------------------------------------------------------------- the model that is built
EXPECTED_COMPILER = {  # reference: the documented meaning of the typing.* option
    None: "DirectImportTypingCompiler",
    "direct": "DirectImportTypingCompiler",
    "root": "TypingImportTypingCompiler",
    "310": "NoTyping310TypingCompiler",
}
EXPECTED_ROUTES = {
    "alpha": {
        "FirstService": [
            ("unary_unary", "/alpha.First_service/UnaryUnary", False, False),
            ("unary_stream", "/alpha.First_service/UnaryStream", False, True),
            ("stream_unary", "/alpha.First_service/StreamUnary", True, False),
            ("stream_stream", "/alpha.First_service/StreamStream", True, True),
        ],
        "Second": [
            ("get_http_status", "/alpha.Second/GetHTTPStatus", False, False),
            ("do_thing", "/alpha.Second/do_thing", False, True),
            ("import_", "/alpha.Second/Import", True, False),
            ("unimplemented", "/alpha.Second/Unimplemented", False, False),
            ("unimplemented_stream", "/alpha.Second/UnimplementedStream", False, True),
        ],
        "Third": [("ping", "/alpha.Third/Ping", False, False)],
    },
    "alpha.beta.v1": {"Things": [("rename", "/alpha.beta.v1.Things/Rename", False, False)]},
    "": {
        "Rootless": [
            ("flip", "/Rootless/Flip", False, False),
            ("up", "/Rootless/Up", True, True),
        ]
    },
    "google.protobuf": {},
}


def capture_model(parameter):
    captured = []
    original = plugin_parser.outputfile_compiler
    plugin_parser.outputfile_compiler = lambda output_file: (
        captured.append(output_file) or ""
    )
    try:
        response = run_plugin(FDS, NAMES, parameter)
    finally:
        plugin_parser.outputfile_compiler = original
    return response, captured


OPTION_SETS = []
for typing_opt in (None, "direct", "root", "310", "bogus"):
    for pydantic in (False, True):
        for google in (False, True):
            for extra in ((), ("unknown_option",)):
                opts = list(extra)
                if pydantic:
                    opts.append("pydantic_dataclasses")
                if typing_opt:
                    opts.insert(0, f"typing.{typing_opt}")
                if google:
                    opts.append("INCLUDE_GOOGLE")
                OPTION_SETS.append((typing_opt, pydantic, google, ",".join(opts)))

for typing_opt, pydantic, google, parameter in OPTION_SETS:
    response, outputs = capture_model(parameter)
    by_package = {o.package: o for o in outputs}
    want_packages = {"alpha", "alpha.beta.v1", ""} | ({"google.protobuf"} if google else set())
    assert set(by_package) == want_packages, (parameter, set(by_package))
    assert len(outputs) == len(want_packages)  # one output per package, rendered once
    # order of outputs == order of first appearance of the package in the request
    order = []
    for f in FileDescriptorSet().parse(FDS).file:
        if f.package in want_packages and f.package not in order:
            order.append(f.package)
    assert [o.package for o in outputs] == order, (parameter, [o.package for o in outputs])
    compilers = set()
    for package, out in by_package.items():
        want = EXPECTED_COMPILER.get(typing_opt, "DirectImportTypingCompiler")
        assert type(out.typing_compiler).__name__ == want, (parameter, package)
        compilers.add(id(out.typing_compiler))
        assert out.pydantic_dataclasses is pydantic, (parameter, package)
        assert out.output is True
        assert out.parent_request.output_packages[package] is out
        got = {
            s.py_name: [
                (m.py_name, m.route, m.client_streaming, m.server_streaming)
                for m in s.methods
            ]
            for s in out.services
        }
        assert got == EXPECTED_ROUTES[package], (parameter, package, got)
        for s in out.services:
            assert s.parent is out and all(m.parent is s for m in s.methods)
            assert all(m.output_file is out for m in s.methods)
    assert len(compilers) == len(by_package)  # one typing compiler object per package
    alpha = by_package["alpha"]
    assert alpha.input_filenames == ["a1.proto", "a2.proto"]
    assert [f.name for f in alpha.input_files] == ["a1.proto", "a2.proto"]
    assert alpha.package_proto_obj is alpha.input_files[0]
    assert [m.py_name for m in alpha.messages] == ["Req", "Rep"]
    assert [m.py_name for m in by_package["alpha.beta.v1"].messages] == ["Thing"]
    assert [e.py_name for e in by_package["alpha.beta.v1"].enums] == ["Kind"]
    # the hidden google.protobuf output still exists in the request model
    hidden = alpha.parent_request.output_packages["google.protobuf"]
    assert hidden.output is google
    assert hidden.input_filenames == [
        "google/protobuf/empty.proto",
        "google/protobuf/timestamp.proto",
        "google/protobuf/wrappers.proto",
    ]
    # response files
    want_files = {"alpha/__init__.py", "alpha/beta/v1/__init__.py", "__init__.py",
                  "alpha/beta/__init__.py"}
    if google:
        want_files |= {"google/protobuf/__init__.py", "google/__init__.py"}
    assert {f.name for f in response.file} == want_files, (parameter, [f.name for f in response.file])
    assert int(response.supported_features) == 1
print(f"model identical for {len(OPTION_SETS)} option sets")

# more than one typing option is refused, whatever the options are
for parameter in ("typing.root,typing.310", "typing.direct,typing.direct",
                  "typing.bogus,pydantic_dataclasses,typing.310", "typing.,typing."):
    try:
        run_plugin(FDS, NAMES, parameter)
    except ValueError as exc:
        assert str(exc) == "Multiple typing options provided"
    else:
        raise AssertionError(parameter)
# ... but only once there is a file to look at
empty = generate_code(CodeGeneratorRequest(parameter="typing.root,typing.310"))
assert list(empty.file) == []
assert list(generate_code(CodeGeneratorRequest()).file) == []
# 'typing.' alone names no known compiler, prefix-only look-alikes are not typing options
for parameter, marker in (("typing.", "Optional["), ("typing", "Optional["),
                          ("xtyping.310", "Optional["), ("typing.310 ", "Optional["),
                          ("typing.root", "typing.Optional["), ("typing.310", " | None")):
    files = {f.name: f.content for f in run_plugin(FDS, NAMES, parameter).file}
    assert marker in files["alpha/__init__.py"], parameter

# ---------------------------------------------------------------- rendered text
DIGESTS = {
    "": "d9a4f9fa39aa2c64fd6dce316e30caef131fa8afe295c4946b4e03284ef6a309",
    "typing.direct": "d9a4f9fa39aa2c64fd6dce316e30caef131fa8afe295c4946b4e03284ef6a309",
    "typing.root": "fd82f608a9b23889df3c9c64440fdd0bd4b49487ba5e711213b4247b62ba89d2",
    "typing.310": "11f52741b38197fbf094bd28e7c16abed9eb5c5a2eca895032a674b7fb975d42",
    "pydantic_dataclasses": "b30324036c261c352b2b9ca5b794afa0f86b4193f7284e7f64ad3c3c3df9bc7f",
    "typing.310,pydantic_dataclasses,INCLUDE_GOOGLE": "7c9dd8380dca0405c12bbca87d407a28aa08bd75d8a0526921206d15d3d848c4",
    "typing.bogus,INCLUDE_GOOGLE": "5600712df40fbcbf45e922ad694519b206f91863f038c7aa61982c93501408c1",
}


def digest(parameter):
    h = hashlib.sha256()
    files = list(run_plugin(FDS, NAMES, parameter).file)
    rendered = [f.name for f in files if f.content]
    # rendered packages come first, in request order; the empty __init__ files that
    # follow are emitted from a set
    assert rendered == [f.name for f in files[: len(rendered)]]
    assert rendered[:2] == ["alpha/__init__.py", "alpha/beta/v1/__init__.py"]
    for f in files[: len(rendered)] + sorted(files[len(rendered) :], key=lambda f: f.name):
        # the cross-package imports are emitted from a set (hash-seed dependent order):
        # keep everything else in order and append those lines sorted
        lines = f.content.split("\n")
        floating = [ln for ln in lines if ln.startswith(("from .", "import betterproto."))]
        fixed = [ln for ln in lines if ln not in floating]
        content = "\n".join(fixed + sorted(floating))
        h.update(f.name.encode() + b"\0" + content.encode() + b"\0")
    return h.hexdigest()


if "--print-digests" in sys.argv:
    for parameter in DIGESTS:
        print(repr(parameter), digest(parameter))
    sys.exit(0)
for parameter, want in DIGESTS.items():
    assert digest(parameter) == want, f"rendered output changed for {parameter!r}"
assert DIGESTS[""] == DIGESTS["typing.direct"]
print("rendered modules byte-identical to the recorded ones")


# ---------------------------------------------------------------- the services still work
async def exercise(parameter):
    files = {f.name: f.content for f in run_plugin(FDS, NAMES, parameter).file}
    mods = load(files)
    alpha, beta, root = mods["alpha"], mods["alpha.beta.v1"], mods[""]
    import betterproto.lib.google.protobuf as pb
    if "pydantic_dataclasses" in parameter:
        import betterproto.lib.pydantic.google.protobuf as pb
    Req, Rep = alpha.Req, alpha.Rep
    log = []

    class First(alpha.FirstServiceBase):
        async def unary_unary(self, req):
            log.append(("uu", req))
            return Rep(n=req.n * 2, items=[req.s])

        async def unary_stream(self, req):
            log.append(("us", req))
            for i in range(req.n):
                yield Rep(n=i, items=[req.s] * i)

        async def stream_unary(self, req_iterator):
            got = [r async for r in req_iterator]
            log.append(("su", got))
            return Rep(n=len(got), items=[r.s for r in got])

        async def stream_stream(self, req_iterator):
            got = []
            log.append(("ss", got))
            async for r in req_iterator:
                got.append(r)
                yield Rep(n=r.n, items=[r.s])
            yield Rep(n=-1)

    class Second(alpha.SecondBase):
        async def get_http_status(self, betterproto_lib_google_protobuf_empty):
            log.append(("status", betterproto_lib_google_protobuf_empty))
            return pb.StringValue(value="200 OK")

        async def do_thing(self, alpha_beta_v1_thing):
            log.append(("thing", alpha_beta_v1_thing))
            yield beta.Thing(name=alpha_beta_v1_thing.name + "!", kind=beta.Kind.GOOD)
            raise grpclib.GRPCError(grpclib.const.Status.DATA_LOSS, "half way")

        async def import_(self, it):
            got = [r async for r in it]
            log.append(("import", got))
            return Rep(n=sum(t.seconds for t in got))

    class Third(alpha.ThirdBase):
        async def ping(self, req):
            log.append(("ping", req))
            raise grpclib.GRPCError(grpclib.const.Status.NOT_FOUND, "no " + req.s)

    class Things(beta.ThingsBase):
        async def rename(self, thing):
            log.append(("rename", thing))
            return beta.Thing(name=thing.name.upper(), kind=thing.kind)

    class Rootless(root.RootlessBase):
        async def flip(self, bare):
            log.append(("flip", bare))
            return root.Bare(flag=not bare.flag)

        async def up(self, it):
            async for r in it:
                log.append(("up", r))
                yield root.Bare(flag=bool(r.n % 2))

    async with ChannelFor([First(), Second(), Third(), Things(), Rootless()]) as ch:
        first = alpha.FirstServiceStub(ch)
        for n in range(4):
            reqs = [Req(n=i, s=f"s{i}") for i in range(n)]
            log.clear()
            assert await first.unary_unary(Req(n=n, s="x")) == Rep(n=2 * n, items=["x"])
            assert [r async for r in first.unary_stream(Req(n=n, s="y"))] == [
                Rep(n=i, items=["y"] * i) for i in range(n)]
            assert await first.stream_unary(reqs) == Rep(n=n, items=[r.s for r in reqs])
            assert [r async for r in first.stream_stream(iter(reqs))] == [
                Rep(n=r.n, items=[r.s]) for r in reqs] + [Rep(n=-1)]
            assert log == [("uu", Req(n=n, s="x")), ("us", Req(n=n, s="y")),
                           ("su", reqs), ("ss", reqs)], log
        log.clear()
        second = alpha.SecondStub(ch)
        assert await second.get_http_status(pb.Empty()) == pb.StringValue(value="200 OK")
        got = []
        try:
            async for t in second.do_thing(beta.Thing(name="a")):
                got.append(t)
        except grpclib.GRPCError as exc:
            assert exc.status is grpclib.const.Status.DATA_LOSS and exc.message == "half way"
        else:
            raise AssertionError("no error")
        assert got == [beta.Thing(name="a!", kind=beta.Kind.GOOD)]
        stamps = [pb.Timestamp(seconds=s, nanos=s) for s in (1, 20, 300)]
        assert await second.import_(stamps) == Rep(n=321)
        for call in (lambda: second.unimplemented(Req()),
                     lambda: second.unimplemented_stream(Req()).__anext__()):
            try:
                await call()
            except grpclib.GRPCError as exc:
                assert exc.status is grpclib.const.Status.UNIMPLEMENTED
            else:
                raise AssertionError("no error")
        try:
            await alpha.ThirdStub(ch).ping(Req(s="such thing"))
        except grpclib.GRPCError as exc:
            assert exc.status is grpclib.const.Status.NOT_FOUND
            assert exc.message == "no such thing"
        else:
            raise AssertionError("no error")
        assert await beta.ThingsStub(ch).rename(beta.Thing(name="ab", kind=beta.Kind.GOOD)) == \
            beta.Thing(name="AB", kind=beta.Kind.GOOD)
        rootless = root.RootlessStub(ch)
        assert await rootless.flip(root.Bare()) == root.Bare(flag=True)
        ups = [Req(n=i) for i in (1, 2, 3)]
        assert [b async for b in rootless.up(ups)] == [
            root.Bare(flag=True), root.Bare(flag=False), root.Bare(flag=True)]
        assert log == [("status", pb.Empty()), ("thing", beta.Thing(name="a")),
                       ("import", stamps), ("ping", Req(s="such thing")),
                       ("rename", beta.Thing(name="ab", kind=beta.Kind.GOOD)),
                       ("flip", root.Bare()), *[("up", r) for r in ups]], log


for parameter in ("", "typing.direct", "typing.root", "typing.310", "typing.bogus",
                  "pydantic_dataclasses", "typing.310,pydantic_dataclasses"):
    asyncio.run(asyncio.wait_for(exercise(parameter), 60))
    print(f"generated services work with parameter {parameter!r}")
print("C11 keep1 equivalence checks passed")
