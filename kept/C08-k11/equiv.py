"""Equivalence checks for the refactoring of _preprocess_single / _len_preprocessed_single
(the payload encoders of every known field - and, through bytes(child), of every
sub-message together with the unknown fields it carries).

Everything is compared against values computed independently of the library
(own varint / zig-zag / struct code, google.protobuf as the reference codec).
"""
import dataclasses
import random
import struct
from dataclasses import dataclass
from datetime import datetime, timedelta, timezone
from io import BytesIO
from typing import Dict, List, Optional

import betterproto
from betterproto import _len_preprocessed_single, _preprocess_single
from google.protobuf import (
    descriptor_pb2,
    descriptor_pool,
    duration_pb2,
    message_factory,
    timestamp_pb2,
    wrappers_pb2,
)

rng = random.Random(0xC08)


# --------------------------------------------------------------------------- helpers
def ref_varint(n: int) -> bytes:
    assert -(1 << 63) <= n
    if n < 0:
        n += 1 << 64
    out = bytearray()
    while True:
        b = n & 0x7F
        n >>= 7
        if n:
            out.append(b | 0x80)
        else:
            out.append(b)
            return bytes(out)


def ref_zigzag(n: int) -> int:
    return (n << 1) if n >= 0 else ((-n) << 1) - 1


def raises(exc_types, fn, *args):
    try:
        fn(*args)
    except exc_types as e:
        return type(e)
    except BaseException as e:  # pragma: no cover
        raise AssertionError(f"{fn.__name__}{args!r} raised {type(e).__name__}: {e}")
    raise AssertionError(f"{fn.__name__}{args!r} did not raise")


# ----------------------------------------------------- 1. the two functions, directly
INT_EDGES = sorted(
    {0, 1, -1, 2, 127, 128, 129, 255, 256, 16383, 16384, -128, -129}
    | {s * (1 << k) + d for k in (7, 14, 21, 28, 31, 32, 35, 42, 49, 56, 62) for s in (1, -1) for d in (-1, 0, 1)}
    | {(1 << 63) - 1, -(1 << 63), (1 << 31) - 1, -(1 << 31)}
)
INT_EDGES += [rng.randrange(-(1 << 63), 1 << 63) for _ in range(300)]

for t in ("enum", "bool", "int32", "int64", "uint32", "uint64"):
    for v in INT_EDGES:
        exp = ref_varint(v)
        assert _preprocess_single(t, "", v) == exp, (t, v)
        assert type(_preprocess_single(t, "", v)) is bytes
        assert _len_preprocessed_single(t, "", v) == len(exp), (t, v)
    for v in (True, False):
        assert _preprocess_single(t, "", v) == ref_varint(int(v))
        assert _len_preprocessed_single(t, "", v) == 1
    # unsigned values above 2**63 are still encodable (uint64)
    for v in ((1 << 63), (1 << 64) - 1, (1 << 63) + 12345):
        assert _preprocess_single(t, "", v) == ref_varint(v)
        assert _len_preprocessed_single(t, "", v) == 10
    # too negative: rejected by both
    assert raises(ValueError, _preprocess_single, t, "", -(1 << 63) - 1) is ValueError
    assert raises(ValueError, _len_preprocessed_single, t, "", -(1 << 63) - 1) is ValueError
    # not a number at all
    raises(TypeError, _preprocess_single, t, "", "5")
    raises(TypeError, _preprocess_single, t, "", None)
    raises(TypeError, _len_preprocessed_single, t, "", "5")
    raises(TypeError, _len_preprocessed_single, t, "", None)

for t in ("sint32", "sint64"):
    for v in INT_EDGES:
        if not -(1 << 63) <= v < (1 << 63):
            continue
        exp = ref_varint(ref_zigzag(v))
        assert _preprocess_single(t, "", v) == exp, (t, v)
        assert _len_preprocessed_single(t, "", v) == len(exp), (t, v)
    raises(TypeError, _preprocess_single, t, "", "5")
    raises(TypeError, _len_preprocessed_single, t, "", None)

FIXED = {
    "float": ("<f", [0.0, -0.0, 1.5, -2.25, 3.4e38, 1e-45, float("inf"), float("-inf")]),
    "double": ("<d", [0.0, -0.0, 1.5, -2.25, 1.7e308, 5e-324, float("inf"), 1 / 3]),
    "fixed32": ("<I", [0, 1, 255, 65536, (1 << 32) - 1]),
    "sfixed32": ("<i", [0, 1, -1, (1 << 31) - 1, -(1 << 31)]),
    "fixed64": ("<Q", [0, 1, (1 << 32), (1 << 64) - 1]),
    "sfixed64": ("<q", [0, 1, -1, (1 << 63) - 1, -(1 << 63)]),
}
for t, (fmt, values) in FIXED.items():
    for v in values:
        exp = struct.pack(fmt, v)
        got = _preprocess_single(t, "", v)
        assert got == exp and type(got) is bytes, (t, v)
        assert _len_preprocessed_single(t, "", v) == len(exp)
    nan = _preprocess_single(t, "", float("nan")) if t in ("float", "double") else None
    if nan is not None:
        assert nan == struct.pack(fmt, float("nan"))
    raises(struct.error, _preprocess_single, t, "", "x")
    raises(struct.error, _len_preprocessed_single, t, "", "x")
    raises(struct.error, _preprocess_single, t, "", None)
for t, bad in (("fixed32", 1 << 32), ("fixed32", -1), ("sfixed32", 1 << 31), ("fixed64", 1 << 64), ("sfixed64", -(1 << 63) - 1)):
    raises(struct.error, _preprocess_single, t, "", bad)
    raises(struct.error, _len_preprocessed_single, t, "", bad)
raises((struct.error, OverflowError), _preprocess_single, "float", "", 1e39)
raises((struct.error, OverflowError), _len_preprocessed_single, "float", "", 1e39)
assert raises((struct.error, OverflowError), _preprocess_single, "float", "", 1e39) is raises(
    (struct.error, OverflowError), _len_preprocessed_single, "float", "", 1e39
)

for v in ("", "a", "héllo", "€" * 50, "\U0001F600", "x" * 1000, "\x00"):
    assert _preprocess_single("string", "", v) == v.encode("utf-8")
    assert _len_preprocessed_single("string", "", v) == len(v.encode("utf-8"))
raises(UnicodeEncodeError, _preprocess_single, "string", "", "\ud800")
raises(UnicodeEncodeError, _len_preprocessed_single, "string", "", "\ud800")
raises(AttributeError, _preprocess_single, "string", "", b"bytes")
raises(AttributeError, _len_preprocessed_single, "string", "", 5)

# bytes, pre-encoded packed runs (bytearray) and map entries are passed through
for t in ("bytes", "map"):
    for v in (b"", b"\x00", b"abc" * 100, bytearray(b"\x01\x02")):
        got = _preprocess_single(t, "", v)
        assert got is v
        assert _len_preprocessed_single(t, "", v) == len(v)
assert _preprocess_single("no-such-type", "", b"zz") == b"zz"
assert _len_preprocessed_single("no-such-type", "", b"zz") == 2


# message payloads
@dataclass(eq=False, repr=False)
class Leaf(betterproto.Message):
    a: int = betterproto.int32_field(1)
    s: str = betterproto.string_field(2)


leaf = Leaf(a=5, s="xy")
assert _preprocess_single("message", "", leaf) == b"\x08\x05\x12\x02xy"
assert _len_preprocessed_single("message", "", leaf) == 6
assert _preprocess_single("message", "", Leaf()) == b""
assert _len_preprocessed_single("message", "", Leaf()) == 0
# a child that carries nothing but unknown fields is encoded with them
only_unknown = Leaf().parse(b"\x78\x01\xa2\x06\x03abc")
assert _preprocess_single("message", "", only_unknown) == b"\x78\x01\xa2\x06\x03abc"
assert _len_preprocessed_single("message", "", only_unknown) == 8
mixed = Leaf().parse(b"\x78\x01\x08\x07\xa2\x06\x00")
assert _preprocess_single("message", "", mixed) == b"\x08\x07\x78\x01\xa2\x06\x00"
assert _len_preprocessed_single("message", "", mixed) == 7
raises(TypeError, _preprocess_single, "message", "", None)
raises(TypeError, _len_preprocessed_single, "message", "", None)

# datetime / timedelta (with or without a 'wraps', the value's type decides first)
for dt in (
    datetime(1970, 1, 1, tzinfo=timezone.utc),
    datetime(2020, 5, 17, 12, 30, 1, 250000, tzinfo=timezone.utc),
    datetime(1969, 12, 31, 23, 59, 59, 999999, tzinfo=timezone.utc),
    datetime(1, 1, 1, tzinfo=timezone.utc),
    datetime(9999, 12, 31, 23, 59, 59, 999999, tzinfo=timezone.utc),
):
    g = timestamp_pb2.Timestamp()
    g.FromDatetime(dt)
    for wraps in ("", "int32"):
        assert _preprocess_single("message", wraps, dt) == g.SerializeToString(), dt
        assert _len_preprocessed_single("message", wraps, dt) == g.ByteSize(), dt
for td in (
    timedelta(0),
    timedelta(seconds=1),
    timedelta(microseconds=1),
    timedelta(days=-3, microseconds=7),
    timedelta(seconds=-1, microseconds=-500000),
    timedelta(days=100000, seconds=86399, microseconds=999999),
):
    g = duration_pb2.Duration()
    g.FromTimedelta(td)
    for wraps in ("", "string"):
        assert _preprocess_single("message", wraps, td) == g.SerializeToString(), td
        assert _len_preprocessed_single("message", wraps, td) == g.ByteSize(), td

# wrappers
WRAPS = {
    "bool": (wrappers_pb2.BoolValue, [True, False]),
    "int32": (wrappers_pb2.Int32Value, [0, 1, -1, (1 << 31) - 1]),
    "int64": (wrappers_pb2.Int64Value, [0, -(1 << 63), 12345678901]),
    "uint32": (wrappers_pb2.UInt32Value, [0, (1 << 32) - 1]),
    "uint64": (wrappers_pb2.UInt64Value, [0, (1 << 64) - 1]),
    "float": (wrappers_pb2.FloatValue, [0.0, 1.5]),
    "double": (wrappers_pb2.DoubleValue, [0.0, -2.5e100]),
    "string": (wrappers_pb2.StringValue, ["", "abc"]),
    "bytes": (wrappers_pb2.BytesValue, [b"", b"\x00\x01"]),
}
for wraps, (gcls, values) in WRAPS.items():
    assert _preprocess_single("message", wraps, None) == b""
    assert _len_preprocessed_single("message", wraps, None) == 0
    for v in values:
        exp = gcls(value=v).SerializeToString()
        assert _preprocess_single("message", wraps, v) == exp, (wraps, v)
        assert _len_preprocessed_single("message", wraps, v) == len(exp), (wraps, v)
raises(KeyError, _preprocess_single, "message", "no-such-wrapper", 1)
raises(KeyError, _len_preprocessed_single, "message", "no-such-wrapper", 1)


# ------------------------------------- 2. whole messages against google.protobuf
def build_reference():
    F = descriptor_pb2.FieldDescriptorProto
    fd = descriptor_pb2.FileDescriptorProto(
        name="c08_keep1_equiv.proto",
        package="c08k1",
        syntax="proto3",
        dependency=[
            "google/protobuf/wrappers.proto",
            "google/protobuf/timestamp.proto",
            "google/protobuf/duration.proto",
        ],
    )

    def add(msg, name, number, ftype, label=F.LABEL_OPTIONAL, type_name=None):
        f = msg.field.add(name=name, number=number, type=ftype, label=label)
        if type_name:
            f.type_name = type_name
        return f

    child = fd.message_type.add(name="Child")
    add(child, "a", 1, F.TYPE_INT32)
    add(child, "b", 2, F.TYPE_STRING)
    add(child, "c", 3, F.TYPE_DOUBLE)
    add(child, "d", 4, F.TYPE_SINT64)
    add(child, "sub", 5, F.TYPE_MESSAGE, type_name=".c08k1.Child")

    m = fd.message_type.add(name="Newer")
    entry = m.nested_type.add(name="MEntry")
    entry.options.map_entry = True
    add(entry, "key", 1, F.TYPE_STRING)
    add(entry, "value", 2, F.TYPE_MESSAGE, type_name=".c08k1.Child")
    add(m, "foo", 1, F.TYPE_BOOL)
    add(m, "bar", 2, F.TYPE_INT32)
    add(m, "baz", 3, F.TYPE_STRING)
    add(m, "fx", 4, F.TYPE_FIXED32)
    add(m, "dbl", 5, F.TYPE_DOUBLE)
    add(m, "child", 6, F.TYPE_MESSAGE, type_name=".c08k1.Child")
    add(m, "kids", 7, F.TYPE_MESSAGE, F.LABEL_REPEATED, ".c08k1.Child")
    add(m, "s32", 8, F.TYPE_SINT32)
    add(m, "s64", 9, F.TYPE_SINT64)
    add(m, "u64", 10, F.TYPE_UINT64)
    add(m, "sf64", 11, F.TYPE_SFIXED64)
    add(m, "fl", 12, F.TYPE_FLOAT)
    add(m, "raw", 13, F.TYPE_BYTES)
    add(m, "packed", 14, F.TYPE_INT32, F.LABEL_REPEATED)
    add(m, "zz", 15, F.TYPE_SINT64, F.LABEL_REPEATED)
    add(m, "ds", 16, F.TYPE_DOUBLE, F.LABEL_REPEATED)
    add(m, "m", 17, F.TYPE_MESSAGE, F.LABEL_REPEATED, ".c08k1.Newer.MEntry")
    add(m, "w", 18, F.TYPE_MESSAGE, type_name=".google.protobuf.Int32Value")
    add(m, "ts", 19, F.TYPE_MESSAGE, type_name=".google.protobuf.Timestamp")
    add(m, "tags", 2000, F.TYPE_STRING, F.LABEL_REPEATED)
    add(m, "du", 21, F.TYPE_MESSAGE, type_name=".google.protobuf.Duration")
    add(m, "i64", 536870911, F.TYPE_INT64)
    add(m, "ws", 23, F.TYPE_MESSAGE, type_name=".google.protobuf.StringValue")
    pool = descriptor_pool.Default()
    pool.AddSerializedFile(fd.SerializeToString())
    return message_factory.GetMessageClass(pool.FindMessageTypeByName("c08k1.Newer"))


GNewer = build_reference()

CHILD_FIELDS = [
    ("a", int, lambda: betterproto.int32_field(1)),
    ("b", str, lambda: betterproto.string_field(2)),
    ("c", float, lambda: betterproto.double_field(3)),
    ("d", int, lambda: betterproto.sint64_field(4)),
    ("sub", "CHILD", lambda: betterproto.message_field(5)),
]
NEWER_FIELDS = [
    ("foo", bool, lambda: betterproto.bool_field(1)),
    ("bar", int, lambda: betterproto.int32_field(2)),
    ("baz", str, lambda: betterproto.string_field(3)),
    ("fx", int, lambda: betterproto.fixed32_field(4)),
    ("dbl", float, lambda: betterproto.double_field(5)),
    ("child", "CHILD", lambda: betterproto.message_field(6)),
    ("kids", "LIST_CHILD", lambda: betterproto.message_field(7)),
    ("s32", int, lambda: betterproto.sint32_field(8)),
    ("s64", int, lambda: betterproto.sint64_field(9)),
    ("u64", int, lambda: betterproto.uint64_field(10)),
    ("sf64", int, lambda: betterproto.sfixed64_field(11)),
    ("fl", float, lambda: betterproto.float_field(12)),
    ("raw", bytes, lambda: betterproto.bytes_field(13)),
    ("packed", List[int], lambda: betterproto.int32_field(14)),
    ("zz", List[int], lambda: betterproto.sint64_field(15)),
    ("ds", List[float], lambda: betterproto.double_field(16)),
    ("m", "MAP_CHILD", lambda: betterproto.map_field(17, betterproto.TYPE_STRING, betterproto.TYPE_MESSAGE)),
    ("w", Optional[int], lambda: betterproto.message_field(18, wraps=betterproto.TYPE_INT32)),
    ("ts", datetime, lambda: betterproto.message_field(19)),
    ("tags", List[str], lambda: betterproto.string_field(2000)),
    ("du", timedelta, lambda: betterproto.message_field(21)),
    ("i64", int, lambda: betterproto.int64_field(536870911)),
    ("ws", Optional[str], lambda: betterproto.message_field(23, wraps=betterproto.TYPE_STRING)),
]

_counter = [0]


def make_child_class(keep):
    _counter[0] += 1
    name = f"Child{_counter[0]}"
    fields = []
    for fname, ftype, mk in CHILD_FIELDS:
        if fname in keep:
            # self reference by name: resolved through this module's globals
            fields.append((fname, name if ftype == "CHILD" else ftype, mk()))
    cls = dataclasses.make_dataclass(name, fields, bases=(betterproto.Message,), eq=False, repr=False)
    cls.__module__ = __name__
    globals()[name] = cls
    return cls


def make_newer_class(keep, child_cls):
    _counter[0] += 1
    name = f"Msg{_counter[0]}"
    sub = {"CHILD": child_cls, "LIST_CHILD": List[child_cls], "MAP_CHILD": Dict[str, child_cls]}
    fields = [
        (fname, sub.get(ftype, ftype) if isinstance(ftype, str) else ftype, mk())
        for fname, ftype, mk in NEWER_FIELDS
        if fname in keep
    ]
    cls = dataclasses.make_dataclass(name, fields, bases=(betterproto.Message,), eq=False, repr=False)
    cls.__module__ = __name__
    globals()[name] = cls
    return cls


ALL_CHILD = [f[0] for f in CHILD_FIELDS]
ALL_NEWER = [f[0] for f in NEWER_FIELDS]
ChildFull = make_child_class(set(ALL_CHILD))
NewerFull = make_newer_class(set(ALL_NEWER), ChildFull)


def rnd_int(bits, signed):
    k = rng.choice([0, 1, 7, 8, 14, 15, 21, 28, bits - 1, bits])
    hi = (1 << min(k, bits - (1 if signed else 0))) - 1
    v = rng.randint(0, hi)
    if signed and rng.random() < 0.5:
        v = -v - 1 if rng.random() < 0.5 else -v
    return v


def rnd_str():
    return "".join(rng.choice("abé€\U0001F600 z") for _ in range(rng.choice([0, 1, 3, 130])))


def rnd_child(depth=0):
    c = ChildFull()
    if rng.random() < 0.6:
        c.a = rnd_int(32, True)
    if rng.random() < 0.6:
        c.b = rnd_str()
    if rng.random() < 0.6:
        c.c = rng.choice([0.0, 1.5, -2.25, 1e300, float("inf")])
    if rng.random() < 0.6:
        c.d = rnd_int(64, True)
    if depth < 2 and rng.random() < 0.4:
        c.sub = rnd_child(depth + 1)
    return c


def rnd_newer():
    n = NewerFull()
    p = rng.choice([0.15, 0.5, 0.9])

    def on():
        return rng.random() < p

    if on():
        n.foo = rng.random() < 0.7
    if on():
        n.bar = rnd_int(32, True)
    if on():
        n.baz = rnd_str()
    if on():
        n.fx = rnd_int(32, False)
    if on():
        n.dbl = rng.choice([0.0, -0.0, 2.5, -1e-300, float("-inf")])
    if on():
        n.child = rnd_child()
    if on():
        n.kids = [rnd_child() for _ in range(rng.choice([1, 2, 5]))]
    if on():
        n.s32 = rnd_int(32, True)
    if on():
        n.s64 = rnd_int(64, True)
    if on():
        n.u64 = rnd_int(64, False)
    if on():
        n.sf64 = rnd_int(64, True)
    if on():
        n.fl = rng.choice([0.0, 1.5, -0.25, 65536.0])
    if on():
        n.raw = bytes(rng.randrange(256) for _ in range(rng.choice([0, 1, 5, 200])))
    if on():
        n.packed = [rnd_int(32, True) for _ in range(rng.choice([1, 3, 40]))]
    if on():
        n.zz = [rnd_int(64, True) for _ in range(rng.choice([1, 3, 40]))]
    if on():
        n.ds = [rng.choice([0.0, 1.0, -7.5]) for _ in range(rng.choice([1, 2, 20]))]
    if on():
        n.m = {rnd_str() + str(i): rnd_child() for i in range(rng.choice([1, 2, 4]))}
    if on():
        n.w = rng.choice([0, 1, -5, (1 << 31) - 1])
    if on():
        n.ts = datetime(1970, 1, 1, tzinfo=timezone.utc) + timedelta(
            seconds=rng.randrange(-10**9, 4 * 10**9), microseconds=rng.randrange(10**6)
        )
    if on():
        n.tags = [rnd_str() for _ in range(rng.choice([1, 2, 6]))]
    if on():
        n.du = timedelta(seconds=rng.randrange(-10**8, 10**8), microseconds=rng.randrange(10**6))
    if on():
        n.i64 = rnd_int(64, True)
    if on():
        n.ws = rng.choice(["", "x", rnd_str()])
    return n


def older_classes():
    child_keep = {f for f in ALL_CHILD if rng.random() < rng.choice([0.0, 0.5, 0.8])}
    child_cls = make_child_class(child_keep)
    keep = {f for f in ALL_NEWER if rng.random() < rng.choice([0.0, 0.3, 0.7])}
    return make_newer_class(keep, child_cls)


olders = [older_classes() for _ in range(25)]
olders.append(make_newer_class(set(), make_child_class(set())))  # everything deleted
olders.append(make_newer_class({"child", "kids", "m"}, make_child_class(set())))
olders.append(make_newer_class({"child", "kids", "m"}, make_child_class({"sub"})))

for i in range(250):
    newer = rnd_newer()
    data = bytes(newer)
    assert len(newer) == len(data)
    ref = GNewer.FromString(data)
    # betterproto can read what the reference writes, and sees the same message
    assert NewerFull().parse(ref.SerializeToString()) == newer, i
    assert GNewer.FromString(bytes(NewerFull().parse(ref.SerializeToString()))) == ref, i
    for Older in rng.sample(olders, 6):
        older = Older().parse(data)
        again = bytes(older)
        assert len(older) == len(again), (i, Older)
        # reference decoder's view of the re-emitted bytes is unchanged
        assert GNewer.FromString(again) == ref, (i, Older)
        # and so is the newer schema's own view
        assert NewerFull().parse(again) == newer, (i, Older)
        # size-delimited stream API
        buf = BytesIO()
        older.dump(buf, betterproto.SIZE_DELIMITED)
        buf.write(b"\x08\x01")
        buf.seek(0)
        back = Older().load(buf, betterproto.SIZE_DELIMITED)
        assert buf.read() == b"\x08\x01"
        assert bytes(back) == again, (i, Older)

print("ok")
