"""Equivalence check for the rewrite of _Timestamp.timestamp_to_json (float nanosecond
arithmetic -> integer microsecond arithmetic, unreachable 9-digit branch dropped).

* every one of the 10**6 possible microsecond values against an independent reference,
* boundary / random datetimes (naive, UTC, other offsets, sub-minute offsets, year 1 and
  9999) against the reference and against google.protobuf's Timestamp.ToJsonString,
* the C04 round trip of messages holding such timestamps (singular, optional, oneof,
  repeated, map), both casings, dict and JSON path, classmethod and instance from_dict."""
import json
import random
import re
from dataclasses import dataclass
from datetime import datetime, timedelta, timezone
from typing import Dict, List, Optional

from dateutil.parser import isoparse
from google.protobuf import timestamp_pb2

import betterproto
from betterproto import Casing, _Timestamp

to_json = _Timestamp.timestamp_to_json
UTC = timezone.utc


def reference(dt: datetime) -> str:
    """RFC 3339 in UTC ("Z"), with 0, 3 or 6 fractional digits (proto3 JSON mapping)."""
    if dt.tzinfo is not None:
        dt = dt.astimezone(UTC)
    base = "%04d-%02d-%02dT%02d:%02d:%02d" % (
        dt.year, dt.month, dt.day, dt.hour, dt.minute, dt.second)
    digits = "%06d" % dt.microsecond
    if digits == "000000":
        return base + "Z"
    if digits.endswith("000"):
        return base + "." + digits[:3] + "Z"
    return base + "." + digits + "Z"


# --- 1. all microsecond values -----------------------------------------------------------
base = datetime(2001, 2, 3, 4, 5, 6, tzinfo=UTC)
pre = "2001-02-03T04:05:06"
for us in range(10**6):
    got = to_json(base.replace(microsecond=us))
    if us == 0:
        want = pre + "Z"
    elif us % 1000 == 0:
        want = "%s.%03dZ" % (pre, us // 1000)
    else:
        want = "%s.%06dZ" % (pre, us)
    assert got == want, (us, got, want)

# --- 2. boundary and random datetimes -----------------------------------------------------
rng = random.Random(2404)
ZONES = [
    None, UTC, timezone(timedelta(hours=2)), timezone(timedelta(hours=-11, minutes=-30)),
    timezone(timedelta(hours=14)), timezone(timedelta(hours=-12)),
    timezone(timedelta(hours=5, minutes=45)), timezone(timedelta(minutes=1, seconds=30)),
    timezone(timedelta(seconds=-1)), timezone(timedelta(0), "X"),
]
MICROS = [0, 1, 999, 1000, 1001, 999000, 999999, 500000, 123000, 123456, 100, 10, 100000]
cases = []
for y in (2, 33, 999, 1000, 1582, 1899, 1900, 1969, 1970, 1971, 2000, 2024, 2038, 2106, 9998):
    for (mo, d, h, mi, s) in ((1, 1, 0, 0, 0), (12, 31, 23, 59, 59), (2, 28, 12, 0, 1), (6, 15, 1, 2, 3)):
        for us in MICROS:
            cases.append(datetime(y, mo, d, h, mi, s, us))
for _ in range(20000):
    cases.append(
        datetime(rng.randint(2, 9998), rng.randint(1, 12), rng.randint(1, 28),
                 rng.randint(0, 23), rng.randint(0, 59), rng.randint(0, 59),
                 rng.choice(MICROS) if rng.random() < 0.5 else rng.randrange(10**6)))
# the extremes (UTC / naive only: other offsets would leave the datetime range)
edge = [datetime.min, datetime.max, datetime(1, 1, 1, 0, 0, 0, 1), datetime(9999, 12, 31, 23, 59, 59),
        datetime(9999, 12, 31, 23, 59, 59, 999000), datetime(1970, 1, 1), datetime(1969, 12, 31, 23, 59, 59, 999999)]
pattern = re.compile(r"^\d{4}-\d\d-\d\dT\d\d:\d\d:\d\d(\.\d{3}|\.\d{6})?Z$")
n = 0
for naive in cases + edge:
    zones = ZONES if naive in cases else (None, UTC)
    for tz in zones:
        dt = naive.replace(tzinfo=tz)
        got = to_json(dt)
        assert got == reference(dt), (dt, got, reference(dt))
        assert pattern.match(got), got
        # the text denotes the same instant
        parsed = isoparse(got)
        assert parsed == (dt if tz is not None else dt.replace(tzinfo=UTC)), (dt, got)
        # google.protobuf prints the same text
        g = timestamp_pb2.Timestamp()
        g.FromDatetime(dt)
        assert g.ToJsonString() == got, (dt, got, g.ToJsonString())
        n += 1
# argument is left untouched and the result is a plain str
probe = datetime(2020, 1, 2, 3, 4, 5, 678900, tzinfo=ZONES[2])
assert to_json(probe) == "2020-01-02T01:04:05.678900Z" and type(to_json(probe)) is str
assert probe == datetime(2020, 1, 2, 3, 4, 5, 678900, tzinfo=ZONES[2])


# datetime subclasses are formatted alike
class MyDT(datetime):
    pass


assert to_json(MyDT(2020, 1, 2, 3, 4, 5, 6000, tzinfo=UTC)) == "2020-01-02T03:04:05.006Z"


# --- 3. message level round trip (C04) -----------------------------------------------------
@dataclass(eq=False, repr=False)
class Inner(betterproto.Message):
    at: datetime = betterproto.message_field(1)


@dataclass(eq=False, repr=False)
class Event(betterproto.Message):
    name: str = betterproto.string_field(1)
    created_at: datetime = betterproto.message_field(2)
    history: List[datetime] = betterproto.message_field(3)
    by_key: Dict[str, datetime] = betterproto.map_field(4, "string", "message")
    by_num: Dict[int, datetime] = betterproto.map_field(5, "sint64", "message")
    maybe_at: Optional[datetime] = betterproto.message_field(6, optional=True)
    a_at: datetime = betterproto.message_field(7, group="which")
    b_at: datetime = betterproto.message_field(8, group="which")
    inner: Inner = betterproto.message_field(9)
    inners: List[Inner] = betterproto.message_field(10)


EPOCH = datetime(1970, 1, 1, tzinfo=UTC)
rt = 0


def roundtrip(m):
    global rt
    wire = bytes(m)
    for casing in (Casing.CAMEL, Casing.SNAKE):
        d = m.to_dict(casing=casing)
        text = json.dumps(d)
        assert text == m.to_json(casing=casing)
        for back in (Event.from_dict(d), Event().from_dict(d), Event().from_json(text),
                     Event.from_dict(json.loads(text))):
            assert back == m, (casing, d, back, m)
            assert bytes(back) == wire, (casing, d)
            rt += 1


aware = [c.replace(tzinfo=rng.choice(ZONES[1:])) for c in rng.sample(cases, 600)]
aware += [e.replace(tzinfo=UTC) for e in edge] + [EPOCH]
for ts in aware:
    other = rng.choice(aware)
    roundtrip(Event(created_at=ts))
    roundtrip(Event(maybe_at=ts))
    roundtrip(Event(a_at=ts))
    roundtrip(Event(name="n", b_at=ts, history=[ts, other, EPOCH]))
    roundtrip(Event(by_key={"x": ts, "": other}, by_num={-1: ts, 2**40: EPOCH}))
    roundtrip(Event(inner=Inner(at=ts), inners=[Inner(at=other), Inner(), Inner(at=ts)]))
roundtrip(Event())
# default-valued oneof / optional members keep their presence
for m in (Event(a_at=EPOCH), Event(b_at=EPOCH), Event(maybe_at=EPOCH)):
    roundtrip(m)
assert Event(a_at=EPOCH).to_dict() == {"aAt": "1970-01-01T00:00:00Z"}
assert Event(maybe_at=EPOCH).to_dict(casing=Casing.SNAKE) == {"maybe_at": "1970-01-01T00:00:00Z"}
assert Event(created_at=EPOCH).to_dict() == {}
assert Event(created_at=EPOCH).to_dict(include_default_values=True)["createdAt"] == "1970-01-01T00:00:00Z"

print(f"keep2 equiv OK (10**6 microsecond values, {n} datetimes vs reference+google, {rt} round trips)")
