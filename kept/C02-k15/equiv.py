"""C02 keep1: the per-class metadata (zero-value generators, element / entry classes)
that Message.load and Message.dump consult is what the annotations say, and messages
using every annotation shape interoperate with google.protobuf in both directions.
"""
import random
import struct
import sys
from dataclasses import dataclass
from datetime import datetime, timedelta, timezone
from typing import Dict, List, Optional

import betterproto
from betterproto import Message, ProtoClassMetadata
from google.protobuf import descriptor_pb2, descriptor_pool, message_factory
from google.protobuf import duration_pb2, timestamp_pb2, wrappers_pb2  # noqa: F401

F = descriptor_pb2.FieldDescriptorProto
rnd = random.Random(1102)


# ------------------------------------------------------------------ betterproto schema
class Color(betterproto.Enum):
    NONE = 0
    RED = 1
    BLUE = -3
    BIG = 2**31 - 1


@dataclass(eq=False, repr=False)
class Leaf(Message):
    n: int = betterproto.sint64_field(1)
    s: str = betterproto.string_field(2)
    more: List["Leaf"] = betterproto.message_field(3)


@dataclass(eq=False, repr=False)
class Other(Message):
    flag: bool = betterproto.bool_field(1, group="k")
    blob: bytes = betterproto.bytes_field(2, group="k")
    f: float = betterproto.float_field(9)


@dataclass(eq=False, repr=False)
class Big(Message):
    i32: int = betterproto.int32_field(1)
    u64: int = betterproto.uint64_field(2)
    d: float = betterproto.double_field(3)
    s: str = betterproto.string_field(4)
    by: bytes = betterproto.bytes_field(5)
    b: bool = betterproto.bool_field(6)
    e: "Color" = betterproto.enum_field(7)
    leaf: "Leaf" = betterproto.message_field(8)
    ts: datetime = betterproto.message_field(9)
    dur: timedelta = betterproto.message_field(10)
    w_i: Optional[int] = betterproto.message_field(11, wraps=betterproto.TYPE_INT64)
    w_s: Optional[str] = betterproto.message_field(12, wraps=betterproto.TYPE_STRING)
    o_i: Optional[int] = betterproto.sint32_field(13, optional=True)
    o_leaf: Optional["Leaf"] = betterproto.message_field(14, optional=True)
    o_e: Optional["Color"] = betterproto.enum_field(15, optional=True)
    r_i: List[int] = betterproto.sfixed32_field(16)
    r_s: List[str] = betterproto.string_field(17)
    r_e: List["Color"] = betterproto.enum_field(18)
    r_leaf: List["Leaf"] = betterproto.message_field(19)
    r_ts: List[datetime] = betterproto.message_field(20)
    m_ss: Dict[str, str] = betterproto.map_field(21, "string", "string")
    m_il: Dict[int, "Leaf"] = betterproto.map_field(22, "sint32", "message")
    m_so: Dict[str, "Other"] = betterproto.map_field(23, "string", "message")
    m_be: Dict[bool, "Color"] = betterproto.map_field(24, "bool", "enum")
    m_ud: Dict[int, float] = betterproto.map_field(25, "fixed64", "double")
    one_i: int = betterproto.uint32_field(26, group="pick")
    one_s: str = betterproto.string_field(27, group="pick")
    one_leaf: "Leaf" = betterproto.message_field(28, group="pick")
    one_e: "Color" = betterproto.enum_field(29, group="pick")
    one_ts: datetime = betterproto.message_field(30, group="pick")
    m_st: Dict[str, datetime] = betterproto.map_field(31, "string", "message")
    m_sd: Dict[str, timedelta] = betterproto.map_field(32, "string", "message")
    r_w: List[Optional[int]] = betterproto.message_field(33, wraps=betterproto.TYPE_UINT32)


if sys.version_info >= (3, 10):

    @dataclass(eq=False, repr=False)
    class Modern(Message):
        a: "int | None" = betterproto.int32_field(1, optional=True)
        b: "Leaf | None" = betterproto.message_field(2, optional=True)
        c: "list[int]" = betterproto.uint32_field(3)
        d: "dict[str, Leaf]" = betterproto.map_field(4, "string", "message")
        e: "str | None" = betterproto.message_field(5, wraps=betterproto.TYPE_STRING)


# ------------------------------------------------------------------ metadata as specified
NoneType = type(None)
meta = Big._betterproto
assert isinstance(meta, ProtoClassMetadata)
names = [f for f in Big.__dataclass_fields__]
assert list(meta.default_gen) == names
assert list(meta.meta_by_field_name) == names
expected_gen = {
    "i32": int, "u64": int, "d": float, "s": str, "by": bytes, "b": bool,
    "e": Color.try_value, "leaf": Leaf, "ts": betterproto.datetime_default_gen, "dur": timedelta,
    "w_i": NoneType, "w_s": NoneType, "o_i": NoneType, "o_leaf": NoneType, "o_e": NoneType,
    "r_i": list, "r_s": list, "r_e": list, "r_leaf": list, "r_ts": list,
    "m_ss": dict, "m_il": dict, "m_so": dict, "m_be": dict, "m_ud": dict,
    "one_i": int, "one_s": str, "one_leaf": Leaf, "one_e": Color.try_value,
    "one_ts": betterproto.datetime_default_gen, "m_st": dict, "m_sd": dict, "r_w": list,
}
for name in names:
    got = meta.default_gen[name]
    want = expected_gen[name]
    assert got == want, (name, got, want)  # bound methods compare equal, classes by identity
    if want in (list, dict, NoneType, int, float, str, bytes, bool, Leaf, timedelta):
        assert got is want, (name, got)
assert meta.default_gen["e"]() is Color.NONE
assert meta.default_gen["ts"]() == datetime(1970, 1, 1, tzinfo=timezone.utc)

maps = {"m_ss": (str, str), "m_il": (int, Leaf), "m_so": (str, Other), "m_be": (bool, Color),
        "m_ud": (int, float), "m_st": (str, datetime), "m_sd": (str, timedelta)}
expected_keys = []
for name in names:
    expected_keys.append(name)
    if name in maps:
        expected_keys.append(name + ".value")
assert list(meta.cls_by_field) == expected_keys, list(meta.cls_by_field)
expected_cls = {
    "i32": int, "u64": int, "d": float, "s": str, "by": bytes, "b": bool, "e": Color, "leaf": Leaf,
    "ts": datetime, "dur": timedelta, "w_i": int, "w_s": str, "o_i": int, "o_leaf": Leaf, "o_e": Color,
    "r_i": int, "r_s": str, "r_e": Color, "r_leaf": Leaf, "r_ts": datetime,
    "one_i": int, "one_s": str, "one_leaf": Leaf, "one_e": Color, "one_ts": datetime,
    "r_w": Optional[int],
}
for name, want in expected_cls.items():
    assert meta.cls_by_field[name] == want, (name, meta.cls_by_field[name])
entry_classes = set()
for name, (kt, vt) in maps.items():
    entry = meta.cls_by_field[name]
    entry_classes.add(entry)
    assert issubclass(entry, Message) and entry.__name__ == "Entry"
    assert meta.cls_by_field[name + ".value"] is vt
    assert [f for f in entry.__dataclass_fields__] == ["key", "value"]
    assert entry.__dataclass_fields__["key"].type is kt and entry.__dataclass_fields__["value"].type is vt
    em = entry._betterproto
    fm = meta.meta_by_field_name[name]
    assert em.meta_by_field_name["key"].number == 1 and em.meta_by_field_name["value"].number == 2
    assert (em.meta_by_field_name["key"].proto_type, em.meta_by_field_name["value"].proto_type) == fm.map_types
    assert em.cls_by_field["key"] is kt and em.cls_by_field["value"] is vt
assert len(entry_classes) == len(maps)  # one entry class per map field

assert meta.oneof_group_by_field == {n: "pick" for n in ("one_i", "one_s", "one_leaf", "one_e", "one_ts")}
assert {f.name for f in meta.oneof_field_by_group["pick"]} == set(meta.oneof_group_by_field)
assert meta.field_name_by_number == {m.number: n for n, m in meta.meta_by_field_name.items()}
assert meta.sorted_field_names == tuple(names)

# the classmethods that answer the same questions field by field
for f in Big.__dataclass_fields__.values():
    assert Big._get_field_default_gen(f) == meta.default_gen[f.name]
    if f.name in maps:
        assert Big._cls_for(f, index=0) is maps[f.name][0] and Big._cls_for(f, index=1) is maps[f.name][1]
        assert Big._cls_for(f, index=-1) == Big._type_hint(f.name)
    else:
        assert Big._cls_for(f) == meta.cls_by_field[f.name]

lm = Leaf._betterproto
assert lm.default_gen == {"n": int, "s": str, "more": list} and lm.cls_by_field == {"n": int, "s": str, "more": Leaf}
om = Other._betterproto
assert om.default_gen == {"flag": bool, "blob": bytes, "f": float}

if sys.version_info >= (3, 10):
    mm = Modern._betterproto
    assert mm.default_gen == {"a": NoneType, "b": NoneType, "c": list, "d": dict, "e": NoneType}
    assert mm.cls_by_field["a"] is int and mm.cls_by_field["b"] is Leaf and mm.cls_by_field["c"] is int
    assert mm.cls_by_field["d.value"] is Leaf and mm.cls_by_field["e"] is str
    x = Modern(a=0, b=Leaf(), c=[1, 300], d={"k": Leaf(n=-5)}, e="")
    y = Modern().parse(bytes(x))
    assert (y.a, y.c, y.d["k"].n, y.e) == (0, [1, 300], -5, "") and betterproto.serialized_on_wire(y.b)
    assert bytes(y) == bytes(x)
    z = Modern().parse(b"")
    assert (z.a, z.b, z.c, z.d, z.e) == (None, None, [], {}, None)

# the library's own generated descriptors build their metadata too
from betterproto.lib.google.protobuf import FileDescriptorProto, Struct, Value  # noqa: E402

assert FileDescriptorProto._betterproto.default_gen["message_type"] is list
assert Struct._betterproto.cls_by_field["fields.value"] is Value

# ------------------------------------------------------------------ reference schema
fdp = descriptor_pb2.FileDescriptorProto(
    name="c02_keep1.proto", package="k1", syntax="proto3",
    dependency=["google/protobuf/timestamp.proto", "google/protobuf/duration.proto", "google/protobuf/wrappers.proto"],
)
en = fdp.enum_type.add(name="Color")
for n, v in (("NONE", 0), ("RED", 1), ("BLUE", -3), ("BIG", 2**31 - 1)):
    en.value.add(name=n, number=v)
leaf = fdp.message_type.add(name="Leaf")
leaf.field.add(name="n", number=1, type=F.TYPE_SINT64, label=F.LABEL_OPTIONAL)
leaf.field.add(name="s", number=2, type=F.TYPE_STRING, label=F.LABEL_OPTIONAL)
leaf.field.add(name="more", number=3, type=F.TYPE_MESSAGE, type_name=".k1.Leaf", label=F.LABEL_REPEATED)
oth = fdp.message_type.add(name="Other")
oth.oneof_decl.add(name="k")
oth.field.add(name="flag", number=1, type=F.TYPE_BOOL, label=F.LABEL_OPTIONAL, oneof_index=0)
oth.field.add(name="blob", number=2, type=F.TYPE_BYTES, label=F.LABEL_OPTIONAL, oneof_index=0)
oth.field.add(name="f", number=9, type=F.TYPE_FLOAT, label=F.LABEL_OPTIONAL)
big = fdp.message_type.add(name="Big")
big.oneof_decl.add(name="pick")
TS, DUR = ".google.protobuf.Timestamp", ".google.protobuf.Duration"


def add(name, number, ftype, type_name=None, label=F.LABEL_OPTIONAL, **kw):
    f = big.field.add(name=name, number=number, type=ftype, label=label, **kw)
    if type_name:
        f.type_name = type_name
    return f


def add_map(name, number, ktype, vtype, vtype_name=None):
    ename = "".join(p.capitalize() for p in name.split("_")) + "Entry"
    e = big.nested_type.add(name=ename)
    e.options.map_entry = True
    e.field.add(name="key", number=1, type=ktype, label=F.LABEL_OPTIONAL)
    v = e.field.add(name="value", number=2, type=vtype, label=F.LABEL_OPTIONAL)
    if vtype_name:
        v.type_name = vtype_name
    add(name, number, F.TYPE_MESSAGE, ".k1.Big." + ename, F.LABEL_REPEATED)


add("i32", 1, F.TYPE_INT32)
add("u64", 2, F.TYPE_UINT64)
add("d", 3, F.TYPE_DOUBLE)
add("s", 4, F.TYPE_STRING)
add("by", 5, F.TYPE_BYTES)
add("b", 6, F.TYPE_BOOL)
add("e", 7, F.TYPE_ENUM, ".k1.Color")
add("leaf", 8, F.TYPE_MESSAGE, ".k1.Leaf")
add("ts", 9, F.TYPE_MESSAGE, TS)
add("dur", 10, F.TYPE_MESSAGE, DUR)
add("w_i", 11, F.TYPE_MESSAGE, ".google.protobuf.Int64Value")
add("w_s", 12, F.TYPE_MESSAGE, ".google.protobuf.StringValue")
n_oneofs = 1
for name, number, ftype, tn in (("o_i", 13, F.TYPE_SINT32, None), ("o_leaf", 14, F.TYPE_MESSAGE, ".k1.Leaf"),
                                ("o_e", 15, F.TYPE_ENUM, ".k1.Color")):
    big.oneof_decl.add(name="_" + name)
    add(name, number, ftype, tn, proto3_optional=True, oneof_index=n_oneofs)
    n_oneofs += 1
add("r_i", 16, F.TYPE_SFIXED32, label=F.LABEL_REPEATED)
add("r_s", 17, F.TYPE_STRING, label=F.LABEL_REPEATED)
add("r_e", 18, F.TYPE_ENUM, ".k1.Color", F.LABEL_REPEATED)
add("r_leaf", 19, F.TYPE_MESSAGE, ".k1.Leaf", F.LABEL_REPEATED)
add("r_ts", 20, F.TYPE_MESSAGE, TS, F.LABEL_REPEATED)
add_map("m_ss", 21, F.TYPE_STRING, F.TYPE_STRING)
add_map("m_il", 22, F.TYPE_SINT32, F.TYPE_MESSAGE, ".k1.Leaf")
add_map("m_so", 23, F.TYPE_STRING, F.TYPE_MESSAGE, ".k1.Other")
add_map("m_be", 24, F.TYPE_BOOL, F.TYPE_ENUM, ".k1.Color")
add_map("m_ud", 25, F.TYPE_FIXED64, F.TYPE_DOUBLE)
add("one_i", 26, F.TYPE_UINT32, oneof_index=0)
add("one_s", 27, F.TYPE_STRING, oneof_index=0)
add("one_leaf", 28, F.TYPE_MESSAGE, ".k1.Leaf", oneof_index=0)
add("one_e", 29, F.TYPE_ENUM, ".k1.Color", oneof_index=0)
add("one_ts", 30, F.TYPE_MESSAGE, TS, oneof_index=0)
add_map("m_st", 31, F.TYPE_STRING, F.TYPE_MESSAGE, TS)
add_map("m_sd", 32, F.TYPE_STRING, F.TYPE_MESSAGE, DUR)
add("r_w", 33, F.TYPE_MESSAGE, ".google.protobuf.UInt32Value", F.LABEL_REPEATED)

pool = descriptor_pool.Default()
pool.Add(fdp)
RBig = message_factory.GetMessageClass(pool.FindMessageTypeByName("k1.Big"))
RLeaf = message_factory.GetMessageClass(pool.FindMessageTypeByName("k1.Leaf"))


# ------------------------------------------------------------------ value generation
def r_str():
    return rnd.choice(["", "a", "héllo", "日本語", "x" * 200, "\x00z"])


def r_i(bits, signed):
    edge = [0, 1, -1, 127, 128, 2**(bits - 1) - 1, -(2**(bits - 1)), 2**bits - 1, 300, -300]
    v = rnd.choice(edge) if rnd.random() < 0.6 else rnd.getrandbits(bits)
    lo, hi = (-(2**(bits - 1)), 2**(bits - 1) - 1) if signed else (0, 2**bits - 1)
    return min(max(v, lo), hi)


def r_dt():
    us = rnd.choice([0, 1, 999999, 500000, rnd.randrange(10**6)])
    s = rnd.choice([0, -1, 1, 1700000000, -62135596800, 253402300799, rnd.randrange(-10**10, 10**10)])
    return datetime(1970, 1, 1, tzinfo=timezone.utc) + timedelta(seconds=s, microseconds=us)


def r_td():
    return rnd.choice([1, -1]) * timedelta(seconds=rnd.choice([0, 1, 86399, rnd.randrange(10**10)]),
                                           microseconds=rnd.choice([0, 1, 500000, 999999]))


def r_f32():
    return struct.unpack("<f", struct.pack("<f", rnd.choice([0.5, -2.25, 1e10, 3.4e38, 1e-40, rnd.uniform(-1e6, 1e6)])))[0]


def r_leaf(depth=0):
    kw = {}
    if rnd.random() < 0.7:
        kw["n"] = r_i(64, True)
    if rnd.random() < 0.5:
        kw["s"] = r_str()
    if depth < 2 and rnd.random() < 0.4:
        kw["more"] = [r_leaf(depth + 1) for _ in range(rnd.randrange(3))]
    return kw


def r_other():
    kw = {}
    c = rnd.randrange(3)
    if c == 0:
        kw["flag"] = rnd.random() < 0.5
    elif c == 1:
        kw["blob"] = rnd.choice([b"", b"\x00\xff", bytes(rnd.randrange(256) for _ in range(5))])
    if rnd.random() < 0.5:
        kw["f"] = r_f32()
    return kw


COLORS = [0, 1, -3, 2**31 - 1, 7, -100]

GEN = {
    "i32": lambda: r_i(32, True), "u64": lambda: r_i(64, False), "d": lambda: rnd.choice([1.5, -1e300, 5e-324, float("inf")]),
    "s": r_str, "by": lambda: bytes(rnd.randrange(256) for _ in range(rnd.randrange(4))), "b": lambda: True,
    "e": lambda: rnd.choice(COLORS), "leaf": r_leaf, "ts": r_dt, "dur": r_td,
    "w_i": lambda: r_i(64, True), "w_s": r_str, "o_i": lambda: r_i(32, True), "o_leaf": r_leaf,
    "o_e": lambda: rnd.choice(COLORS),
    "r_i": lambda: [r_i(32, True) for _ in range(rnd.randrange(1, 5))],
    "r_s": lambda: [r_str() for _ in range(rnd.randrange(1, 4))],
    "r_e": lambda: [rnd.choice(COLORS) for _ in range(rnd.randrange(1, 5))],
    "r_leaf": lambda: [r_leaf() for _ in range(rnd.randrange(1, 4))],
    "r_ts": lambda: [r_dt() for _ in range(rnd.randrange(1, 3))],
    "m_ss": lambda: {r_str(): r_str() for _ in range(rnd.randrange(1, 4))},
    "m_il": lambda: {r_i(32, True): r_leaf() for _ in range(rnd.randrange(1, 4))},
    "m_so": lambda: {r_str(): r_other() for _ in range(rnd.randrange(1, 4))},
    "m_be": lambda: {rnd.random() < 0.5: rnd.choice(COLORS) for _ in range(rnd.randrange(1, 3))},
    "m_ud": lambda: {r_i(64, False): rnd.choice([0.0, 2.5, -1e-9]) for _ in range(rnd.randrange(1, 4))},
    "one_i": lambda: r_i(32, False), "one_s": r_str, "one_leaf": r_leaf, "one_e": lambda: rnd.choice(COLORS),
    "one_ts": r_dt,
    "m_st": lambda: {r_str(): r_dt() for _ in range(rnd.randrange(1, 3))},
    "m_sd": lambda: {r_str(): r_td() for _ in range(rnd.randrange(1, 3))},
    "r_w": lambda: [r_i(32, False) for _ in range(rnd.randrange(1, 4))],
}
LEAFY = {"leaf", "o_leaf", "one_leaf"}
ONE = ["one_i", "one_s", "one_leaf", "one_e", "one_ts"]


def bp_leaf(kw):
    kw = dict(kw)
    if "more" in kw:
        kw["more"] = [bp_leaf(x) for x in kw["more"]]
    return Leaf(**kw)


def ref_leaf(kw, into):
    into.SetInParent()
    if "n" in kw:
        into.n = kw["n"]
    if "s" in kw:
        into.s = kw["s"]
    for x in kw.get("more", []):
        ref_leaf(x, into.more.add())


def build(spec):
    bp_kw = {}
    ref = RBig()
    for name, v in spec.items():
        if name in LEAFY:
            bp_kw[name] = bp_leaf(v)
            if name == "leaf" and not v:
                continue  # a plain sub-message built without any field is not present
            ref_leaf(v, getattr(ref, name))
        elif name == "r_leaf":
            bp_kw[name] = [bp_leaf(x) for x in v]
            for x in v:
                ref_leaf(x, ref.r_leaf.add())
        elif name == "m_il":
            bp_kw[name] = {k: bp_leaf(x) for k, x in v.items()}
            for k, x in v.items():
                ref_leaf(x, ref.m_il[k])
        elif name == "m_so":
            bp_kw[name] = {k: Other(**x) for k, x in v.items()}
            for k, x in v.items():
                ref.m_so[k].SetInParent()
                for a, b in x.items():
                    setattr(ref.m_so[k], a, b)
        elif name in ("ts", "one_ts"):
            bp_kw[name] = v
            getattr(ref, name).FromDatetime(v)
        elif name == "dur":
            bp_kw[name] = v
            ref.dur.FromTimedelta(v)
        elif name == "r_ts":
            bp_kw[name] = list(v)
            for x in v:
                ref.r_ts.add().FromDatetime(x)
        elif name == "m_st":
            bp_kw[name] = dict(v)
            for k, x in v.items():
                ref.m_st[k].FromDatetime(x)
        elif name == "m_sd":
            bp_kw[name] = dict(v)
            for k, x in v.items():
                ref.m_sd[k].FromTimedelta(x)
        elif name in ("w_i", "w_s"):
            bp_kw[name] = v
            getattr(ref, name).value = v
        elif name == "r_w":
            bp_kw[name] = list(v)
            for x in v:
                ref.r_w.add().value = x
        elif name in ("e", "o_e", "one_e"):
            bp_kw[name] = Color.try_value(v)
            setattr(ref, name, v)
        elif name == "r_e":
            bp_kw[name] = [Color.try_value(x) for x in v]
            ref.r_e.extend(v)
        elif name == "m_be":
            bp_kw[name] = {k: Color.try_value(x) for k, x in v.items()}
            for k, x in v.items():
                ref.m_be[k] = x
        elif name.startswith("r_"):
            bp_kw[name] = list(v)
            getattr(ref, name).extend(v)
        elif name.startswith("m_"):
            bp_kw[name] = dict(v)
            for k, x in v.items():
                getattr(ref, name)[k] = x
        else:
            bp_kw[name] = v
            setattr(ref, name, v)
    return Big(**bp_kw), ref


def leaf_view(x):
    return (x.n, x.s, [leaf_view(y) for y in x.more])


def other_view_bp(x):
    w = betterproto.which_one_of(x, "k")[0] or None
    return (w, getattr(x, w) if w else None, x.f)


def other_view_ref(x):
    w = x.WhichOneof("k")
    return (w, getattr(x, w) if w else None, x.f)


UTC = timezone.utc


def view_bp(m):
    v = {}
    for n in ("i32", "u64", "d", "s", "by", "b"):
        v[n] = getattr(m, n)
    v["e"] = int(m.e)
    v["leaf"] = leaf_view(m.leaf) if betterproto.serialized_on_wire(m.leaf) else None
    v["ts"] = m.ts
    v["dur"] = m.dur
    v["w_i"], v["w_s"], v["o_i"] = m.w_i, m.w_s, m.o_i
    v["o_leaf"] = leaf_view(m.o_leaf) if m.o_leaf is not None else None
    v["o_e"] = int(m.o_e) if m.o_e is not None else None
    v["r_i"], v["r_s"] = list(m.r_i), list(m.r_s)
    v["r_e"] = [int(x) for x in m.r_e]
    v["r_leaf"] = [leaf_view(x) for x in m.r_leaf]
    v["r_ts"] = list(m.r_ts)
    v["m_ss"] = dict(m.m_ss)
    v["m_il"] = {k: leaf_view(x) for k, x in m.m_il.items()}
    v["m_so"] = {k: other_view_bp(x) for k, x in m.m_so.items()}
    v["m_be"] = {k: int(x) for k, x in m.m_be.items()}
    v["m_ud"] = dict(m.m_ud)
    w = betterproto.which_one_of(m, "pick")[0] or None
    v["pick"] = w
    if w:
        x = getattr(m, w)
        v["pick_value"] = leaf_view(x) if w == "one_leaf" else int(x) if w == "one_e" else x
    v["m_st"], v["m_sd"] = dict(m.m_st), dict(m.m_sd)
    v["r_w"] = list(m.r_w)
    return v


def view_ref(m):
    v = {}
    for n in ("i32", "u64", "d", "s", "by", "b", "e"):
        v[n] = getattr(m, n)
    v["leaf"] = leaf_view(m.leaf) if m.HasField("leaf") else None
    v["ts"] = m.ts.ToDatetime(tzinfo=UTC)
    v["dur"] = m.dur.ToTimedelta()
    v["w_i"] = m.w_i.value if m.HasField("w_i") else None
    v["w_s"] = m.w_s.value if m.HasField("w_s") else None
    v["o_i"] = m.o_i if m.HasField("o_i") else None
    v["o_leaf"] = leaf_view(m.o_leaf) if m.HasField("o_leaf") else None
    v["o_e"] = m.o_e if m.HasField("o_e") else None
    v["r_i"], v["r_s"], v["r_e"] = list(m.r_i), list(m.r_s), list(m.r_e)
    v["r_leaf"] = [leaf_view(x) for x in m.r_leaf]
    v["r_ts"] = [x.ToDatetime(tzinfo=UTC) for x in m.r_ts]
    v["m_ss"] = dict(m.m_ss)
    v["m_il"] = {k: leaf_view(x) for k, x in m.m_il.items()}
    v["m_so"] = {k: other_view_ref(x) for k, x in m.m_so.items()}
    v["m_be"] = dict(m.m_be)
    v["m_ud"] = dict(m.m_ud)
    w = m.WhichOneof("pick")
    v["pick"] = w
    if w:
        x = getattr(m, w)
        v["pick_value"] = leaf_view(x) if w == "one_leaf" else x.ToDatetime(tzinfo=UTC) if w == "one_ts" else x
    v["m_st"] = {k: x.ToDatetime(tzinfo=UTC) for k, x in m.m_st.items()}
    v["m_sd"] = {k: x.ToTimedelta() for k, x in m.m_sd.items()}
    v["r_w"] = [x.value for x in m.r_w]
    return v


plain = [n for n in GEN if n not in ONE]
rounds = 0
for it in range(400):
    chosen = [n for n in plain if rnd.random() < (0.35 if it % 4 else 0.9)]
    if rnd.random() < 0.7:
        chosen.append(rnd.choice(ONE))
    spec = {n: GEN[n]() for n in chosen}
    bp, ref = build(spec)

    # betterproto -> reference
    got = RBig.FromString(bytes(bp))
    assert view_ref(got) == view_bp(bp), (spec, view_ref(got), view_bp(bp))
    assert view_ref(got) == view_ref(ref), spec
    # reference -> betterproto
    back = Big().parse(ref.SerializeToString())
    assert view_bp(back) == view_ref(ref), (spec, view_bp(back), view_ref(ref))
    # and once more around
    assert view_ref(RBig.FromString(bytes(back))) == view_ref(ref)
    rounds += 1

empty = Big().parse(b"")
assert view_bp(empty) == view_ref(RBig())

print("ok", rounds)
