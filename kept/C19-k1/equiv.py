"""C19 / keep1: the JSON key table of ProtoClassMetadata and the key -> field lookup of
from_dict / from_pydict behave exactly as before.

Checks (all with plain asserts):
  * for every proto identifier up to length 6 over {a, b, A, 1, _}, all Python
    keywords / soft keywords / builtins and a corpus of real-world names: a message
    with that single field has the expected key table, emits the expected key in
    both casings, and from_dict / from_pydict map the emitted keys, the python
    field name and the original proto name back to that field;
  * multi-field messages (incl. oneof members, near-colliding and colliding names)
    have exactly the table of a frozen reference model (first emitter of a key keeps
    it, a field's own name always wins), in the same insertion order, and every key
    of the table, set alone, lands in the field the model says;
  * camelCase keys agree with google.protobuf's json_name for ordinary names.
"""
import builtins
import dataclasses
import itertools
import keyword
import random

import betterproto
from betterproto import Casing
from betterproto.casing import camel_case, safe_snake_case, snake_case

RESERVED = set(dir(betterproto.Message)) | {"_"}  # "_" is handled separately


def make(names, groups=None, cls_name="M"):
    groups = groups or {}
    fields = [
        (
            name,
            int,
            betterproto.int32_field(i + 1, group=groups.get(name)),
        )
        for i, name in enumerate(names)
    ]
    return dataclasses.make_dataclass(
        cls_name, fields, bases=(betterproto.Message,), eq=False, repr=False
    )


def reference_table(names):
    """Frozen copy of the documented behaviour."""
    table = {}
    for name in names:
        for casing in (camel_case, snake_case):
            table.setdefault(casing(name).rstrip("_"), name)
    for name in names:
        table[name] = name
    return table


def value_of(msg, name):
    return object.__getattribute__(msg, name)


def get(msg, name):
    # reading must not go through oneof bookkeeping surprises
    try:
        return getattr(msg, name)
    except AttributeError:
        return None


# --------------------------------------------------------------------------- #
# 1. single field messages, exhaustive + corpus
# --------------------------------------------------------------------------- #
ALPHABET = "abA1_"
proto_names = []
for length in range(1, 7):
    for chars in itertools.product(ALPHABET, repeat=length):
        if chars[0].isdigit():
            continue  # not a proto identifier
        proto_names.append("".join(chars))

CORPUS = [
    "address_line_1", "address_line1", "ipv4_address", "ipv6Address", "x_y_z", "x_yz",
    "HTTPStatus", "http_status", "httpStatus", "HttpStatus", "sha256_hash", "utf8",
    "a1b2", "a_1_b", "a_1b", "plan_a_b", "plan_ab", "myField", "MyField", "my_Field",
    "my__field", "_private", "trailing_", "__dunder__", "UPPER_CASE", "UPPER", "mixedCASE",
    "getHTTP2Response", "HTTP2xx", "x", "X", "x1", "x_1", "x__1", "id", "ID", "userID",
    "user_id", "oauth2_token", "s3_bucket", "s3Bucket", "vitamin_b_12", "vitamin_b12",
    "e_mail", "is_a_b_c", "a_b_c_d", "a_bc_d", "field_1_2_3", "v1beta1", "v1_beta_1",
]
KEYWORDS = sorted(set(keyword.kwlist) | set(keyword.softkwlist))
BUILTINS = sorted(n for n in dir(builtins) if n.isidentifier() and not n.startswith("__"))

all_names = proto_names + CORPUS + KEYWORDS + BUILTINS
checked = 0
seen_fields = set()
for proto_name in all_names:
    field_name = safe_snake_case(proto_name)
    assert field_name.isidentifier() and not keyword.iskeyword(field_name), proto_name
    assert safe_snake_case(field_name) == field_name, proto_name
    if field_name in RESERVED:
        continue
    first_time = field_name not in seen_fields
    seen_fields.add(field_name)

    if first_time:
        cls = make([field_name])
        table = cls._betterproto.field_name_by_key
        assert table == reference_table([field_name]), (field_name, table)
        assert list(table) == list(reference_table([field_name])), field_name
    else:
        cls = make([field_name])

    msg = cls(**{field_name: 7})
    for casing, fn in ((Casing.CAMEL, camel_case), (Casing.SNAKE, snake_case)):
        key = fn(field_name).rstrip("_")
        d = msg.to_dict(casing=casing)
        assert d == {key: 7}, (field_name, d)
        assert msg.to_pydict(casing=casing) == {key: 7}
        assert get(cls.from_dict(d), field_name) == 7, (field_name, d)
        assert get(cls().from_dict(d), field_name) == 7, (field_name, d)
        assert get(cls().from_pydict(d), field_name) == 7, (field_name, d)
    for key in (field_name, proto_name):
        assert get(cls.from_dict({key: 7}), field_name) == 7, (field_name, key)
        assert get(cls().from_pydict({key: 7}), field_name) == 7, (field_name, key)
    # unknown keys and None values are ignored
    other = cls.from_dict({"zz_unknown_zz": 1, "zzUnknownZz": 2, field_name: None})
    assert get(other, field_name) == 0, field_name
    assert bytes(other) == b""
    assert bytes(cls().from_json(msg.to_json())) == bytes(msg)
    checked += 1

# the field "_" (proto names "_", "__", ...) emits the empty key
cls = make(["_"])
assert cls._betterproto.field_name_by_key == {"": "_", "_": "_"}
assert list(cls._betterproto.field_name_by_key) == ["", "_"]
assert cls(**{"_": 3}).to_dict() == {"": 3}
assert get(cls.from_dict({"": 3}), "_") == 3
assert get(cls.from_dict({"__": 3}), "_") == 3
assert get(cls().from_pydict({"": 3}), "_") == 3

# --------------------------------------------------------------------------- #
# 2. multi field messages against the reference model
# --------------------------------------------------------------------------- #
pool = sorted(
    {safe_snake_case(n) for n in CORPUS + KEYWORDS + BUILTINS[:40] + proto_names[:400]}
    - RESERVED
)
rng = random.Random(1903)
fixed = [
    ["x_y_z", "x_yz"],
    ["x_yz", "x_y_z"],
    ["plan_a_b", "plan_ab", "plan_a_b_c"],
    ["address_line_1", "address_line1"],  # same JSON name: first emitter keeps the key
    ["address_line1", "address_line_1"],
    ["a_1", "a1", "a_1_"],
    ["a1", "a_1"],
    ["from_", "from_1", "import_", "class_"],
    ["_1", "_1a", "a_1"],
]
multi = 0
for names in fixed + [rng.sample(pool, rng.randint(2, 12)) for _ in range(600)]:
    groups = {}
    if rng.random() < 0.5:
        members = rng.sample(names, rng.randint(1, len(names)))
        groups = {m: "grp" for m in members}
    cls = make(names, groups)
    table = cls._betterproto.field_name_by_key
    ref = reference_table(names)
    assert table == ref, (names, table, ref)
    assert list(table.items()) == list(ref.items()), names
    assert set(cls._betterproto.oneof_group_by_field) == set(groups)
    assert list(cls._betterproto.meta_by_field_name) == names
    for key, target in ref.items():
        for got in (
            cls.from_dict({key: 9}),
            cls().from_dict({key: 9}),
            cls().from_pydict({key: 9}),
        ):
            assert value_of(got, target) == 9, (names, key, target)
            for name in names:
                if name != target:
                    assert value_of(got, name) in (0, betterproto.PLACEHOLDER, None), (
                        names, key, name, value_of(got, name)
                    )
    # keys that are not in the table are re-cased
    for key in ("HTTPStatus", "MyField", "x_Y_z", "Address_Line_1", "nope"):
        target = safe_snake_case(key)
        got = cls.from_dict({key: 4})
        if key in ref:
            continue
        if target in names:
            assert value_of(got, target) == 4
        else:
            assert bytes(got) == b""
    # full round trip whenever the emitted keys are unambiguous
    camel_keys = [camel_case(n).rstrip("_") for n in names]
    if len(set(camel_keys)) == len(names) and not groups:
        msg = cls(**{n: i + 1 for i, n in enumerate(names)})
        for casing in (Casing.CAMEL, Casing.SNAKE):
            back = cls.from_dict(msg.to_dict(casing=casing))
            assert bytes(back) == bytes(msg), names
            for n in names:
                assert value_of(back, n) == value_of(msg, n)
    multi += 1

# --------------------------------------------------------------------------- #
# 3. camelCase keys are protobuf's JSON names for ordinary snake_case names
# --------------------------------------------------------------------------- #
from google.protobuf import descriptor_pb2, descriptor_pool

ordinary = [
    "address_line_1", "ipv4_address", "x_y_z", "x_yz", "http_status",
    "sha256_hash", "utf8", "a_1_b", "plan_a_b", "plan_ab", "user_id", "oauth2_token",
    "s3_bucket", "vitamin_b_12", "e_mail", "is_a_b_c", "field_1_2_3",
    "v1_beta_1", "x", "x_1",
]
fdp = descriptor_pb2.FileDescriptorProto(name="c19_keep1.proto", package="c19keep1")
fdp.syntax = "proto2"
m = fdp.message_type.add(name="M")
for i, n in enumerate(ordinary):
    m.field.add(name=n, number=i + 1, type=5, label=1)
pool_ = descriptor_pool.DescriptorPool()
pool_.Add(fdp)
desc = pool_.FindMessageTypeByName("c19keep1.M")
cls = make(ordinary)
for n in ordinary:
    json_name = desc.fields_by_name[n].json_name
    assert camel_case(n) == json_name, (n, camel_case(n), json_name)
    assert cls._betterproto.field_name_by_key[json_name] == n, n
    assert value_of(cls.from_dict({json_name: 5}), n) == 5, n

print(f"OK single={checked} multi={multi}")
