"""Equivalence check for the __copy__/__deepcopy__ refactor (C14 keep1).

Exercises copy.copy / copy.deepcopy / pickle on many message values (constructed,
decoded from bytes, loaded from dicts), before and after read-only observers, and
checks faithfulness, independence, aliasing behaviour and the complete internal
state of the copies.  A digest over everything observed is compared with the value
obtained on the pristine tree, so any behavioural drift is detected.
"""
import copy
import hashlib
import pickle
import random
from dataclasses import dataclass
from datetime import datetime, timedelta, timezone
from typing import Dict, List, Optional

import betterproto
from betterproto import PLACEHOLDER


class Color(betterproto.Enum):
    ZERO = 0
    RED = 1
    BLUE = 2


@dataclass(eq=False, repr=False)
class Leaf(betterproto.Message):
    x: int = betterproto.int32_field(1)
    s: str = betterproto.string_field(2)


@dataclass(eq=False, repr=False)
class Inner(betterproto.Message):
    leaf: Leaf = betterproto.message_field(1)
    nums: List[int] = betterproto.int32_field(2)
    tags: Dict[str, int] = betterproto.map_field(
        3, betterproto.TYPE_STRING, betterproto.TYPE_INT32
    )
    name: str = betterproto.string_field(4)
    leaves: List[Leaf] = betterproto.message_field(5)


@dataclass(eq=False, repr=False)
class Outer(betterproto.Message):
    inner: Inner = betterproto.message_field(1)
    title: str = betterproto.string_field(2)
    a: int = betterproto.int32_field(3, group="g")
    b: str = betterproto.string_field(4, group="g")
    c: Leaf = betterproto.message_field(5, group="g")
    by_name: Dict[str, Leaf] = betterproto.map_field(
        6, betterproto.TYPE_STRING, betterproto.TYPE_MESSAGE
    )
    opt: Optional[int] = betterproto.int32_field(7, optional=True, group="_opt")
    color: Color = betterproto.enum_field(8)
    ts: datetime = betterproto.message_field(9)
    dur: timedelta = betterproto.message_field(10)
    wrapped: Optional[int] = betterproto.message_field(
        11, wraps=betterproto.TYPE_INT32
    )
    data: bytes = betterproto.bytes_field(12)
    ratio: float = betterproto.double_field(13)
    rec: "Outer" = betterproto.message_field(14)
    h: bool = betterproto.bool_field(15, group="g2")
    i: float = betterproto.float_field(16, group="g2")
    opt_leaf: Optional[Leaf] = betterproto.message_field(
        17, optional=True, group="_opt_leaf"
    )


# unknown: field 100 varint 5, field 101 len-delim "zz", field 102 fixed32
UNKNOWN = b"\xa0\x06\x05" + b"\xaa\x06\x02zz" + b"\xb5\x06\x01\x02\x03\x04"


def constructed():
    yield "empty", Outer()
    yield "title", Outer(title="hello")
    yield "oneof a=0", Outer(a=0)
    yield "oneof a=7", Outer(a=7)
    yield "oneof b=''", Outer(b="")
    yield "oneof b", Outer(b="bee")
    yield "oneof c empty", Outer(c=Leaf())
    yield "oneof c", Outer(c=Leaf(x=1))
    yield "g2 h False", Outer(h=False, a=1)
    yield "g2 i nan", Outer(i=float("nan"))
    yield "ratio nan", Outer(ratio=float("nan"))
    yield "ratio -0.0", Outer(ratio=-0.0)
    yield "opt 0", Outer(opt=0)
    yield "opt 5", Outer(opt=5)
    yield "opt_leaf empty", Outer(opt_leaf=Leaf())
    yield "wrapped 0", Outer(wrapped=0)
    yield "wrapped 9", Outer(wrapped=9)
    yield "explicit empty inner", Outer(inner=Inner())
    yield "inner empty leaf", Outer(inner=Inner(leaf=Leaf()))
    yield "inner values", Outer(
        inner=Inner(
            leaf=Leaf(x=-1, s="q"),
            nums=[0, 1, -2, 2**31 - 1],
            tags={"": 0, "k": 3},
            name="n",
            leaves=[Leaf(), Leaf(x=3)],
        )
    )
    yield "map of msgs", Outer(by_name={"": Leaf(), "z": Leaf(x=2, s="two")})
    yield "enum", Outer(color=Color.BLUE)
    yield "enum unknown number", Outer().parse(b"\x40\x63")
    yield "ts/dur", Outer(
        ts=datetime(2021, 3, 4, 5, 6, 7, 890, tzinfo=timezone.utc),
        dur=timedelta(days=1, microseconds=5),
    )
    yield "bytes", Outer(data=b"\x00\xff")
    yield "recursive", Outer(rec=Outer(rec=Outer(title="deep"), a=0), b="x")
    yield "everything", Outer(
        inner=Inner(leaf=Leaf(x=1), nums=[1], tags={"a": 1}, leaves=[Leaf(s="l")]),
        title="T",
        c=Leaf(s="sel"),
        by_name={"k": Leaf(x=1)},
        opt=0,
        color=Color.RED,
        ts=datetime(1999, 1, 1, tzinfo=timezone.utc),
        dur=timedelta(seconds=-3),
        wrapped=0,
        data=b"d",
        ratio=1.5,
        rec=Outer(),
        i=2.5,
        opt_leaf=Leaf(x=4),
    )


def decoded():
    yield "dec empty", Outer().parse(b"")
    yield "dec unknown only", Outer().parse(UNKNOWN)
    yield "dec empty inner", Outer().parse(b"\x0a\x00")
    yield "dec inner w/ empty leaf", Outer().parse(b"\x0a\x02\x0a\x00")
    yield "dec inner w/ unknown", Outer().parse(
        b"\x0a" + bytes([len(UNKNOWN)]) + UNKNOWN + b"\x12\x01t"
    )
    yield "dec mixed unknown", Outer().parse(UNKNOWN + b"\x18\x00" + UNKNOWN)
    # field 2 (string) sent as varint -> kept as unknown
    yield "dec wrong wire type", Outer().parse(b"\x10\x05\x12\x02ok")
    yield "dec oneof last wins", Outer().parse(b"\x18\x01\x22\x01b")
    yield "dec oneof c empty", Outer().parse(b"\x2a\x00")
    yield "dec g2", Outer().parse(b"\x78\x00")
    for _, m in list(constructed()):
        yield "re-decoded", Outer().parse(bytes(m))


def from_dicts():
    yield "dict empty", Outer().from_dict({})
    yield "dict values", Outer().from_dict(
        {
            "inner": {"leaf": {"x": 1}, "nums": [1, 2], "tags": {"a": 1}},
            "title": "t",
            "b": "",
            "byName": {"k": {"s": "v"}},
            "opt": 0,
            "color": "BLUE",
            "wrapped": 0,
            "rec": {"rec": {}},
        }
    )
    yield "dict empty inner", Outer().from_dict({"inner": {}})
    yield "pydict", Outer().from_pydict(
        {"inner": {"name": "n"}, "title": "t", "a": 0, "byName": {"k": {"x": 1}}}
    )


def all_messages():
    yield from constructed()
    yield from decoded()
    yield from from_dicts()


OBSERVERS = [
    ("bytes", lambda m: bytes(m)),
    ("len", lambda m: len(m)),
    ("eq", lambda m: m == type(m)()),
    ("bool", lambda m: bool(m)),
    ("repr", lambda m: repr(m)),
    ("to_dict", lambda m: m.to_dict()),
    ("to_json", lambda m: m.to_json()),
    ("to_pydict", lambda m: m.to_pydict()),
    ("read inner", lambda m: getattr(m, "inner", None)),
    ("read inner.leaf", lambda m: m.inner.leaf.x),
    ("read inner.nums", lambda m: m.inner.nums),
    ("read inner.tags", lambda m: m.inner.tags),
    ("read by_name", lambda m: m.by_name),
    ("read rec.inner", lambda m: m.rec.inner.leaves),
    ("read title", lambda m: m.title),
    ("read wrapped", lambda m: m.wrapped),
    ("read ts", lambda m: (m.ts, m.dur)),
    ("is_set", lambda m: [m.is_set(f) for f in m._betterproto.meta_by_field_name]),
    ("which_one_of", lambda m: betterproto.which_one_of(m, "g")),
]


def state(m, depth=0):
    """Complete internal state of a message, recursively, as a printable value."""
    if isinstance(m, betterproto.Message):
        d = object.__getattribute__(m, "__dict__")
        fields = []
        for name in sorted(m._betterproto.meta_by_field_name):
            v = d.get(name, "<missing>")
            fields.append((name, "PLACEHOLDER" if v is PLACEHOLDER else state(v)))
        return (
            type(m).__name__,
            d["_serialized_on_wire"],
            d["_unknown_fields"],
            type(d["_unknown_fields"]).__name__,
            sorted(d["_group_current"].items(), key=repr),
            fields,
        )
    if isinstance(m, list):
        return [state(i) for i in m]
    if isinstance(m, dict):
        return [(k, state(v)) for k, v in m.items()]
    return repr(m)


def presence(m):
    return [m.is_set(f) for f in m._betterproto.meta_by_field_name]


digest = hashlib.sha256()


def record(*things):
    digest.update(repr(things).encode())


def mutables(m, path=()):
    """All mutable objects reachable from the raw field values of a message."""
    d = object.__getattribute__(m, "__dict__")
    for name in m._betterproto.meta_by_field_name:
        v = d[name]
        yield from _mutables_of(v, path + (name,))


def _mutables_of(v, path):
    if isinstance(v, betterproto.Message):
        yield path, v
        yield from mutables(v, path)
    elif isinstance(v, list):
        yield path, v
        for idx, i in enumerate(v):
            yield from _mutables_of(i, path + (idx,))
    elif isinstance(v, dict):
        yield path, v
        for k, i in v.items():
            yield from _mutables_of(i, path + (k,))


def mutate_everything(m):
    """Change a message as thoroughly as possible, in place."""
    for _, obj in list(mutables(m)):  # _ is the path
        if isinstance(obj, Leaf):
            obj.x += 1000
            obj.s += "!"
        elif isinstance(obj, Inner):
            obj.name += "?"
        elif isinstance(obj, list):
            obj.append(Leaf(x=77) if _[-1] == "leaves" else 77)
        elif isinstance(obj, dict):
            obj["added"] = Leaf(x=1) if _[-1] == "by_name" else 1
    m.title += "#"
    m.inner.nums.append(5)
    m.inner.leaf.x = 99
    m.by_name["new"] = Leaf(x=5)
    m.b = "switched"
    m.h = True
    m.opt = 12
    m.rec.title = "r"
    m.data = b"changed"


def check_one(label, m, rng):
    before_bytes = bytes(m) if rng.random() < 0.5 else None
    # a random sequence of observers first
    for name, obs in rng.sample(OBSERVERS, rng.randrange(0, len(OBSERVERS))):
        obs(m)
    if before_bytes is not None:
        assert bytes(m) == before_bytes, (label, "observer changed encoding")
    ref_bytes = bytes(m)
    ref_presence = presence(m)
    ref_dict = m.to_dict()
    ref_state = state(m)

    sh = copy.copy(m)
    dp = copy.deepcopy(m)
    pk = pickle.loads(pickle.dumps(m))
    for proto in range(pickle.HIGHEST_PROTOCOL + 1):
        assert bytes(pickle.loads(pickle.dumps(m, protocol=proto))) == ref_bytes

    # copying is itself an observer
    assert state(m) == ref_state, (label, "copying changed the original")

    for how, c in (("copy", sh), ("deepcopy", dp), ("pickle", pk)):
        assert type(c) is type(m) and c is not m
        assert c == m and m == c, (label, how)
        assert bytes(c) == ref_bytes, (label, how, bytes(c), ref_bytes)
        assert len(c) == len(ref_bytes), (label, how)
        assert c.to_dict() == ref_dict, (label, how)
        assert betterproto.which_one_of(c, "g")[0] == betterproto.which_one_of(m, "g")[0]
        assert betterproto.which_one_of(c, "g2")[0] == betterproto.which_one_of(m, "g2")[0]
        assert c._unknown_fields == m._unknown_fields, (label, how)
        record(label, how, state(c), bytes(c), repr(c), presence(c))

    # copy and deepcopy reproduce the whole internal state, not just the encoding
    assert state(sh) == ref_state, (label, "copy state")
    assert state(dp) == ref_state, (label, "deepcopy state")
    assert presence(sh) == ref_presence and presence(dp) == ref_presence
    assert sh._group_current is not m._group_current
    assert dp._group_current is not m._group_current

    # aliasing: shallow copy shares the field values, deep copy shares no mutable one
    m_objs = dict(mutables(m))
    sh_d = object.__getattribute__(sh, "__dict__")
    m_d = object.__getattribute__(m, "__dict__")
    for name in m._betterproto.meta_by_field_name:
        assert sh_d[name] is m_d[name], (label, name, "shallow copy must share")
    m_ids = {id(o) for o in m_objs.values()}
    for how, c in (("deepcopy", dp), ("pickle", pk)):
        for path, obj in mutables(c):
            assert id(obj) not in m_ids, (label, how, path, "shared with original")
    assert [p for p, _ in mutables(dp)] == list(m_objs), (label, "deepcopy shape")

    # mutating the deep / unpickled copy never affects the original
    for c in (dp, pk):
        mutate_everything(c)
        assert bytes(c) != ref_bytes
        assert bytes(m) == ref_bytes, (label, "original affected by copy mutation")
        assert state(m) == ref_state, (label, "original state affected")
    assert bytes(sh) == ref_bytes

    # and the other way round
    dp2 = copy.deepcopy(m)
    mutate_everything(m)
    assert bytes(dp2) == ref_bytes and state(dp2) == ref_state, label


def main():
    rng = random.Random(14)
    n = 0
    for round_ in range(6):
        for label, m in all_messages():
            check_one(f"{label}#{round_}", m, rng)
            n += 1

    # copies of copies, and of nested children taken on their own
    m = Outer().parse(UNKNOWN + b"\x0a\x00\x2a\x00")
    c = copy.copy(copy.deepcopy(copy.copy(m)))
    assert bytes(c) == bytes(m) == b"\x0a\x00\x2a\x00" + UNKNOWN
    assert state(c) == state(m)
    child = copy.deepcopy(m.inner)
    assert child._serialized_on_wire and bytes(Outer(inner=child)) == b"\x0a\x00"
    lazy = Outer()
    lazy_child = copy.deepcopy(lazy.inner)
    assert not lazy_child._serialized_on_wire
    _ = lazy.inner.leaf
    assert not copy.deepcopy(lazy.inner)._serialized_on_wire
    assert not copy.copy(lazy.inner)._serialized_on_wire
    assert bytes(copy.deepcopy(lazy)) == b""
    assert copy.copy(lazy).inner is lazy.inner
    record(state(c), state(child), state(copy.deepcopy(lazy)))

    # __copy__/__deepcopy__ accept (and ignore) a memo argument
    assert state(m.__deepcopy__({})) == state(m) == state(m.__copy__({}))
    assert state(m.__deepcopy__()) == state(m) == state(m.__copy__())
    # a list of messages is deep-copied element-wise through Message.__deepcopy__
    lst = [m, lazy]
    lst2 = copy.deepcopy(lst)
    assert [state(i) for i in lst2] == [state(i) for i in lst]
    assert all(a is not b for a, b in zip(lst, lst2))

    # subclass keeps its class
    @dataclass(eq=False, repr=False)
    class SubLeaf(Leaf):
        pass

    s = SubLeaf(x=1)
    assert type(copy.copy(s)) is SubLeaf and type(copy.deepcopy(s)) is SubLeaf

    got = digest.hexdigest()
    print(f"checked {n} message histories; digest {got}")
    assert got == EXPECTED_DIGEST, got


EXPECTED_DIGEST = "9c169ec26d0f732b218054327f16cd9ab3475fac63a4932e905a7303a98d6abf"

if __name__ == "__main__":
    main()
    print("OK")
