"""C07 keep1: behaviour that depends on the per-class metadata tables
(ProtoClassMetadata) - exercised through a reference model of oneof selection
over random operation histories, plus direct checks of the tables themselves.

Exits 0 on the pristine tree and with the refactor applied.
"""
import base64
import copy
import json
import pickle
import random
import struct
from dataclasses import dataclass
from typing import List

import betterproto
from betterproto import Casing, which_one_of


# --------------------------------------------------------------------------- schema
class Colour(betterproto.Enum):
    RED = 0
    GREEN = 1
    BLUE = 2


@dataclass(eq=False, repr=False)
class Empty(betterproto.Message):
    pass


@dataclass(eq=False, repr=False)
class Sub(betterproto.Message):
    val: int = betterproto.int32_field(1)


# Declaration order differs from field-number order, groups are interleaved with
# plain fields and with each other, one group has a single member.
@dataclass(eq=False, repr=False)
class Foo(betterproto.Message):
    name: str = betterproto.string_field(1)
    bar: int = betterproto.int32_field(12, group="g1")
    col: Colour = betterproto.enum_field(5, group="g2")
    baz: str = betterproto.string_field(3, group="g1")
    count: int = betterproto.int32_field(7)
    flag: bool = betterproto.bool_field(6, group="g2")
    sub: Sub = betterproto.message_field(4, group="g1")
    raw: bytes = betterproto.bytes_field(20, group="g1")
    dbl: float = betterproto.double_field(8, group="g2")
    sn: int = betterproto.sint64_field(9, group="g2")
    fx: int = betterproto.fixed32_field(10, group="g2")
    m1: Sub = betterproto.message_field(16, group="g3")
    m2: Empty = betterproto.message_field(17, group="g3")
    rep: List[int] = betterproto.int32_field(2)
    solo: int = betterproto.uint32_field(11, group="g4")
    address_line_1: str = betterproto.string_field(13)


DECLARED = ["name", "bar", "col", "baz", "count", "flag", "sub", "raw", "dbl", "sn",
            "fx", "m1", "m2", "rep", "solo", "address_line_1"]
NUMBER = {"name": 1, "bar": 12, "col": 5, "baz": 3, "count": 7, "flag": 6, "sub": 4,
          "raw": 20, "dbl": 8, "sn": 9, "fx": 10, "m1": 16, "m2": 17, "rep": 2,
          "solo": 11, "address_line_1": 13}
KIND = {"name": "string", "bar": "int32", "col": "enum", "baz": "string",
        "count": "int32", "flag": "bool", "sub": "Sub", "raw": "bytes",
        "dbl": "double", "sn": "sint64", "fx": "fixed32", "m1": "Sub", "m2": "Empty",
        "rep": "rep", "solo": "uint32", "address_line_1": "string"}
GROUP = {"bar": "g1", "baz": "g1", "sub": "g1", "raw": "g1",
         "col": "g2", "flag": "g2", "dbl": "g2", "sn": "g2", "fx": "g2",
         "m1": "g3", "m2": "g3", "solo": "g4"}
GROUPS = {}
for _n in DECLARED:
    if _n in GROUP:
        GROUPS.setdefault(GROUP[_n], []).append(_n)
PLAIN = [n for n in DECLARED if n not in GROUP]
CAMEL = {n: n for n in DECLARED}
CAMEL["address_line_1"] = "addressLine1"

DEFAULT = {"string": "", "int32": 0, "enum": Colour.RED, "bool": False,
           "bytes": b"", "double": 0.0, "sint64": 0, "fixed32": 0, "uint32": 0}
SAMPLES = {
    "string": ["", "x", "héllo", "a" * 130],
    "int32": [0, 1, -1, 127, 128, 2**31 - 1, -(2**31)],
    "enum": [Colour.RED, Colour.GREEN, Colour.BLUE],
    "bool": [False, True],
    "bytes": [b"", b"\x00", b"\xff\x00abc"],
    "double": [0.0, 1.5, -2.25, 1e300],
    "sint64": [0, -1, 1, 2**63 - 1, -(2**63)],
    "fixed32": [0, 1, 2**32 - 1],
    "uint32": [0, 1, 2**32 - 1],
}


def sample(rng, kind, default_bias=0.4):
    if kind == "Sub":
        return Sub() if rng.random() < default_bias else Sub(val=rng.choice([0, 3, -7]))
    if kind == "Empty":
        return Empty()
    if kind == "rep":
        return [rng.choice([0, 1, -1, 300]) for _ in range(rng.randrange(0, 4))]
    if rng.random() < default_bias:
        return DEFAULT[kind]
    return rng.choice(SAMPLES[kind])


# ------------------------------------------------------------------ independent codec
def varint(n):
    if n < 0:
        n += 1 << 64
    out = bytearray()
    while True:
        b = n & 0x7F
        n >>= 7
        if n:
            out.append(b | 0x80)
        else:
            out.append(b)
            return bytes(out)


def enc_value(kind, value):
    """(wire type, payload bytes) of one value."""
    if kind in ("int32", "uint32"):
        return 0, varint(value)
    if kind == "enum":
        return 0, varint(int(value))
    if kind == "bool":
        return 0, varint(1 if value else 0)
    if kind == "sint64":
        return 0, varint((value << 1) ^ (value >> 63))
    if kind == "double":
        return 1, struct.pack("<d", value)
    if kind == "fixed32":
        return 5, struct.pack("<I", value)
    if kind == "string":
        data = value.encode("utf-8")
    elif kind == "bytes":
        data = value
    elif kind == "Sub":
        data = enc_field(1, "int32", value.val) if value.val else b""
    elif kind == "Empty":
        data = b""
    else:
        raise AssertionError(kind)
    return 2, varint(len(data)) + data


def enc_field(number, kind, value):
    wt, payload = enc_value(kind, value)
    return varint((number << 3) | wt) + payload


def json_value(kind, value):
    if kind == "enum":
        return Colour(value).name
    if kind == "bytes":
        return base64.b64encode(value).decode("ascii")
    if kind == "sint64":
        return str(value)
    if kind == "Sub":
        return {"val": value.val} if value.val else {}
    if kind == "Empty":
        return {}
    return value


def split_fields(data):
    """Independent field-by-field decoder: list of (number, wire type, raw payload)."""
    out, i = [], 0

    def rv():
        nonlocal i
        n = shift = 0
        while True:
            b = data[i]
            i += 1
            n |= (b & 0x7F) << shift
            shift += 7
            if not b & 0x80:
                return n

    while i < len(data):
        key = rv()
        number, wt = key >> 3, key & 7
        start = i
        if wt == 0:
            rv()
        elif wt == 1:
            i += 8
        elif wt == 5:
            i += 4
        elif wt == 2:
            ln = rv()
            i += ln
        else:
            raise AssertionError(wt)
        assert i <= len(data)
        out.append((number, wt, data[start:i]))
    return out


# ----------------------------------------------------------------------------- model
class Model:
    def __init__(self):
        self.sel = {g: None for g in GROUPS}  # group -> (member, value) | None
        self.plain = {"name": "", "count": 0, "rep": [], "address_line_1": ""}

    def clone(self):
        new = Model()
        new.sel = dict(self.sel)
        new.plain = {k: (list(v) if isinstance(v, list) else v)
                     for k, v in self.plain.items()}
        return new

    def assign(self, name, value):
        if name in GROUP:
            self.sel[GROUP[name]] = (name, value)
        else:
            self.plain[name] = list(value) if isinstance(value, list) else value

    def present(self):
        """Fields on the wire / in JSON, in declaration order."""
        out = []
        for name in DECLARED:
            if name in GROUP:
                cur = self.sel[GROUP[name]]
                if cur is not None and cur[0] == name:
                    out.append((name, cur[1]))
            elif self.plain[name] not in ("", 0, []):
                out.append((name, self.plain[name]))
        return out

    def expected_bytes(self):
        out = b""
        for name, value in self.present():
            if name == "rep":
                packed = b"".join(varint(v) for v in value)
                out += varint((NUMBER[name] << 3) | 2) + varint(len(packed)) + packed
            else:
                out += enc_field(NUMBER[name], KIND[name], value)
        return out

    def expected_dict(self, keys):
        return {keys[name]: (list(value) if name == "rep"
                             else json_value(KIND[name], value))
                for name, value in self.present()}


def same_value(kind, got, want):
    if kind in ("Sub", "Empty"):
        return type(got) is type(want) and bytes(got) == bytes(want)
    if kind == "enum":
        return int(got) == int(want)
    return got == want


def check(msg, model, label):
    for group, members in GROUPS.items():
        cur = model.sel[group]
        name, value = which_one_of(msg, group)
        if cur is None:
            assert (name, value) == ("", None), (label, group, name, value)
        else:
            assert name == cur[0], (label, group, name, cur)
            assert same_value(KIND[name], value, cur[1]), (label, group, value, cur)
            assert same_value(KIND[name], getattr(msg, name), cur[1]), (label, group)
            assert msg.is_set(name), (label, name)
        for member in members:
            if cur is not None and cur[0] == member:
                continue
            try:
                getattr(msg, member)
            except AttributeError as exc:
                assert repr(group) in str(exc) and repr(member) in str(exc), str(exc)
            else:
                raise AssertionError((label, "readable unselected member", member))
            assert not hasattr(msg, member)
            assert not msg.is_set(member), (label, member)
    for name in PLAIN:
        assert getattr(msg, name) == model.plain[name], (label, name)

    data = bytes(msg)
    assert data == model.expected_bytes(), (label, data, model.expected_bytes())
    assert len(msg) == len(data), label
    numbers = [n for n, _, _ in split_fields(data)]
    for group, members in GROUPS.items():
        cur = model.sel[group]
        got = [m for m in members if NUMBER[m] in numbers]
        assert got == ([] if cur is None else [cur[0]]), (label, group, got)

    assert msg.to_dict() == model.expected_dict(CAMEL), (label, msg.to_dict())
    snake = msg.to_dict(casing=Casing.SNAKE)
    assert snake == model.expected_dict({n: n for n in DECLARED}), (label, snake)
    assert json.loads(msg.to_json()) == model.expected_dict(CAMEL), label
    pyd = msg.to_pydict(casing=Casing.SNAKE)
    assert set(pyd) == set(snake), (label, pyd)


# ------------------------------------------------------------------------ operations
def op_construct(rng, _msg, _model):
    model = Model()
    kwargs = {}
    for group, members in GROUPS.items():
        if rng.random() < 0.6:
            name = rng.choice(members)
            kwargs[name] = sample(rng, KIND[name])
    for name in PLAIN:
        if rng.random() < 0.4:
            kwargs[name] = sample(rng, KIND[name], 0.2)
    for name in DECLARED:  # declaration order: irrelevant, one member per group
        if name in kwargs:
            model.assign(name, kwargs[name])
    return Foo(**kwargs), model


def op_set_member(rng, msg, model):
    name = rng.choice(list(GROUP))
    value = sample(rng, KIND[name], 0.5)
    setattr(msg, name, value)
    model.assign(name, value)
    return msg, model


def op_set_plain(rng, msg, model):
    name = rng.choice(PLAIN)
    value = sample(rng, KIND[name], 0.3)
    setattr(msg, name, value)
    model.assign(name, value)
    return msg, model


def op_parse(rng, msg, model):
    """Bytes with 0..n members of any groups in any order, parsed into the
    existing message or into a fresh one."""
    fresh = rng.random() < 0.5
    if fresh:
        msg, model = Foo(), Model()
    data = b""
    for _ in range(rng.randrange(0, 6)):
        name = rng.choice(list(GROUP) + ["name", "count", "address_line_1"])
        value = sample(rng, KIND[name], 0.5)
        data += enc_field(NUMBER[name], KIND[name], value)
        model.assign(name, value)
    if fresh and rng.random() < 0.5:
        msg = Foo.FromString(data)
    else:
        assert msg.parse(data) is msg
    return msg, model


def one_member_dict(rng, keys):
    items = []
    for group, members in GROUPS.items():
        if rng.random() < 0.5:
            name = rng.choice(members)
            items.append((name, sample(rng, KIND[name], 0.5)))
    for name in ("name", "count", "address_line_1"):
        if rng.random() < 0.3:
            items.append((name, sample(rng, KIND[name], 0.2)))
    rng.shuffle(items)
    return items, {keys[n]: json_value(KIND[n], v) for n, v in items}


def op_from_dict_instance(rng, msg, model):
    keys = CAMEL if rng.random() < 0.5 else {n: n for n in DECLARED}
    items, payload = one_member_dict(rng, keys)
    if rng.random() < 0.5:
        assert msg.from_dict(payload) is msg
    else:
        assert msg.from_json(json.dumps(payload)) is msg
    for name, value in items:
        model.assign(name, value)
    return msg, model


def op_from_dict_class(rng, _msg, _model):
    items, payload = one_member_dict(rng, CAMEL)
    model = Model()
    for name, value in items:
        model.assign(name, value)
    return Foo.from_dict(payload), model


def op_copy(rng, msg, model):
    return copy.copy(msg), model.clone()


def op_deepcopy(rng, msg, model):
    return copy.deepcopy(msg), model.clone()


def op_pickle(rng, msg, model):
    return pickle.loads(pickle.dumps(msg)), model.clone()


def op_dict_roundtrip(rng, msg, model):
    return Foo.from_dict(msg.to_dict()), model.clone()


OPS = [op_construct, op_set_member, op_set_member, op_set_member, op_set_plain,
       op_parse, op_parse, op_from_dict_instance, op_from_dict_class, op_copy,
       op_deepcopy, op_pickle, op_dict_roundtrip]


def run_histories(seed, histories, length):
    rng = random.Random(seed)
    for h in range(histories):
        msg, model = op_construct(rng, None, None)
        check(msg, model, (seed, h, "construct"))
        kept = []
        for step in range(length):
            op = rng.choice(OPS)
            before, before_model = msg, model
            msg, model = op(rng, msg, model)
            check(msg, model, (seed, h, step, op.__name__))
            if msg is not before and op in (op_copy, op_deepcopy, op_pickle):
                kept.append((before, before_model.clone()))
        # originals of copies are not disturbed by what happened to the copies
        for old, old_model in kept[-3:]:
            check(old, old_model, (seed, h, "original after copy"))


# ------------------------------------------------------------------- metadata tables
def check_tables():
    meta = Foo._betterproto
    assert meta is Foo._betterproto  # cached
    assert list(meta.meta_by_field_name) == DECLARED
    for name, fm in meta.meta_by_field_name.items():
        assert fm.number == NUMBER[name]
        assert fm.group == GROUP.get(name)
    assert meta.oneof_group_by_field == GROUP
    assert list(meta.oneof_group_by_field) == [n for n in DECLARED if n in GROUP]
    assert list(meta.oneof_field_by_group) == ["g1", "g2", "g3", "g4"]
    for group, fields in meta.oneof_field_by_group.items():
        assert isinstance(fields, set)
        assert sorted(f.name for f in fields) == sorted(GROUPS[group])
        for f in fields:
            assert f is Foo.__dataclass_fields__[f.name]
    assert meta.field_name_by_number == {v: k for k, v in NUMBER.items()}
    assert list(meta.field_name_by_number) == [NUMBER[n] for n in DECLARED]
    assert meta.sorted_field_names == tuple(sorted(DECLARED, key=NUMBER.get))
    assert meta.field_name_by_key["addressLine1"] == "address_line_1"
    assert meta.field_name_by_key["address_line_1"] == "address_line_1"
    assert set(meta.default_gen) == set(DECLARED)
    assert meta.cls_by_field["sub"] is Sub and meta.cls_by_field["col"] is Colour

    # classes without groups / without fields
    for cls, names in ((Sub, ["val"]), (Empty, [])):
        m = cls._betterproto
        assert list(m.meta_by_field_name) == names
        assert m.oneof_group_by_field == {} and m.oneof_field_by_group == {}
        assert m.sorted_field_names == tuple(names)

    # groups whose members are declared last-to-first by number / interleaved
    @dataclass(eq=False, repr=False)
    class Base(betterproto.Message):
        z: int = betterproto.int32_field(9, group="k")
        y: str = betterproto.string_field(8, group="k")

    @dataclass(eq=False, repr=False)
    class Two(betterproto.Message):
        a: int = betterproto.int32_field(3, group="second")
        b: int = betterproto.int32_field(2, group="first")
        c: int = betterproto.int32_field(1, group="second")

    m = Two._betterproto
    assert list(m.oneof_field_by_group) == ["second", "first"]
    assert {f.name for f in m.oneof_field_by_group["second"]} == {"a", "c"}
    assert {f.name for f in m.oneof_field_by_group["first"]} == {"b"}
    assert m.sorted_field_names == ("c", "b", "a")
    t = Two(a=1, b=2)
    t.c = 0
    assert which_one_of(t, "second") == ("c", 0) and which_one_of(t, "first") == ("b", 2)
    assert bytes(t) == b"\x10\x02\x08\x00"
    assert t.to_dict() == {"b": 2, "c": 0}
    assert list(Base._betterproto.oneof_field_by_group) == ["k"]
    b = Base(y="")
    b.z = 0
    assert which_one_of(b, "k") == ("z", 0) and bytes(b) == b"\x48\x00"

    # a field without betterproto metadata is reported the same way
    @dataclass(eq=False, repr=False)
    class Broken(betterproto.Message):
        ok: int = betterproto.int32_field(1)
        bad: int = 0

    try:
        Broken._betterproto
    except KeyError as exc:
        assert exc.args == ("betterproto",)
    else:
        raise AssertionError("expected KeyError")


def check_fixed_sequences():
    # every member of every group, default and non-default, after every other member
    rng = random.Random(1234)
    for group, members in GROUPS.items():
        for first in members:
            for second in members:
                for bias1 in (1.0, 0.0):
                    for bias2 in (1.0, 0.0):
                        a = sample(rng, KIND[first], bias1)
                        b = sample(rng, KIND[second], bias2)
                        msg, model = Foo(), Model()
                        setattr(msg, first, a)
                        model.assign(first, a)
                        check(msg, model, ("fixed", first))
                        setattr(msg, second, b)
                        model.assign(second, b)
                        check(msg, model, ("fixed", first, second))
                        for clone in (copy.copy(msg), copy.deepcopy(msg),
                                      pickle.loads(pickle.dumps(msg)),
                                      Foo().parse(bytes(msg)),
                                      Foo.from_dict(msg.to_dict())):
                            check(clone, model, ("fixed clone", first, second))


if __name__ == "__main__":
    check_tables()
    check_fixed_sequences()
    for seed in range(12):
        run_histories(seed, histories=40, length=25)
    print("C07 keep1 equiv: OK")
