"""C11 keep2: the three TypingCompiler classes (plugin/typing_compiler.py), which the
service template asks for every Stub / Base signature annotation, for the return type of
``__mapping__`` and for the typing import block of the generated module, still produce
the same strings and the same import bookkeeping; the rendered modules are unchanged and
the generated stubs / bases still talk to each other under every typing option.
"""
import asyncio
import hashlib
import importlib
import itertools
import os
import sys
import tempfile

import grpclib
from grpclib.testing import ChannelFor

from betterproto.lib.google.protobuf import FileDescriptorSet
from betterproto.lib.google.protobuf.compiler import CodeGeneratorRequest
from betterproto.plugin import compiler as plugin_compiler
from betterproto.plugin import parser as plugin_parser
from betterproto.plugin.models import monkey_patch_oneof_index
from betterproto.plugin.parser import generate_code

plugin_compiler.subprocess.check_output = lambda cmd, input, encoding: input
monkey_patch_oneof_index()
_counter = itertools.count()


def descriptor_set(protos):
    import grpc_tools
    from grpc_tools import protoc

    with tempfile.TemporaryDirectory() as tmp:
        for name, text in protos.items():
            with open(os.path.join(tmp, name), "w") as fh:
                fh.write(text)
        out = os.path.join(tmp, "set.bin")
        include = os.path.join(os.path.dirname(grpc_tools.__file__), "_proto")
        rc = protoc.main(
            ["protoc", f"-I{tmp}", f"-I{include}", "--include_imports",
             "--include_source_info", f"--descriptor_set_out={out}", *protos]
        )
        assert rc == 0, "protoc failed"
        with open(out, "rb") as fh:
            return fh.read()


def run_plugin(fds_bytes, names, parameter=""):
    fds = FileDescriptorSet().parse(fds_bytes)  # fresh objects: traverse() renames
    request = CodeGeneratorRequest(
        file_to_generate=list(names), parameter=parameter, proto_file=fds.file
    )
    stderr, sys.stderr = sys.stderr, open(os.devnull, "w")
    try:
        return generate_code(request)
    finally:
        sys.stderr.close()
        sys.stderr = stderr


def load(files):
    root_name = f"gen_c11_keep2_{next(_counter)}"
    tmp = tempfile.mkdtemp()
    root = os.path.join(tmp, root_name)
    os.makedirs(root)
    for name, code in files.items():
        path = os.path.join(root, name)
        os.makedirs(os.path.dirname(path), exist_ok=True)
        with open(path, "w") as fh:
            fh.write(code)
    sys.path.insert(0, tmp)
    importlib.invalidate_caches()
    mods = {}
    for name in files:
        parts = [p for p in os.path.dirname(name).split(os.sep) if p]
        mods[".".join(parts)] = importlib.import_module(".".join([root_name, *parts]))
    return mods


PROTOS = {
    "a1.proto": """
syntax = "proto3";
package alpha;
// request
message Req { int32 n = 1; string s = 2; }
message Rep { int32 n = 1; repeated string items = 2; }
service First_service {
  rpc UnaryUnary(Req) returns (Rep);
  rpc UnaryStream(Req) returns (stream Rep);
  rpc StreamUnary(stream Req) returns (Rep);
  rpc StreamStream(stream Req) returns (stream Rep);
}
""",
    "a2.proto": """
syntax = "proto3";
package alpha;
import "a1.proto";
import "b.proto";
import "google/protobuf/empty.proto";
import "google/protobuf/wrappers.proto";
import "google/protobuf/timestamp.proto";
service Second {
  rpc GetHTTPStatus(google.protobuf.Empty) returns (google.protobuf.StringValue);
  rpc do_thing(alpha.beta.v1.Thing) returns (stream alpha.beta.v1.Thing);
  rpc Import(stream google.protobuf.Timestamp) returns (Rep);
  rpc Unimplemented(Req) returns (Rep);
  rpc UnimplementedStream(Req) returns (stream Rep);
}
service Third { rpc Ping(Req) returns (Req); }
""",
    "b.proto": """
syntax = "proto3";
package alpha.beta.v1;
message Thing { string name = 1; Kind kind = 2; }
enum Kind { KIND_UNKNOWN = 0; KIND_GOOD = 1; }
service Things { rpc Rename(Thing) returns (Thing); }
""",
    "root.proto": """
syntax = "proto3";
import "a1.proto";
message Bare { bool flag = 1; }
service Rootless { rpc Flip(Bare) returns (Bare); rpc Up(stream alpha.Req) returns (stream Bare); }
""",
}
NAMES = list(PROTOS)
FDS = descriptor_set(PROTOS)

# ---------------------------------------------------------------- unit level
import collections.abc
import random
import typing

from betterproto.plugin.typing_compiler import (
    DirectImportTypingCompiler,
    NoTyping310TypingCompiler,
    TypingCompiler,
    TypingImportTypingCompiler,
)

GENERICS = {  # method -> (typing name, builtin / abc spelling used by typing.310)
    "optional": "Optional", "list": "List", "dict": "Dict", "union": "Union",
    "iterable": "Iterable", "async_iterable": "AsyncIterable",
    "async_iterator": "AsyncIterator",
}


def unq(t):
    return t[1:-1] if t.startswith('"') else t


def spec(kind, method, args):
    """(expected text, import recorded) -- written out from the documented behaviour."""
    name = GENERICS[method]
    if kind == "direct":
        return f"{name}[{', '.join(args)}]", ("typing", name)
    if kind == "root":
        return f"typing.{name}[{', '.join(args)}]", ("typing", None)
    if method == "optional":
        return f'"{unq(args[0])} | None"', None
    if method == "list":
        return f'"list[{unq(args[0])}]"', None
    if method == "dict":
        return f'"dict[{args[0]}, {unq(args[1])}]"', None
    if method == "union":
        return '"' + " | ".join(unq(a) for a in args) + '"', None
    return f'"{name}[{args[0]}]"', ("collections.abc", name)


def spec_import_lines(imports):
    lines = []
    for module, names in imports.items():
        if names is None:
            lines.append(f"import {module}")
        else:
            lines += [f"from {module} import (", *[f"    {n}," for n in sorted(names)], ")"]
    return lines


KINDS = {"direct": DirectImportTypingCompiler, "root": TypingImportTypingCompiler,
         "310": NoTyping310TypingCompiler}
TYPES = ["str", "int", "bytes", '"Req"', '"__other_pkg__.Thing"', "Req", "",
         '"', '""', 'a"b', '"Deadline"', '"MetadataLike"', "float", "grpclib.const.Handler",
         "betterproto_lib_google_protobuf.Empty", "List[int]", '"list[int]"',
         "Dict[str, int]", '"AsyncIterator[Rep]"', "typing.Optional[str]", " spaced ", "é"]

rng = random.Random(1234)
checked = 0
for kind, cls in KINDS.items():
    # fresh compiler: nothing imported, no lines
    c = cls()
    assert isinstance(c, TypingCompiler)
    assert c.imports() == {} and list(c.import_lines()) == []
    # every method on its own, every type string
    for method in GENERICS:
        for t in TYPES:
            for u in TYPES if method == "dict" else [None]:
                c = cls()
                args = (t, u) if method == "dict" else (t,)
                text, imp = spec(kind, method, args)
                assert getattr(c, method)(*args) == text, (kind, method, args)
                want = {} if imp is None else {imp[0]: None if imp[1] is None else {imp[1]}}
                assert c.imports() == want, (kind, method, c.imports())
                assert list(c.import_lines()) == spec_import_lines(want)
                checked += 1
    # union arities 0..4
    for n in range(5):
        for _ in range(20):
            args = tuple(rng.choice(TYPES) for _ in range(n))
            c = cls()
            assert c.union(*args) == spec(kind, "union", args)[0], (kind, args)
            checked += 1
    # random call sequences on one object: accumulated imports and the lines
    for _ in range(300):
        c = cls()
        want = {}
        lazy = c.import_lines()  # a generator: sees what is recorded before iteration
        for _ in range(rng.randrange(0, 12)):
            method = rng.choice(list(GENERICS))
            if method == "dict":
                args = (rng.choice(TYPES), rng.choice(TYPES))
            elif method == "union":
                args = tuple(rng.choice(TYPES) for _ in range(rng.randrange(0, 4)))
            else:
                args = (rng.choice(TYPES),)
            text, imp = spec(kind, method, args)
            assert getattr(c, method)(*args) == text
            if imp is not None:
                if imp[1] is None:
                    want[imp[0]] = None
                else:
                    want.setdefault(imp[0], set()).add(imp[1])
            got = c.imports()
            assert got == want and list(got) == list(want), (kind, got, want)
            assert all(v is None or (isinstance(v, set) and v) for v in got.values())
            assert list(c.import_lines()) == spec_import_lines(want)
            checked += 1
        assert list(lazy) == spec_import_lines(want)
        assert list(lazy) == []  # exhausted iterator
        assert iter(lazy) is lazy
    # keyword call forms used nowhere else but allowed by the signatures
    c = cls()
    assert c.optional(type="str") == spec(kind, "optional", ("str",))[0]
    assert c.dict(key="str", value='"V"') == spec(kind, "dict", ("str", '"V"'))[0]
    # two compilers do not share bookkeeping
    a, b = cls(), cls()
    a.async_iterator("X"); a.optional("X")
    assert b.imports() == {}
assert DirectImportTypingCompiler()._imports == {} and NoTyping310TypingCompiler()._imports == {}
d = DirectImportTypingCompiler()
d.optional("int")
assert d.imports()["typing"] is d._imports["typing"]  # the live set, as before
d._imports["os"]  # a module touched without a name is imported whole
assert d.imports() == {"typing": {"Optional"}, "os": None}
assert list(d.import_lines()) == ["from typing import (", "    Optional,", ")", "import os"]
assert TypingImportTypingCompiler(_imported=True).imports() == {"typing": None}
assert NoTyping310TypingCompiler._fmt('"x"') == "x" and NoTyping310TypingCompiler._fmt("x") == "x"
assert NoTyping310TypingCompiler._fmt("") == "" and NoTyping310TypingCompiler._fmt('"') == ""

# the produced annotations really denote the typing constructs, with exactly the imports
# the compiler asks for
for kind, cls in KINDS.items():
    c = cls()
    exprs = {
        "optional": c.optional("int"), "list": c.list("int"), "dict": c.dict("str", "int"),
        "union": c.union("str", "int"), "iterable": c.iterable("int"),
        "async_iterable": c.async_iterable("int"), "async_iterator": c.async_iterator("int"),
        "nested": c.optional(c.list("int")),
        "stream": c.union(c.async_iterable('"Req"'), c.iterable('"Req"')),
    }
    ns = {"Req": int}
    exec("\n".join(c.import_lines()), ns)
    val = {k: eval(unq(v) if kind == "310" else v, ns) for k, v in exprs.items()}
    if kind == "310":
        assert val["optional"] == (int | None) and val["list"] == list[int]
        assert val["dict"] == dict[str, int] and val["union"] == (str | int)
        assert val["iterable"] == collections.abc.Iterable[int]
        assert val["async_iterable"] == collections.abc.AsyncIterable[int]
        assert val["async_iterator"] == collections.abc.AsyncIterator[int]
        assert exprs["nested"] == '"list[int] | None"'
        assert exprs["stream"] == '"AsyncIterable["Req"] | Iterable["Req"]"'
    else:
        assert val["optional"] == typing.Optional[int] and val["list"] == typing.List[int]
        assert val["dict"] == typing.Dict[str, int] and val["union"] == typing.Union[str, int]
        assert val["iterable"] == typing.Iterable[int]
        assert val["async_iterable"] == typing.AsyncIterable[int]
        assert val["async_iterator"] == typing.AsyncIterator[int]
        assert val["nested"] == typing.Optional[typing.List[int]]
        assert val["stream"] == typing.Union[
            typing.AsyncIterable[typing.ForwardRef("Req")], typing.Iterable[typing.ForwardRef("Req")]]
print(f"typing compilers agree with the reference on {checked} calls")

# the lines of the generated service module that come from the typing compiler
MARKERS = {
    "": ['req_iterator: "Union[AsyncIterable[Req], Iterable[Req]]"',
         "timeout: Optional[float] = None", 'deadline: Optional["Deadline"] = None',
         'metadata: Optional["MetadataLike"] = None', '-> "AsyncIterator[Rep]":',
         "req_iterator: AsyncIterator[Req]) -> AsyncIterator[Rep]:",
         "def __mapping__(self) -> Dict[str, grpclib.const.Handler]:",
         "from typing import (\n    AsyncIterable,\n    AsyncIterator,\n    Dict,\n    Iterable,\n    List,\n    Optional,\n    Union,\n)"],
    "typing.root": ['req_iterator: "typing.Union[typing.AsyncIterable[Req], typing.Iterable[Req]]"',
                    "timeout: typing.Optional[float] = None",
                    'deadline: typing.Optional["Deadline"] = None',
                    '-> "typing.AsyncIterator[Rep]":',
                    "req_iterator: typing.AsyncIterator[Req]) -> typing.AsyncIterator[Rep]:",
                    "def __mapping__(self) -> typing.Dict[str, grpclib.const.Handler]:",
                    "\nimport typing\n"],
    "typing.310": ['req_iterator: "AsyncIterable[Req] | Iterable[Req]"',
                   'timeout: "float | None" = None', 'deadline: "Deadline | None" = None',
                   'metadata: "MetadataLike | None" = None', '-> "AsyncIterator[Rep]":',
                   'req_iterator: "AsyncIterator[Req]") -> "AsyncIterator[Rep]":',
                   'def __mapping__(self) -> "dict[str, grpclib.const.Handler]":',
                   "from collections.abc import (\n    AsyncIterable,\n    AsyncIterator,\n    Iterable,\n)"],
}
for parameter, markers in MARKERS.items():
    code = {f.name: f.content for f in run_plugin(FDS, NAMES, parameter).file}["alpha/__init__.py"]
    for marker in markers:
        assert marker in code, (parameter, marker)
    if parameter:
        assert "from typing import (" not in code
print("generated service signatures carry the expected annotations")

# ---------------------------------------------------------------- rendered text
DIGESTS = {
    "": "d9a4f9fa39aa2c64fd6dce316e30caef131fa8afe295c4946b4e03284ef6a309",
    "typing.direct": "d9a4f9fa39aa2c64fd6dce316e30caef131fa8afe295c4946b4e03284ef6a309",
    "typing.root": "fd82f608a9b23889df3c9c64440fdd0bd4b49487ba5e711213b4247b62ba89d2",
    "typing.310": "11f52741b38197fbf094bd28e7c16abed9eb5c5a2eca895032a674b7fb975d42",
    "pydantic_dataclasses": "b30324036c261c352b2b9ca5b794afa0f86b4193f7284e7f64ad3c3c3df9bc7f",
    "typing.310,pydantic_dataclasses,INCLUDE_GOOGLE": "7c9dd8380dca0405c12bbca87d407a28aa08bd75d8a0526921206d15d3d848c4",
    "typing.bogus,INCLUDE_GOOGLE": "5600712df40fbcbf45e922ad694519b206f91863f038c7aa61982c93501408c1",
}


def digest(parameter):
    h = hashlib.sha256()
    files = list(run_plugin(FDS, NAMES, parameter).file)
    rendered = [f.name for f in files if f.content]
    # rendered packages come first, in request order; the empty __init__ files that
    # follow are emitted from a set
    assert rendered == [f.name for f in files[: len(rendered)]]
    assert rendered[:2] == ["alpha/__init__.py", "alpha/beta/v1/__init__.py"]
    for f in files[: len(rendered)] + sorted(files[len(rendered) :], key=lambda f: f.name):
        # the cross-package imports are emitted from a set (hash-seed dependent order):
        # keep everything else in order and append those lines sorted
        lines = f.content.split("\n")
        floating = [ln for ln in lines if ln.startswith(("from .", "import betterproto."))]
        fixed = [ln for ln in lines if ln not in floating]
        content = "\n".join(fixed + sorted(floating))
        h.update(f.name.encode() + b"\0" + content.encode() + b"\0")
    return h.hexdigest()


if "--print-digests" in sys.argv:
    for parameter in DIGESTS:
        print(repr(parameter), digest(parameter))
    sys.exit(0)
for parameter, want in DIGESTS.items():
    assert digest(parameter) == want, f"rendered output changed for {parameter!r}"
assert DIGESTS[""] == DIGESTS["typing.direct"]
print("rendered modules byte-identical to the recorded ones")


# ---------------------------------------------------------------- the services still work
async def exercise(parameter):
    files = {f.name: f.content for f in run_plugin(FDS, NAMES, parameter).file}
    mods = load(files)
    alpha, beta, root = mods["alpha"], mods["alpha.beta.v1"], mods[""]
    import betterproto.lib.google.protobuf as pb
    if "pydantic_dataclasses" in parameter:
        import betterproto.lib.pydantic.google.protobuf as pb
    Req, Rep = alpha.Req, alpha.Rep
    log = []

    class First(alpha.FirstServiceBase):
        async def unary_unary(self, req):
            log.append(("uu", req))
            return Rep(n=req.n * 2, items=[req.s])

        async def unary_stream(self, req):
            log.append(("us", req))
            for i in range(req.n):
                yield Rep(n=i, items=[req.s] * i)

        async def stream_unary(self, req_iterator):
            got = [r async for r in req_iterator]
            log.append(("su", got))
            return Rep(n=len(got), items=[r.s for r in got])

        async def stream_stream(self, req_iterator):
            got = []
            log.append(("ss", got))
            async for r in req_iterator:
                got.append(r)
                yield Rep(n=r.n, items=[r.s])
            yield Rep(n=-1)

    class Second(alpha.SecondBase):
        async def get_http_status(self, betterproto_lib_google_protobuf_empty):
            log.append(("status", betterproto_lib_google_protobuf_empty))
            return pb.StringValue(value="200 OK")

        async def do_thing(self, alpha_beta_v1_thing):
            log.append(("thing", alpha_beta_v1_thing))
            yield beta.Thing(name=alpha_beta_v1_thing.name + "!", kind=beta.Kind.GOOD)
            raise grpclib.GRPCError(grpclib.const.Status.DATA_LOSS, "half way")

        async def import_(self, it):
            got = [r async for r in it]
            log.append(("import", got))
            return Rep(n=sum(t.seconds for t in got))

    class Third(alpha.ThirdBase):
        async def ping(self, req):
            log.append(("ping", req))
            raise grpclib.GRPCError(grpclib.const.Status.NOT_FOUND, "no " + req.s)

    class Things(beta.ThingsBase):
        async def rename(self, thing):
            log.append(("rename", thing))
            return beta.Thing(name=thing.name.upper(), kind=thing.kind)

    class Rootless(root.RootlessBase):
        async def flip(self, bare):
            log.append(("flip", bare))
            return root.Bare(flag=not bare.flag)

        async def up(self, it):
            async for r in it:
                log.append(("up", r))
                yield root.Bare(flag=bool(r.n % 2))

    async with ChannelFor([First(), Second(), Third(), Things(), Rootless()]) as ch:
        first = alpha.FirstServiceStub(ch)
        for n in range(4):
            reqs = [Req(n=i, s=f"s{i}") for i in range(n)]
            log.clear()
            assert await first.unary_unary(Req(n=n, s="x")) == Rep(n=2 * n, items=["x"])
            assert [r async for r in first.unary_stream(Req(n=n, s="y"))] == [
                Rep(n=i, items=["y"] * i) for i in range(n)]
            assert await first.stream_unary(reqs) == Rep(n=n, items=[r.s for r in reqs])
            assert [r async for r in first.stream_stream(iter(reqs))] == [
                Rep(n=r.n, items=[r.s]) for r in reqs] + [Rep(n=-1)]
            assert log == [("uu", Req(n=n, s="x")), ("us", Req(n=n, s="y")),
                           ("su", reqs), ("ss", reqs)], log
        log.clear()
        second = alpha.SecondStub(ch)
        assert await second.get_http_status(pb.Empty()) == pb.StringValue(value="200 OK")
        got = []
        try:
            async for t in second.do_thing(beta.Thing(name="a")):
                got.append(t)
        except grpclib.GRPCError as exc:
            assert exc.status is grpclib.const.Status.DATA_LOSS and exc.message == "half way"
        else:
            raise AssertionError("no error")
        assert got == [beta.Thing(name="a!", kind=beta.Kind.GOOD)]
        stamps = [pb.Timestamp(seconds=s, nanos=s) for s in (1, 20, 300)]
        assert await second.import_(stamps) == Rep(n=321)
        for call in (lambda: second.unimplemented(Req()),
                     lambda: second.unimplemented_stream(Req()).__anext__()):
            try:
                await call()
            except grpclib.GRPCError as exc:
                assert exc.status is grpclib.const.Status.UNIMPLEMENTED
            else:
                raise AssertionError("no error")
        try:
            await alpha.ThirdStub(ch).ping(Req(s="such thing"))
        except grpclib.GRPCError as exc:
            assert exc.status is grpclib.const.Status.NOT_FOUND
            assert exc.message == "no such thing"
        else:
            raise AssertionError("no error")
        assert await beta.ThingsStub(ch).rename(beta.Thing(name="ab", kind=beta.Kind.GOOD)) == \
            beta.Thing(name="AB", kind=beta.Kind.GOOD)
        rootless = root.RootlessStub(ch)
        assert await rootless.flip(root.Bare()) == root.Bare(flag=True)
        ups = [Req(n=i) for i in (1, 2, 3)]
        assert [b async for b in rootless.up(ups)] == [
            root.Bare(flag=True), root.Bare(flag=False), root.Bare(flag=True)]
        assert log == [("status", pb.Empty()), ("thing", beta.Thing(name="a")),
                       ("import", stamps), ("ping", Req(s="such thing")),
                       ("rename", beta.Thing(name="ab", kind=beta.Kind.GOOD)),
                       ("flip", root.Bare()), *[("up", r) for r in ups]], log


for parameter in ("", "typing.direct", "typing.root", "typing.310", "typing.bogus",
                  "pydantic_dataclasses", "typing.310,pydantic_dataclasses"):
    asyncio.run(asyncio.wait_for(exercise(parameter), 60))
    print(f"generated services work with parameter {parameter!r}")
print("C11 keep2 equivalence checks passed")
