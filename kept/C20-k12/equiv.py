"""C20 / keep2: decode_varint - the buffer varint reader every packed repeated enum number
(and every tag/length seen by parse_fields) goes through.  Values, positions and the
exceptions for truncated / over-long input are compared with an oracle written here,
with load_varint, with google.protobuf's decoder, and end to end through messages with
enum fields (defined, undefined, negative numbers; packed runs, several chunks)."""
import copy
import io
import pickle
import random
from dataclasses import dataclass
from typing import Dict, List, Optional

import betterproto
from betterproto import decode_varint, encode_varint, load_varint, parse_fields

random.seed(2020)

EOF_MSG = "Stream ended unexpectedly while attempting to load varint."
LONG_MSG = "Too many bytes when decoding varint."


# ---------------------------------------------------------------------------
# 1. the function itself
# ---------------------------------------------------------------------------
def oracle(buffer, pos):
    """Specification: up to ten 7-bit groups, little endian; an eleventh byte is an
    error (even before looking whether it exists); running out of data is EOFError."""
    result, shift = 0, 0
    while True:
        if shift >= 64:
            return ValueError, LONG_MSG
        if pos >= len(buffer):
            return EOFError, EOF_MSG
        b = buffer[pos]
        pos += 1
        result |= (b & 0x7F) << shift
        shift += 7
        if not b & 0x80:
            return result, pos


def via_stream(buffer, pos):
    stream = io.BytesIO(buffer)
    stream.seek(pos)
    try:
        value, raw = load_varint(stream)
    except (EOFError, ValueError) as e:
        return type(e), str(e)
    return value, pos + len(raw)


def observed(buffer, pos):
    try:
        out = decode_varint(buffer, pos)
    except (EOFError, ValueError) as e:
        return type(e), str(e)
    assert type(out) is tuple and len(out) == 2
    assert type(out[0]) is int and type(out[1]) is int
    return out


def check(buffer, pos):
    got = observed(buffer, pos)
    assert got == oracle(buffer, pos), (buffer, pos, got, oracle(buffer, pos))
    assert got == via_stream(buffer, pos), (buffer, pos, got, via_stream(buffer, pos))
    return got


INT32 = [0, 1, -1, 2, -2, -3, 5, -7, 63, 64, 127, 128, 129, 255, 256, 16383, 16384,
         2097151, 2097152, 268435455, 268435456, 2147483646, 2147483647,
         -2147483647, -2147483648, -128, -129, -16384]
INT32 += [random.randint(-(2**31), 2**31 - 1) for _ in range(300)]
UNSIGNED = [0, 1, 127, 128, 2**14 - 1, 2**14, 2**21, 2**28, 2**31, 2**32 - 1, 2**32,
            2**35, 2**42, 2**49, 2**56 - 1, 2**56, 2**63 - 1, 2**63, 2**64 - 1]
UNSIGNED += [random.getrandbits(random.randint(1, 64)) for _ in range(300)]

# round trip of every number an enum field can hold, at several offsets
for n in INT32 + UNSIGNED:
    enc = encode_varint(n)
    want = n if n >= 0 else n + 2**64
    for prefix, suffix in ((b"", b""), (b"\x00", b""), (b"\xff\xff\x01", b"\x80"), (b"\x85" * 9, b"\x05" * 3)):
        buf = prefix + enc + suffix
        assert check(buf, len(prefix)) == (want, len(prefix) + len(enc))
        for other in (bytearray(buf), memoryview(buf)):
            assert decode_varint(other, len(prefix)) == (want, len(prefix) + len(enc))
    # every truncation of the encoding ends in EOFError
    for cut in range(len(enc)):
        assert check(enc[:cut], 0) == (EOFError, EOF_MSG)
        assert check(b"\x01" + enc[:cut], 1) == (EOFError, EOF_MSG)

# positions at and past the end
for buf in (b"", b"\x00", b"\x80", b"\x7f\x80"):
    for pos in range(0, len(buf) + 4):
        check(buf, pos)
assert check(b"", 0) == (EOFError, EOF_MSG)
assert check(b"\x05", 1) == (EOFError, EOF_MSG)
assert check(b"\x05", 7) == (EOFError, EOF_MSG)

# length boundaries: ten bytes are fine, the eleventh is one too many
for k in range(1, 14):
    for last in (b"\x00", b"\x01", b"\x7f"):
        buf = b"\x80" * (k - 1) + last
        got = check(buf, 0)
        if k <= 10:
            assert got == ((last[0] & 0x7F) << (7 * (k - 1)), k)
        else:
            assert got == (ValueError, LONG_MSG)
    run = b"\xff" * k  # continuation bit everywhere
    assert check(run, 0) == ((EOFError, EOF_MSG) if k < 10 else (ValueError, LONG_MSG))
    assert check(run + b"\x00", 0)[0] == (ValueError if k >= 10 else 2 ** (7 * k) - 1)
# the tenth byte is not masked: bits above 2**64 are kept as they are
assert check(b"\xff" * 9 + b"\x7f", 0) == (2**70 - 1, 10)
assert check(b"\x80" * 9 + b"\x02", 0) == (2**64, 10)
assert check(b"\xff" * 9 + b"\x01", 0) == (2**64 - 1, 10)

# random buffers, every start position
for _ in range(3000):
    size = random.randint(0, 24)
    kind = random.random()
    if kind < 0.3:
        buf = bytes(random.choice((0x80, 0xFF, 0x81)) for _ in range(size))
    elif kind < 0.6:
        buf = bytes(random.getrandbits(8) | (0x80 if random.random() < 0.8 else 0) for _ in range(size))
    else:
        buf = bytes(random.getrandbits(8) for _ in range(size))
    for pos in range(size + 2):
        check(buf, pos)

# walking over a concatenation yields the numbers back one by one
numbers = INT32 + UNSIGNED
random.shuffle(numbers)
blob = b"".join(encode_varint(n) for n in numbers)
pos, seen = 0, []
while pos < len(blob):
    value, new_pos = decode_varint(blob, pos)
    assert new_pos > pos
    seen.append(value)
    pos = new_pos
assert pos == len(blob)
assert seen == [n if n >= 0 else n + 2**64 for n in numbers]

# google.protobuf's pure-python varint codec agrees on all 64-bit values
from google.protobuf.internal import decoder as g_decoder, encoder as g_encoder

for n in UNSIGNED:
    data = g_encoder._VarintBytes(n)
    assert data == encode_varint(n)
    assert decode_varint(b"\x00" + data, 1) == g_decoder._DecodeVarint(b"\x00" + data, 1) == (n, 1 + len(data))
for n in INT32:
    data = g_encoder._SignedVarintEncoder()
    out = []
    data(out.append, n)
    data = b"".join(out)
    assert data == encode_varint(n)
    value, end = decode_varint(data, 0)
    assert (value - 2**64 if value >= 2**63 else value, end) == g_decoder._DecodeSignedVarint(data, 0) == (n, len(data))

# parse_fields is built on decode_varint
truncated_seen = 0
for n in INT32[:60]:
    payload = b"".join(encode_varint(x) for x in (n, 1, n))
    raw = (
        encode_varint(1 << 3) + encode_varint(n)
        + encode_varint((2 << 3) | 2) + encode_varint(len(payload)) + payload
        + encode_varint((300 << 3) | 5) + b"abcd"
        + encode_varint((2**29 - 1) << 3 | 1) + b"12345678"
    )
    fields = list(parse_fields(raw))
    assert [(f.number, f.wire_type) for f in fields] == [(1, 0), (2, 2), (300, 5), (2**29 - 1, 1)]
    assert fields[0].value == (n if n >= 0 else n + 2**64)
    assert fields[1].value == payload and fields[2].value == b"abcd" and fields[3].value == b"12345678"
    assert b"".join(f.raw for f in fields) == raw
    head = len(encode_varint(1 << 3)) + len(encode_varint(n))
    for cut in sorted({1, head - 1}):  # inside the first field's value varint
        try:
            list(parse_fields(raw[:cut]))
        except EOFError as e:
            assert str(e) == EOF_MSG
            truncated_seen += 1
        else:
            raise AssertionError("truncated input accepted")
assert truncated_seen >= 60


# ---------------------------------------------------------------------------
# 2. enum numbers in repeated (packed) position and their neighbours
# ---------------------------------------------------------------------------
class Colour(betterproto.Enum):
    BLACK = 0
    RED = 1
    CRIMSON = 1  # alias
    COLD = -3
    TOP = 2147483647
    BOTTOM = -2147483648


class NoZero(betterproto.Enum):
    FIVE = 5
    MINUS = -7


@dataclass(eq=False, repr=False)
class Msg(betterproto.Message):
    single: Colour = betterproto.enum_field(1)
    many: List[Colour] = betterproto.enum_field(2)
    by_key: Dict[str, Colour] = betterproto.map_field(3, betterproto.TYPE_STRING, betterproto.TYPE_ENUM)
    maybe: Optional[Colour] = betterproto.enum_field(4, optional=True)
    pick_a: Colour = betterproto.enum_field(5, group="pick")
    pick_b: Colour = betterproto.enum_field(6, group="pick")
    others: List[NoZero] = betterproto.enum_field(7)
    ints: List[int] = betterproto.int32_field(9)
    zig: List[int] = betterproto.sint32_field(10)
    flags: List[bool] = betterproto.bool_field(11)


def expect_value(got, enum_cls, n):
    assert type(got) is enum_cls and got == n and int(got) == n and got.value == n
    if n in enum_cls._value_map_:
        assert got is enum_cls(n) and got is enum_cls[got.name]
        assert got is enum_cls.from_string(got.name) and got is enum_cls.try_value(n)
        assert got is copy.copy(got) and got is copy.deepcopy(got)
        clone = pickle.loads(pickle.dumps(got))
        assert (clone.name, clone.value) == (got.name, got.value)
    else:
        assert got.name is None


def packed(number, values):
    payload = b"".join(encode_varint(v) for v in values)
    return encode_varint((number << 3) | 2) + encode_varint(len(payload)) + payload


broken_runs = 0
for start in range(0, len(INT32), 7):
    run = INT32[start : start + 7]
    msg = Msg(single=run[0], many=list(run), others=list(run), ints=list(run),
              zig=list(run), flags=[n % 2 == 0 for n in run], by_key={"k": run[-1]},
              maybe=run[0], pick_b=run[-1])
    data = bytes(msg)
    assert packed(2, run) in data and packed(7, run) in data
    back = Msg().parse(data)
    assert back == msg and bytes(back) == data
    assert len(back.many) == len(back.others) == len(run)
    for got_c, got_n, n in zip(back.many, back.others, run):
        expect_value(got_c, Colour, n)
        expect_value(got_n, NoZero, n)
    assert back.ints == list(run) and back.zig == list(run)
    assert all(type(x) is int for x in back.ints + back.zig)
    assert back.flags == [n % 2 == 0 for n in run]
    expect_value(back.single, Colour, run[0])
    expect_value(back.by_key["k"], Colour, run[-1])
    expect_value(back.maybe, Colour, run[0])
    expect_value(back.pick_b, Colour, run[-1])
    # JSON round trip after the wire
    assert Msg().from_dict(back.to_dict()) == msg
    assert Msg().from_json(back.to_json()).many == list(run)

    # several packed chunks and unpacked elements are concatenated in order
    chunks = packed(2, run[:3]) + encode_varint(2 << 3) + encode_varint(run[0]) + packed(2, run[3:]) + packed(2, [])
    merged = Msg().parse(chunks)
    assert merged.many == list(run[:3]) + [run[0]] + list(run[3:])
    for got, n in zip(merged.many, list(run[:3]) + [run[0]] + list(run[3:])):
        expect_value(got, Colour, n)

    # 32-bit two's complement encodings (5 bytes) of negative numbers are accepted too
    short = [n & 0xFFFFFFFF for n in run]
    again = Msg().parse(packed(2, short))
    for got, n in zip(again.many, run):
        expect_value(got, Colour, n)

    # a packed run that ends in the middle of a number
    payload = b"".join(encode_varint(v) for v in run)
    for cut in (1, 2):
        if payload[-cut - 1] & 0x80:  # the cut falls inside the last varint
            broken = encode_varint((2 << 3) | 2) + encode_varint(len(payload) - cut) + payload[:-cut]
            try:
                Msg().parse(broken)
            except EOFError as e:
                assert str(e) == EOF_MSG
                broken_runs += 1
            else:
                raise AssertionError("truncated packed run accepted")

assert broken_runs >= 20, broken_runs

# an over-long varint inside a packed run
too_long = b"\x80" * 10 + b"\x01"
for number in (2, 7, 9, 10, 11):
    try:
        Msg().parse(encode_varint((number << 3) | 2) + encode_varint(len(too_long)) + too_long)
    except ValueError as e:
        assert str(e) == LONG_MSG
    else:
        raise AssertionError("over-long varint accepted")
ten = b"\x80" * 9 + b"\x01"  # 2**63 in ten bytes: fine, truncated to int32 for enums
ok = Msg().parse(packed(2, [1]) + encode_varint((2 << 3) | 2) + encode_varint(len(ten)) + ten)
assert ok.many == [1, 0] and ok.many[0] is Colour.RED and ok.many[1] is Colour.BLACK

# ---------------------------------------------------------------------------
# 3. the reference implementation reads the same lists
# ---------------------------------------------------------------------------
from google.protobuf import descriptor_pb2, descriptor_pool, message_factory

F = descriptor_pb2.FieldDescriptorProto
fdp = descriptor_pb2.FileDescriptorProto(name="c20_keep2.proto", package="c20k2", syntax="proto3")
enum = fdp.enum_type.add(name="Colour")
enum.options.allow_alias = True
for name, number in (("BLACK", 0), ("RED", 1), ("CRIMSON", 1), ("COLD", -3),
                     ("TOP", 2147483647), ("BOTTOM", -2147483648)):
    enum.value.add(name=name, number=number)
gm = fdp.message_type.add(name="Msg")
gm.field.add(name="single", number=1, type=F.TYPE_ENUM, type_name=".c20k2.Colour", label=F.LABEL_OPTIONAL)
gm.field.add(name="many", number=2, type=F.TYPE_ENUM, type_name=".c20k2.Colour", label=F.LABEL_REPEATED)
gm.field.add(name="ints", number=9, type=F.TYPE_INT32, label=F.LABEL_REPEATED)
gm.field.add(name="zig", number=10, type=F.TYPE_SINT32, label=F.LABEL_REPEATED)
gm.field.add(name="flags", number=11, type=F.TYPE_BOOL, label=F.LABEL_REPEATED)
pool = descriptor_pool.DescriptorPool()
pool.Add(fdp)
GMsg = message_factory.GetMessageClass(pool.FindMessageTypeByName("c20k2.Msg"))

for start in range(0, len(INT32), 5):
    run = INT32[start : start + 5]
    theirs = GMsg(single=run[0], many=run, ints=run, zig=run, flags=[n > 0 for n in run])
    wire = theirs.SerializeToString()
    ours = Msg().parse(wire)
    assert [int(x) for x in ours.many] == list(theirs.many) == list(run)
    for got, n in zip(ours.many, run):
        expect_value(got, Colour, n)
    assert ours.ints == list(run) and ours.zig == list(run) and ours.flags == [n > 0 for n in run]
    assert ours.single == run[0]
    assert bytes(ours) == wire
    echo = GMsg()
    echo.ParseFromString(bytes(Msg(single=run[0], many=list(run), ints=list(run), zig=list(run),
                                   flags=[n > 0 for n in run])))
    assert echo == theirs

print("C20 keep2 equiv: OK")
