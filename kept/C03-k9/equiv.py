"""C03 keep1 - equivalence script.

The wrapper handling of FieldCompiler (field_wraps, wrapped_py_type,
betterproto_field_args, get_field_string) is exercised
 * directly, on hand-built FieldCompiler objects for every wrapper type, many
   look-alike type names, every scalar kind, every cardinality (plain / optional /
   repeated / oneof member, pydantic or not, three typing flavours) against an
   oracle written with the regular expression formulation, and
 * end to end: the plugin is run (ruff passes stubbed) on 40 generated schemas,
   hand-written schemas that use wrappers in every position and the repository's
   tests/inputs corpus; the generated text has to be identical (fingerprint) to
   what the pristine tree produced, and the generated packages have to import
   and to agree with protoc's descriptors (the property itself).
"""
import contextlib
import dataclasses
import hashlib
import importlib
import io
import os
import pathlib
import sys
import tempfile
import typing
from datetime import datetime, timedelta

import grpc_tools
from grpc_tools import protoc
from google.protobuf import descriptor_pb2 as pb
from google.protobuf.compiler import plugin_pb2

import betterproto
from betterproto.compile.naming import pythonize_class_name, pythonize_field_name
from betterproto.lib.google.protobuf.compiler import CodeGeneratorRequest
from betterproto.plugin import compiler as plugin_compiler
from betterproto.plugin.models import monkey_patch_oneof_index
from betterproto.plugin.parser import generate_code

# ruff is not installed: the two formatting passes become the identity.
plugin_compiler.subprocess.check_output = lambda cmd, input, encoding: input
monkey_patch_oneof_index()

WKT_INCLUDE = os.path.join(os.path.dirname(grpc_tools.__file__), "_proto")
_counter = [0]


def run_plugin(files, parameter=""):
    """protoc -> FileDescriptorSet -> CodeGeneratorRequest -> generate_code.
    Returns (response, descriptor_pb2.FileDescriptorSet)."""
    src = tempfile.mkdtemp(prefix="c03src")
    for name, text in files.items():
        path = pathlib.Path(src, name)
        path.parent.mkdir(parents=True, exist_ok=True)
        path.write_text(text)
    out = os.path.join(src, "fds.bin")
    sys.stderr.flush()
    saved = os.dup(2)  # protoc reports warnings / errors on the C-level stderr
    devnull = os.open(os.devnull, os.O_WRONLY)
    os.dup2(devnull, 2)
    try:
        rc = protoc.main(
            ["protoc", f"-I{src}", f"-I{WKT_INCLUDE}", f"--descriptor_set_out={out}",
             "--include_imports", "--include_source_info", *files]
        )
    finally:
        os.dup2(saved, 2)
        os.close(saved)
        os.close(devnull)
    assert rc == 0, "protoc rejected the schema"
    fds = pb.FileDescriptorSet.FromString(open(out, "rb").read())
    # the request exactly as protoc would send it (source info only for the
    # files that are to be generated)
    pb_request = plugin_pb2.CodeGeneratorRequest(
        file_to_generate=list(files), parameter=parameter
    )
    for source in fds.file:
        copy = pb_request.proto_file.add()
        copy.CopyFrom(source)
        if copy.name not in files:
            copy.ClearField("source_code_info")
    request = CodeGeneratorRequest().parse(pb_request.SerializeToString())
    stderr, sys.stderr = sys.stderr, open(os.devnull, "w")
    try:
        response = generate_code(request)
    finally:
        sys.stderr = stderr
    return response, fds


def import_output(response):
    """Write the response below a fresh top-level package and import all of it."""
    _counter[0] += 1
    top = f"c03gen{os.getpid()}_{_counter[0]}"
    base = tempfile.mkdtemp(prefix="c03out")
    names = [f.name for f in response.file]
    assert len(names) == len(set(names)), f"file emitted twice: {sorted(names)}"
    for f in response.file:
        path = pathlib.Path(base, top, f.name)
        path.parent.mkdir(parents=True, exist_ok=True)
        path.write_text(f.content)
    sys.path.insert(0, base)
    modules = {}
    try:
        for name in sorted(names):
            pkg = ".".join([top, *pathlib.Path(name).parts[:-1]])
            modules[pkg[len(top) + 1 :]] = importlib.import_module(pkg)
    finally:
        sys.path.remove(base)
    return modules


SCALARS = {
    pb.FieldDescriptorProto.TYPE_DOUBLE: ("double", float),
    pb.FieldDescriptorProto.TYPE_FLOAT: ("float", float),
    pb.FieldDescriptorProto.TYPE_INT64: ("int64", int),
    pb.FieldDescriptorProto.TYPE_UINT64: ("uint64", int),
    pb.FieldDescriptorProto.TYPE_INT32: ("int32", int),
    pb.FieldDescriptorProto.TYPE_FIXED64: ("fixed64", int),
    pb.FieldDescriptorProto.TYPE_FIXED32: ("fixed32", int),
    pb.FieldDescriptorProto.TYPE_BOOL: ("bool", bool),
    pb.FieldDescriptorProto.TYPE_STRING: ("string", str),
    pb.FieldDescriptorProto.TYPE_BYTES: ("bytes", bytes),
    pb.FieldDescriptorProto.TYPE_UINT32: ("uint32", int),
    pb.FieldDescriptorProto.TYPE_SFIXED32: ("sfixed32", int),
    pb.FieldDescriptorProto.TYPE_SFIXED64: ("sfixed64", int),
    pb.FieldDescriptorProto.TYPE_SINT32: ("sint32", int),
    pb.FieldDescriptorProto.TYPE_SINT64: ("sint64", int),
}
WRAPPERS = {
    ".google.protobuf.DoubleValue": ("double", float),
    ".google.protobuf.FloatValue": ("float", float),
    ".google.protobuf.Int32Value": ("int32", int),
    ".google.protobuf.Int64Value": ("int64", int),
    ".google.protobuf.UInt32Value": ("uint32", int),
    ".google.protobuf.UInt64Value": ("uint64", int),
    ".google.protobuf.BoolValue": ("bool", bool),
    ".google.protobuf.StringValue": ("string", str),
    ".google.protobuf.BytesValue": ("bytes", bytes),
}


def check(response, fds, modules):
    """The property: one class per message/enum, one field per schema field with
    the schema's number, type, cardinality, oneof group and well-known mapping."""
    index = {}  # full proto name -> (package, dotted name, descriptor)

    def collect(package, prefix, messages, enums):
        for e in enums:
            index["." + ".".join(filter(None, [package, prefix + e.name]))] = (package, prefix + e.name, e)
        for m in messages:
            index["." + ".".join(filter(None, [package, prefix + m.name]))] = (package, prefix + m.name, m)
            collect(package, prefix + m.name + ".", m.nested_type, m.enum_type)

    for f in fds.file:
        if f.package != "google.protobuf":
            collect(f.package, "", f.message_type, f.enum_type)

    def cls_of(full_name):
        if full_name.startswith(".google.protobuf."):
            import betterproto.lib.google.protobuf as lib
            return getattr(lib, full_name.rsplit(".", 1)[1])
        package, dotted, _ = index[full_name]
        return getattr(modules[package], pythonize_class_name(dotted))

    def value_type(fd):
        """expected (proto_type, python type, wraps) of a field's element"""
        if fd.type in SCALARS:
            return (*SCALARS[fd.type], None)
        if fd.type == pb.FieldDescriptorProto.TYPE_ENUM:
            return "enum", cls_of(fd.type_name), None
        assert fd.type == pb.FieldDescriptorProto.TYPE_MESSAGE
        if fd.type_name in WRAPPERS:
            wraps, py = WRAPPERS[fd.type_name]
            return "message", typing.Optional[py], wraps
        if fd.type_name == ".google.protobuf.Timestamp":
            return "message", datetime, None
        if fd.type_name == ".google.protobuf.Duration":
            return "message", timedelta, None
        return "message", cls_of(fd.type_name), None

    seen = {}
    for full_name, (package, dotted, desc) in index.items():
        if isinstance(desc, pb.DescriptorProto) and desc.options.map_entry:
            continue
        module = modules[package]
        cls = getattr(module, pythonize_class_name(dotted))
        assert id(cls) not in seen, f"{full_name} and {seen.get(id(cls))} share a class"
        seen[id(cls)] = full_name
        if isinstance(desc, pb.EnumDescriptorProto):
            assert issubclass(cls, betterproto.Enum), full_name
            members = cls.__members__
            assert len(members) == len(desc.value), (full_name, list(members))
            assert sorted(int(m.value) for m in members.values()) == sorted(
                v.number for v in desc.value
            ), full_name
            continue
        assert issubclass(cls, betterproto.Message), full_name
        hints = typing.get_type_hints(cls, vars(module))
        fields = {f.metadata["betterproto"].number: f for f in dataclasses.fields(cls)}
        assert len(fields) == len(dataclasses.fields(cls)) == len(desc.field), full_name
        for fd in desc.field:
            where = f"{full_name}.{fd.name}"
            f = fields[fd.number]
            meta = f.metadata["betterproto"]
            assert f.name == pythonize_field_name(fd.name), where
            hint = hints[f.name]
            entry = index.get(fd.type_name, (None, None, None))[2]
            if isinstance(entry, pb.DescriptorProto) and entry.options.map_entry:
                kt, kpy, _ = value_type(entry.field[0])
                vd = entry.field[1]
                if vd.type_name in WRAPPERS:  # map values stay wrapper messages
                    vt, vpy = "message", cls_of(vd.type_name)
                else:
                    vt, vpy, _ = value_type(vd)
                assert meta.proto_type == "map", where
                assert meta.map_types == (kt, vt), (where, meta.map_types)
                assert hint == typing.Dict[kpy, vpy], (where, hint)
                assert not meta.group and not meta.optional, where
                continue
            pt, py, wraps = value_type(fd)
            assert meta.proto_type == pt, (where, meta.proto_type)
            assert meta.wraps == wraps, (where, meta.wraps)
            assert meta.map_types is None, where
            real_oneof = fd.HasField("oneof_index") and not fd.proto3_optional
            group = desc.oneof_decl[fd.oneof_index].name if real_oneof else None
            assert meta.group == group, (where, meta.group)
            assert bool(meta.optional) == fd.proto3_optional, (where, meta.optional)
            if fd.label == pb.FieldDescriptorProto.LABEL_REPEATED:
                assert hint == typing.List[py], (where, hint)
            elif fd.proto3_optional:
                assert hint == typing.Optional[py], (where, hint)
            else:
                assert hint == py, (where, hint)
    return len(seen)


def verify(files, parameter=""):
    response, fds = run_plugin(files, parameter)
    modules = import_output(response)
    return check(response, fds, modules)


# ---------------------------------------------------------------------------
# grammar based schema generator
# ---------------------------------------------------------------------------
import random

SCALAR_KINDS = ["double", "float", "int32", "int64", "uint32", "uint64", "sint32", "sint64",
                "fixed32", "fixed64", "sfixed32", "sfixed64", "bool", "string", "bytes"]
KEY_KINDS = ["int32", "int64", "uint32", "uint64", "sint32", "sint64", "fixed32", "fixed64",
             "sfixed32", "sfixed64", "bool", "string"]
WKT = {
    "google/protobuf/wrappers.proto": ["DoubleValue", "FloatValue", "Int32Value", "Int64Value",
                                       "UInt32Value", "UInt64Value", "BoolValue", "StringValue", "BytesValue"],
    "google/protobuf/timestamp.proto": ["Timestamp"],
    "google/protobuf/duration.proto": ["Duration"],
    "google/protobuf/any.proto": ["Any"],
    "google/protobuf/empty.proto": ["Empty"],
    "google/protobuf/struct.proto": ["Struct", "Value", "ListValue"],
    "google/protobuf/type.proto": ["EnumValue"],
    "google/protobuf/field_mask.proto": ["FieldMask"],
}
NAME_POOL = ["from", "class", "int", "str", "bytes", "float", "bool", "list", "type", "id", "import",
             "global", "lambda", "def", "in", "is", "not", "print", "len", "map", "object", "hash",
             "dict", "set", "value", "key", "name", "user_id", "userName", "HTTPCode", "x1", "data_2",
             "total_count", "is_ok", "created_at", "ttl", "payload", "items", "tags", "meta", "kind",
             "date_time", "time_delta", "optional", "self", "cls", "async", "await", "none", "true"]
PACKAGES = ["", "alpha", "alpha.beta", "gamma", "alpha.delta.eps", "gamma.zeta"]
COMMENTS = [" plain comment", " ends with a quote \"", " back\\slash and \"\"\" triple", "* block style",
            " multi\n line\n\n comment", " x" * 45, ""]


class SchemaGen:
    def __init__(self, seed):
        self.r = random.Random(seed)
        self.files = {}
        self.types = []  # (file, package, dotted name, kind)
        self.counter = 0

    def uid(self):
        self.counter += 1
        return self.counter

    def comment(self, indent):
        if self.r.random() < 0.6:
            return ""
        c = self.r.choice(COMMENTS)
        pad = " " * indent
        if c.startswith("*"):
            return f"{pad}/*{c} */\n"
        return "".join(f"{pad}//{line}\n" for line in c.split("\n"))

    def enum(self, name, scope_prefix, indent):
        r = self.r
        pad = " " * indent
        prefix = r.choice([scope_prefix + name.upper() + "_", name.upper() + str(self.uid()) + "_", "V" + str(self.uid()) + "_"])
        n = r.randint(1, 5)
        numbers = [0]
        alias = False
        for _ in range(n - 1):
            if r.random() < 0.2:
                numbers.append(r.choice(numbers)); alias = True
            else:
                v = r.choice([r.randint(1, 20), -r.randint(1, 20), 2147483647, -2147483648, r.randint(100, 100000)])
                if v in numbers:
                    alias = True
                numbers.append(v)
        out = self.comment(indent) + f"{pad}enum {name} {{\n"
        if alias:
            out += f"{pad}  option allow_alias = true;\n"
        suffixes = r.sample(["UNSPECIFIED", "A", "B", "RED", "NIL", "X1", "FOO_BAR", "ZERO", "class", "None"], n)
        for s, v in zip(suffixes, numbers):
            out += self.comment(indent + 2) + f"{pad}  {prefix}{s} = {v};\n"
        return out + f"{pad}}}\n"

    def ref(self, package, dotted):
        return "." + ".".join(filter(None, [package, dotted]))

    def field_type(self, visible, imports, allow_map=True):
        r = self.r
        roll = r.random()
        if roll < 0.35:
            return r.choice(SCALAR_KINDS), False
        if roll < 0.55 and visible:
            f, package, dotted, kind = r.choice(visible)
            return self.ref(package, dotted), False
        if roll < 0.7:
            path = r.choice(list(WKT))
            imports.add(path)
            return ".google.protobuf." + r.choice(WKT[path]), False
        if roll < 0.85 and allow_map:
            value, _ = self.field_type(visible, imports, allow_map=False)
            return f"map<{r.choice(KEY_KINDS)}, {value}>", True
        return r.choice(SCALAR_KINDS), False

    def message(self, fname, package, dotted, visible, imports, indent, depth):
        r = self.r
        pad = " " * indent
        name = dotted.rsplit(".", 1)[-1]
        out = self.comment(indent) + f"{pad}message {name} {{\n"
        # nested declarations first so fields can refer to them
        local = []
        for i in range(r.randint(0, 2) if depth < 3 else 0):
            if r.random() < 0.5:
                ename = f"E{self.uid()}"
                out += self.enum(ename, name.upper() + "_", indent + 2)
                local.append((fname, package, f"{dotted}.{ename}", "enum"))
            else:
                mname = r.choice(["Inner", "Item", "HTTPPart", "Node"]) + str(self.uid())
                nested_visible = visible + local + [(fname, package, dotted, "message")]
                text, sub = self.message(fname, package, f"{dotted}.{mname}", nested_visible, imports, indent + 2, depth + 1)
                out += text
                local.append((fname, package, f"{dotted}.{mname}", "message"))
                local.extend(sub)
        scope = visible + local + [(fname, package, dotted, "message")]
        names = r.sample(NAME_POOL, r.randint(0, 9))
        number = 0
        in_oneof = 0
        for fname_ in names:
            number += r.choice([1, 1, 1, 2, 7, 100])
            if number >= 19000 and number <= 19999:
                number = 20000
            ftype, is_map = self.field_type(scope, imports)
            c = self.comment(indent + 2)
            if in_oneof:
                if is_map:
                    ftype = "string"
                out += f"{pad}    {ftype} {fname_} = {number};\n"
                in_oneof -= 1
                if not in_oneof:
                    out += f"{pad}  }}\n"
                continue
            roll = r.random()
            if roll < 0.15 and not is_map:
                oneof_name = r.choice(["choice", "kind_of", "from", "_hidden", "Sel"]) + str(self.uid())
                out += f"{pad}  oneof {oneof_name} {{\n{pad}    {ftype} {fname_} = {number};\n"
                in_oneof = r.randint(0, 2)
                if not in_oneof:
                    out += f"{pad}  }}\n"
            elif roll < 0.35 and not is_map:
                out += c + f"{pad}  repeated {ftype} {fname_} = {number};\n"
            elif roll < 0.5 and not is_map:
                out += c + f"{pad}  optional {ftype} {fname_} = {number};\n"
            else:
                out += c + f"{pad}  {ftype} {fname_} = {number};\n"
        if in_oneof:
            out += f"{pad}  }}\n"
        return out + f"{pad}}}\n", local

    def build(self, nfiles):
        r = self.r
        done = []
        for i in range(nfiles):
            fname = f"f{i}.proto"
            package = r.choice(PACKAGES)
            deps = [d for d in done if r.random() < 0.5]
            imports = set(d for d in deps)
            visible = [t for t in self.types if t[0] in deps]
            body = ""
            mine = []
            for _ in range(r.randint(0, 2)):
                ename = f"Enum{self.uid()}"
                body += self.enum(ename, "", 0)
                mine.append((fname, package, ename, "enum"))
            names = [r.choice(["Msg", "HTTPRequest", "Tree", "Config", "UserV2"]) + str(self.uid()) for _ in range(r.randint(1, 4))]
            # top-level messages of a file may refer to each other (recursion)
            forward = [(fname, package, n, "message") for n in names]
            for n in names:
                text, sub = self.message(fname, package, n, visible + mine + forward, imports, 0, 1)
                body += text
                mine.extend(sub)
            mine.extend(forward)
            head = 'syntax = "proto3";\n' + (f"package {package};\n" if package else "")
            head += "".join(f'import "{p}";\n' for p in sorted(imports))
            self.files[fname] = head + body
            self.types.extend(mine)
            done.append(fname)
        return self.files


def schemas(count, seed0=0):
    return [SchemaGen(seed0 + s).build(1 + s % 4) for s in range(count)]


FIXED = {
    "wrappers_everywhere": {
        "w.proto": """
syntax = "proto3";
package wrap.v1;
import "google/protobuf/wrappers.proto";
import "google/protobuf/timestamp.proto";
import "google/protobuf/duration.proto";
import "google/protobuf/struct.proto";
import "google/protobuf/type.proto";
import "google/protobuf/any.proto";
message W {
  google.protobuf.DoubleValue a = 1;
  google.protobuf.FloatValue b = 2;
  google.protobuf.Int32Value c = 3;
  google.protobuf.Int64Value d = 4;
  google.protobuf.UInt32Value e = 5;
  google.protobuf.UInt64Value f = 6;
  google.protobuf.BoolValue g = 7;
  google.protobuf.StringValue h = 8;
  google.protobuf.BytesValue i = 9;
  repeated google.protobuf.DoubleValue ra = 11;
  repeated google.protobuf.StringValue rh = 18;
  repeated google.protobuf.BytesValue ri = 19;
  optional google.protobuf.Int32Value oc = 23;
  optional google.protobuf.BoolValue og = 27;
  oneof pick {
    google.protobuf.UInt64Value pf = 36;
    google.protobuf.StringValue ph = 38;
    google.protobuf.Timestamp pt = 39;
    int32 pi = 40;
  }
  map<string, google.protobuf.Int64Value> md = 44;
  map<int32, google.protobuf.BytesValue> mi = 49;
  map<bool, google.protobuf.Timestamp> mt = 50;
  map<sfixed64, google.protobuf.Duration> mdur = 51;
  google.protobuf.Timestamp ts = 60;
  google.protobuf.Duration dur = 61;
  optional google.protobuf.Timestamp ots = 62;
  repeated google.protobuf.Duration rdur = 63;
  google.protobuf.Value value = 70;
  google.protobuf.ListValue list_value = 71;
  google.protobuf.NullValue null_value = 72;
  google.protobuf.EnumValue enum_value = 73;
  google.protobuf.Struct struct = 74;
  google.protobuf.Any any = 75;
  repeated google.protobuf.EnumValue enum_values = 76;
  optional google.protobuf.ListValue olist = 77;
}
// user types that only look like wrappers
message Int32Value { int32 value = 1; }
message MyValue { Int32Value v = 1; optional Int32Value ov = 2; repeated Int32Value rv = 3; map<string, Int32Value> mv = 4; }
""",
    },
    "builtin_shadowing": {
        "b.proto": """
syntax = "proto3";
package shadow;
import "google/protobuf/wrappers.proto";
message S {
  int32 int = 1;
  string str = 2;
  google.protobuf.Int32Value wrapped = 3;
  optional google.protobuf.StringValue owrapped = 4;
  repeated int64 more = 5;
  map<string, int32> table = 6;
  bytes bytes = 7;
  google.protobuf.BytesValue wb = 8;
  oneof o { float float = 9; google.protobuf.FloatValue wf = 10; bool flag = 11; }
  optional bool bool = 12;
}
message T { float float = 1; repeated google.protobuf.DoubleValue ds = 2; double plain = 3; }
""",
    },
    "packages": {
        "root.proto": 'syntax = "proto3"; import "a/b.proto"; import "c.proto"; message Root { a.b.AB ab = 1; c.C cc = 2; RootEnum e = 3; } enum RootEnum { ROOT_ENUM_ZERO = 0; ROOT_ENUM_NEG = -5; }',
        "a/b.proto": 'syntax = "proto3"; package a.b; import "a/b/d/deep.proto"; message AB { a.b.d.Deep deep = 1; repeated AB children = 2; }',
        "a/b/d/deep.proto": 'syntax = "proto3"; package a.b.d; message Deep { map<string, Deep> m = 1; }',
        "c.proto": 'syntax = "proto3"; package c; import "a/b/d/deep.proto"; import "leaf.proto"; message C { a.b.d.Deep cousin = 1; Leaf leaf = 2; }',
        "leaf.proto": 'syntax = "proto3"; message Leaf { optional string s = 1; }',
        "x/y/z.proto": 'syntax = "proto3"; package x.y.z; import "a/b.proto"; message Z { a.b.AB far = 1; }',
    },
    "empty_and_odd": {
        "e.proto": """
syntax = "proto3";
package odd;
message Empty {}
message OnlyNested { message In { enum E { E_ZERO = 0; } E e = 1; } }
message None { int32 x = 1; }
message Rec { Rec self = 1; repeated Rec kids = 2; map<uint32, Rec> by_id = 3; optional Rec maybe = 4; oneof o { Rec a = 5; Mut b = 6; } }
message Mut { Rec back = 1; None none = 2; }
enum Alias { option allow_alias = true; ALIAS_A = 0; ALIAS_B = 0; ALIAS_C = 1; ALIAS_D = 1; NEG = -2147483648; POS = 2147483647; }
""",
    },
}


def canon(text):
    """Generated text with every run of import lines sorted (the cross-package
    import block is rendered from a set)."""
    out, run = [], []
    for line in text.split("\n"):
        if line.startswith(("import ", "from ")):
            run.append(line)
            continue
        out.extend(sorted(run))
        run = []
        out.append(line)
    out.extend(sorted(run))
    return "\n".join(out)


def fingerprint(response):
    h = hashlib.sha256()
    for f in sorted(response.file, key=lambda f: f.name):
        h.update(f.name.encode() + b"\0" + canon(f.content).encode() + b"\0")
    return h.hexdigest()[:16]


def corpus():
    """tests/inputs of the tree under test (the property's second input source)."""
    root = pathlib.Path(betterproto.__file__).resolve().parents[2] / "tests" / "inputs"
    cases = {}
    if root.is_dir():
        for d in sorted(p for p in root.iterdir() if p.is_dir()):
            files = {p.name: p.read_text() for p in sorted(d.glob("*.proto"))}
            if files:
                cases["corpus/" + d.name] = files
    return cases


def outcome(files, parameter=""):
    """(fingerprint of the plugin output | error class, property check result)"""
    err = io.StringIO()
    try:
        with contextlib.redirect_stderr(err):
            response, fds = run_plugin(files, parameter)
    except BaseException as e:  # protoc rejects / plugin raises: part of the behaviour
        return "ERR:" + type(e).__name__, None
    try:
        modules = import_output(response)
        checked = check(response, fds, modules)
    except BaseException as e:
        checked = "ERR:" + type(e).__name__
    return fingerprint(response), checked


def all_cases():
    cases = {}
    for i, files in enumerate(schemas(N_GENERATED)):
        cases[f"gen/{i}"] = (files, "")
    for name, files in FIXED.items():
        cases["fixed/" + name] = (files, "")
        cases["fixed/" + name + "/root"] = (files, "typing.root")
        cases["fixed/" + name + "/310"] = (files, "typing.310")
    for name, files in corpus().items():
        cases[name] = (files, "")
    return cases


# ---------------------------------------------------------------------------
# unit level: FieldCompiler.field_wraps / wrapped_py_type / betterproto_field_args /
# get_field_string against an independent oracle
# ---------------------------------------------------------------------------
import re

from betterproto.compile.importing import get_type_reference
from betterproto.lib.google.protobuf import (
    DescriptorProto,
    FieldDescriptorProto,
    FieldDescriptorProtoLabel,
    FieldDescriptorProtoType,
    FileDescriptorProto,
    OneofDescriptorProto,
)
from betterproto.plugin.models import (
    FieldCompiler,
    MessageCompiler,
    OneOfFieldCompiler,
    OutputTemplate,
    PluginRequestCompiler,
    PydanticOneOfFieldCompiler,
)
from betterproto.plugin.typing_compiler import (
    DirectImportTypingCompiler,
    NoTyping310TypingCompiler,
    TypingImportTypingCompiler,
)

ORACLE_WRAPPERS = {
    ".google.protobuf.DoubleValue": ("betterproto.TYPE_DOUBLE", "float"),
    ".google.protobuf.FloatValue": ("betterproto.TYPE_FLOAT", "float"),
    ".google.protobuf.Int32Value": ("betterproto.TYPE_INT32", "int"),
    ".google.protobuf.Int64Value": ("betterproto.TYPE_INT64", "int"),
    ".google.protobuf.UInt32Value": ("betterproto.TYPE_UINT32", "int"),
    ".google.protobuf.UInt64Value": ("betterproto.TYPE_UINT64", "int"),
    ".google.protobuf.BoolValue": ("betterproto.TYPE_BOOL", "bool"),
    ".google.protobuf.StringValue": ("betterproto.TYPE_STRING", "str"),
    ".google.protobuf.BytesValue": ("betterproto.TYPE_BYTES", "bytes"),
}
for _name, (_const, _py) in ORACLE_WRAPPERS.items():
    # the constants the generated code refers to exist and name the wrapped scalar
    assert getattr(betterproto, _const.split(".")[1]) == _name[len(".google.protobuf."):-len("Value")].lower()

MESSAGE_TYPE_NAMES = list(ORACLE_WRAPPERS) + [
    ".google.protobuf.EnumValue", ".google.protobuf.ListValue", ".google.protobuf.Value",
    ".google.protobuf.Struct", ".google.protobuf.Timestamp", ".google.protobuf.Duration",
    ".google.protobuf.Any", ".google.protobuf.Empty", ".google.protobuf.MapValue",
    ".google.protobuf.MessageValue", ".google.protobuf.SInt32Value", ".google.protobuf.Fixed32Value",
    ".google.protobuf.INT32Value", ".google.protobuf.int32Value", ".google.protobuf.Int32Value2",
    ".google.protobuf.Int32ValueValue", ".google.protobuf.Int32", ".google.protobuf.Uint32Value",
    "google.protobuf.Int32Value", "..google.protobuf.Int32Value", ".google.protobuf.Int32Value ",
    ".pkg.Int32Value", ".pkg.Value", ".pkg.sub.StringValue", ".other.BoolValue", ".Int32Value",
    ".pkg.google.protobuf.Int32Value", ".google.protobuf.compiler.Version", ".pkg.Outer.Inner",
    ".google.protobufXInt32Value", ".google.protobuf.Outer.Int32Value",
]
SCALAR_TYPES = [t for t in FieldDescriptorProtoType if t not in (
    FieldDescriptorProtoType.TYPE_GROUP, FieldDescriptorProtoType.TYPE_MESSAGE, FieldDescriptorProtoType.TYPE_ENUM)]
SCALAR_PY = {"double": "float", "float": "float", "bool": "bool", "string": "str", "bytes": "bytes"}


def unit_checks():
    count = 0
    for make_tc, opt, lst in (
        (DirectImportTypingCompiler, "Optional[{}]", "List[{}]"),
        (TypingImportTypingCompiler, "typing.Optional[{}]", "typing.List[{}]"),
        (NoTyping310TypingCompiler, None, None),
    ):
        for pydantic in (False, True):
            specs = []
            for type_name in MESSAGE_TYPE_NAMES:
                for kind in (FieldDescriptorProtoType.TYPE_MESSAGE, FieldDescriptorProtoType.TYPE_ENUM):
                    specs.append((kind, type_name))
            specs += [(t, "") for t in SCALAR_TYPES]
            fields, plan = [], []
            for kind, type_name in specs:
                for mode in ("plain", "optional", "repeated", "oneof"):
                    number = len(fields) + 1
                    fd = FieldDescriptorProto(
                        name=f"f_{number}", number=number, type=kind, type_name=type_name,
                        label=FieldDescriptorProtoLabel.LABEL_REPEATED if mode == "repeated"
                        else FieldDescriptorProtoLabel.LABEL_OPTIONAL,
                    )
                    if mode == "optional":
                        fd.proto3_optional = True
                        fd.oneof_index = 1
                    elif mode == "oneof":
                        fd.oneof_index = 0
                    fields.append(fd)
                    plan.append((fd, kind, type_name, mode))
            tc = make_tc()
            out = OutputTemplate(
                parent_request=PluginRequestCompiler(plugin_request_obj=None),
                package_proto_obj=FileDescriptorProto(package="pkg"),
                pydantic_dataclasses=pydantic,
                typing_compiler=tc,
            )
            source = FileDescriptorProto(name="x.proto", package="pkg")
            message_proto = DescriptorProto(
                name="M", field=fields,
                oneof_decl=[OneofDescriptorProto(name="grp"), OneofDescriptorProto(name="_f")],
            )
            message = MessageCompiler(source_file=source, parent=out, proto_obj=message_proto, path=[4, 0], typing_compiler=tc)
            for i, (fd, kind, type_name, mode) in enumerate(plan):
                cls = FieldCompiler
                if mode == "oneof":
                    cls = PydanticOneOfFieldCompiler if pydantic else OneOfFieldCompiler
                fc = cls(source_file=source, parent=message, proto_obj=fd, path=[4, 0, 2, i], typing_compiler=tc)
                # --- oracle (the regular-expression formulation) ---
                wraps = py = None
                m = re.match(r"\.google\.protobuf\.(.+)Value$", type_name)
                if m and type_name in ORACLE_WRAPPERS:
                    wrapped = "TYPE_" + m.group(1).upper()
                    if hasattr(betterproto, wrapped):
                        wraps = f"betterproto.{wrapped}"
                        py = ORACLE_WRAPPERS[type_name][1]
                assert (wraps, py) == ORACLE_WRAPPERS.get(type_name, (None, None))
                assert fc.field_wraps == wraps, (type_name, fc.field_wraps)
                assert fc.wrapped_py_type == py, (type_name, fc.wrapped_py_type)
                optional = mode == "optional" or (mode == "oneof" and pydantic)
                args = ([f"wraps={wraps}"] if wraps else []) + (["optional=True"] if optional else [])
                if mode == "oneof":
                    args.append('group="grp"')
                assert fc.betterproto_field_args == args, (type_name, mode, fc.betterproto_field_args)
                assert isinstance(fc.betterproto_field_args, list)
                field_kind = FieldDescriptorProtoType(kind).name.lower()[len("type_"):]
                if type_name:
                    inner = get_type_reference(
                        package="pkg", imports=set(), source_type=type_name,
                        typing_compiler=make_tc(), pydantic=pydantic)
                else:
                    inner = SCALAR_PY.get(field_kind, "int")
                text = fc.get_field_string()
                assert text == fc.get_field_string(indent=8)
                call = f"betterproto.{field_kind}_field({', '.join([str(fd.number)] + args)})"
                if opt is not None:
                    annotation = inner
                    if mode == "repeated":
                        annotation = lst.format(inner)
                    elif optional:
                        annotation = opt.format(inner)
                    assert text == f"f_{fd.number}: {annotation} = {call}", text
                else:
                    assert text.startswith(f"f_{fd.number}: ") and text.endswith(f" = {call}"), text
                count += 1
    return count


N_GENERATED = 40
# plugin output fingerprints / property check results recorded on the pristine tree
GOLDEN = {
    'gen/0': ('a44e27c4dae3d027', 5),
    'gen/1': ('553c5b88c4bcf391', 18),
    'gen/2': ('81b6b76907381298', 20),
    'gen/3': ('1b2d6f064e43a978', 40),
    'gen/4': ('2dbea0dc049d2847', 4),
    'gen/5': ('d8d11354a7c0a321', 15),
    'gen/6': ('c064e97254f38403', 27),
    'gen/7': ('ee346afe931f7dd8', 32),
    'gen/8': ('735ab68f66f56408', 15),
    'gen/9': ('4aea6a46f124861a', 16),
    'gen/10': ('b2f1981aa815f066', 26),
    'gen/11': ('8da464778a786e9a', 24),
    'gen/12': ('5976967e31ed088c', 7),
    'gen/13': ('55ee786ec83ba682', 15),
    'gen/14': ('e0acd6c32bae5915', 24),
    'gen/15': ('5d6da1d1ac33c2a5', 24),
    'gen/16': ('edd5b3c1acb59117', 5),
    'gen/17': ('73a888fa5bd029b8', 11),
    'gen/18': ('f96e4da54e9f47a7', 24),
    'gen/19': ('248d620835430fe2', 21),
    'gen/20': ('9396330e331817c3', 3),
    'gen/21': ('891931960ac46849', 21),
    'gen/22': ('a3452678a01d7cd0', 10),
    'gen/23': ('a745aff7e1f5cc5e', 29),
    'gen/24': ('495d290106a7cfbd', 3),
    'gen/25': ('9bd4d99312064b3a', 17),
    'gen/26': ('3c492cb219d8a589', 27),
    'gen/27': ('c508a8b35fab229d', 42),
    'gen/28': ('a200979a7bf940e8', 7),
    'gen/29': ('8c3e8ddbb29d1ed1', 17),
    'gen/30': ('1222d62b45987a6c', 28),
    'gen/31': ('c3d5663451d652e0', 30),
    'gen/32': ('a6ec7fcdf080b085', 6),
    'gen/33': ('2f5274fffb65e2bd', 12),
    'gen/34': ('7a003181b79c46bd', 13),
    'gen/35': ('ad62bb584d0f35f6', 28),
    'gen/36': ('e2da58a595c161d5', 5),
    'gen/37': ('ec38324286e7c597', 10),
    'gen/38': ('6979a92194fcdfca', 21),
    'gen/39': ('5372e56b6832c8ba', 37),
    'fixed/wrappers_everywhere': ('07b62abe18025a4c', 3),
    'fixed/wrappers_everywhere/root': ('6e818fa00de7d8f1', 3),
    'fixed/wrappers_everywhere/310': ('fde9c1a9e5929c02', 'ERR:AssertionError'),
    'fixed/builtin_shadowing': ('d98c8494e872e372', 2),
    'fixed/builtin_shadowing/root': ('148f33ec4ee50108', 2),
    'fixed/builtin_shadowing/310': ('5c0a2f647c630edb', 'ERR:AssertionError'),
    'fixed/packages': ('13f8b7c93a1af64a', 7),
    'fixed/packages/root': ('e26abe5495b1c10d', 7),
    'fixed/packages/310': ('dc14993b3a39a1e4', 'ERR:AssertionError'),
    'fixed/empty_and_odd': ('1c42d7718c666930', 8),
    'fixed/empty_and_odd/root': ('59abd896023bd6d9', 8),
    'fixed/empty_and_odd/310': ('c8d888e9f35d42aa', 'ERR:AssertionError'),
    'corpus/bool': ('811132f2c6ab070b', 1),
    'corpus/bytes': ('257f75ec2e33bbab', 1),
    'corpus/casing': ('13d26988e7e19546', 3),
    'corpus/casing_inner_class': ('7c26730130c77086', 2),
    'corpus/casing_message_field_uppercase': ('d76221bf02039111', 1),
    'corpus/deprecated': ('f90bb040c665d5f2', 3),
    'corpus/documentation': ('4d75ba70a4ed52d8', 2),
    'corpus/double': ('f014316d841bc10e', 1),
    'corpus/empty_repeated': ('7afcafcaacf2bc4b', 2),
    'corpus/empty_service': ('9eb060bf128af52d', 0),
    'corpus/entry': ('e5bf6666db77986c', 2),
    'corpus/enum': ('35ee033802aeed73', 3),
    'corpus/example': ('ea1c972abffe87aa', 33),
    'corpus/example_service': ('2f6dfde48b50cde9', 2),
    'corpus/field_name_identical_to_type': ('b1b48c5cd7330081', 1),
    'corpus/fixed': ('8e9d482529bfeace', 1),
    'corpus/float': ('69da636a0aeb6ebc', 1),
    'corpus/google_impl_behavior_equivalence': ('c4d62fb918e69cab', 5),
    'corpus/googletypes': ('dabb4f318ac50212', 1),
    'corpus/googletypes_request': ('1f0c25a56f21b395', 1),
    'corpus/googletypes_response': ('f5d8b8b4c4c18a10', 1),
    'corpus/googletypes_response_embedded': ('2da70feaf9041df6', 2),
    'corpus/googletypes_service_returns_empty': ('8649797239c7a82a', 1),
    'corpus/googletypes_service_returns_googletype': ('bf3dbbbb0eca96b7', 1),
    'corpus/googletypes_struct': ('9382615f7575999d', 1),
    'corpus/googletypes_value': ('d0c6bd45f89d5188', 1),
    'corpus/import_capitalized_package': ('a0fa7add0d49867c', 'ERR:NameError'),
    'corpus/import_child_package_from_package': ('fef77b40cba09e27', 3),
    'corpus/import_child_package_from_root': ('2452c9f1a84b1178', 2),
    'corpus/import_circular_dependency': ('fd184573f2e48cbc', 3),
    'corpus/import_cousin_package': ('cdc9ade6e767b544', 2),
    'corpus/import_cousin_package_same_name': ('59e97055a1e714b2', 2),
    'corpus/import_packages_same_name': ('d65973a2c459a572', 3),
    'corpus/import_parent_package_from_child': ('465edf640d625f3f', 2),
    'corpus/import_root_package_from_child': ('bd414046418239cb', 2),
    'corpus/import_root_sibling': ('14dc80c6bf9e26c3', 2),
    'corpus/import_service_input_message': ('403b8a71a6f6e6db', 5),
    'corpus/int32': ('c5053109304f0856', 1),
    'corpus/invalid_field': ('02c763b465cc04fd', 1),
    'corpus/map': ('29126b8cfee55f73', 1),
    'corpus/mapmessage': ('d96be6bfa651027e', 2),
    'corpus/namespace_builtin_types': ('1382b59a4a510023', 1),
    'corpus/namespace_keywords': ('c8b393072c6be246', 1),
    'corpus/nested': ('0d8016795cc7caf1', 4),
    'corpus/nested2': ('563dcc2d29ff5392', 5),
    'corpus/nestedtwice': ('2ed7b33b92eba3d7', 6),
    'corpus/oneof': ('f78be1a422f9e571', 2),
    'corpus/oneof_default_value_serialization': ('00c35576f1440170', 3),
    'corpus/oneof_empty': ('efd80746357d1a5f', 3),
    'corpus/oneof_enum': ('cd3675d78ade3aa7', 3),
    'corpus/proto3_field_presence': ('f658853ba2f8049e', 3),
    'corpus/proto3_field_presence_oneof': ('136f3ffcb251141d', 4),
    'corpus/recursivemessage': ('fa443a264104cfba', 2),
    'corpus/ref': ('2f49e1e4af548ca1', 3),
    'corpus/regression_387': ('75f2734faad9054a', 2),
    'corpus/regression_414': ('264ad6746130c816', 1),
    'corpus/repeated': ('e26c0584d4ee1474', 1),
    'corpus/repeated_duration_timestamp': ('a96ebf715b5a680f', 1),
    'corpus/repeatedmessage': ('62f216c314cf05a4', 2),
    'corpus/repeatedpacked': ('8f95cad5768fa7a9', 1),
    'corpus/service': ('a7007b5d53464e45', 5),
    'corpus/service_separate_packages': ('169e5ee4a1d4c5f2', 4),
    'corpus/service_uppercase': ('7fb34825b24c995b', 2),
    'corpus/signed': ('fc754072be352e08', 1),
    'corpus/timestamp_dict_encode': ('f84409f5a9081188', 1)
}

if __name__ == "__main__":
    import json

    units = unit_checks()
    results = {name: outcome(files, parameter) for name, (files, parameter) in all_cases().items()}
    if "--record" in sys.argv:
        json.dump(results, open(sys.argv[sys.argv.index("--record") + 1], "w"))
        sys.exit(0)
    assert all(name in results for name in GOLDEN if not name.startswith("corpus/"))
    compared = 0
    for name, result in results.items():
        assert tuple(result) == tuple(GOLDEN[name]), (name, result, GOLDEN[name])
        if name.startswith("gen/") or (name.startswith("fixed/") and name.count("/") == 1):
            assert isinstance(result[1], int) and result[1] > 0, (name, result)
        compared += 1
    assert compared >= 40 + 3 * len(FIXED)
    print(f"equiv OK: {units} unit checks, {compared} plugin runs identical to the recorded output")
