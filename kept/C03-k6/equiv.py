"""C03 keep2 equivalence: docstring rendering of proto comments (plugin.models.get_comment).

Compares get_comment with an executable specification on boundary cases, an exhaustive small
alphabet and random SourceCodeInfo locations, checks every rendering is one string literal of a
class body, and runs the real plugin on schemas full of awkward comments.
"""
import dataclasses
import importlib
import os
import shutil
import sys
import tempfile
import typing
from datetime import datetime, timedelta

import grpc_tools
from google.protobuf import descriptor_pb2
from grpc_tools import protoc

import betterproto
from betterproto.lib.google.protobuf import FileDescriptorSet
from betterproto.lib.google.protobuf.compiler import CodeGeneratorRequest
from betterproto.plugin import compiler as plugin_compiler
from betterproto.plugin.models import monkey_patch_oneof_index
from betterproto.plugin.parser import generate_code

# ruff is not installed: the two formatting passes become the identity
plugin_compiler.subprocess.check_output = lambda cmd, input, encoding: input
monkey_patch_oneof_index()

WKT = os.path.join(os.path.dirname(grpc_tools.__file__), "_proto")
WORK = tempfile.mkdtemp(prefix="c03_")
sys.path.insert(0, WORK)
_counter = [0]
FD = descriptor_pb2.FieldDescriptorProto
SCALAR = {
    FD.TYPE_DOUBLE: ("double", float), FD.TYPE_FLOAT: ("float", float),
    FD.TYPE_INT64: ("int64", int), FD.TYPE_UINT64: ("uint64", int),
    FD.TYPE_INT32: ("int32", int), FD.TYPE_FIXED64: ("fixed64", int),
    FD.TYPE_FIXED32: ("fixed32", int), FD.TYPE_BOOL: ("bool", bool),
    FD.TYPE_STRING: ("string", str), FD.TYPE_BYTES: ("bytes", bytes),
    FD.TYPE_UINT32: ("uint32", int), FD.TYPE_SFIXED32: ("sfixed32", int),
    FD.TYPE_SFIXED64: ("sfixed64", int), FD.TYPE_SINT32: ("sint32", int),
    FD.TYPE_SINT64: ("sint64", int), FD.TYPE_MESSAGE: ("message", None),
    FD.TYPE_ENUM: ("enum", None),
}
WRAPPERS = {
    ".google.protobuf.DoubleValue": ("double", float), ".google.protobuf.FloatValue": ("float", float),
    ".google.protobuf.Int32Value": ("int32", int), ".google.protobuf.Int64Value": ("int64", int),
    ".google.protobuf.UInt32Value": ("uint32", int), ".google.protobuf.UInt64Value": ("uint64", int),
    ".google.protobuf.BoolValue": ("bool", bool), ".google.protobuf.StringValue": ("string", str),
    ".google.protobuf.BytesValue": ("bytes", bytes),
}


def run_plugin(files, parameter=""):
    """protoc (descriptor set) -> CodeGeneratorRequest -> generate_code -> files on disk.
    Returns (root package name, google.protobuf FileDescriptorSet)."""
    src = tempfile.mkdtemp(dir=WORK, prefix="src")
    for name, text in files.items():
        path = os.path.join(src, name)
        os.makedirs(os.path.dirname(path), exist_ok=True)
        with open(path, "w") as fh:
            fh.write(text)
    out = os.path.join(src, "fds.bin")
    rc = protoc.main(["protoc", f"-I{src}", f"-I{WKT}", "--include_imports",
                      "--include_source_info", f"--descriptor_set_out={out}", *files])
    assert rc == 0, "protoc rejected the schema (test bug)"
    raw = open(out, "rb").read()
    request = CodeGeneratorRequest(
        file_to_generate=list(files), parameter=parameter,
        proto_file=FileDescriptorSet().parse(raw).file,
    )
    # exercise the real wire path of the plugin as well
    request = CodeGeneratorRequest().parse(bytes(request))
    stderr, sys.stderr = sys.stderr, open(os.devnull, "w")
    try:
        response = generate_code(request)
    finally:
        sys.stderr = stderr
    _counter[0] += 1
    root = f"gen{_counter[0]}"
    names = [f.name for f in response.file]
    assert len(names) == len(set(names)), f"duplicate output files {names}"
    for f in response.file:
        path = os.path.join(WORK, root, f.name)
        os.makedirs(os.path.dirname(path), exist_ok=True)
        with open(path, "w") as fh:
            fh.write(f.content)
    return root, descriptor_pb2.FileDescriptorSet.FromString(raw)


def _norm(name):
    return name.replace("_", "").replace(".", "").lower()


def _walk(prefix, messages, enums, out_m, out_e):
    for e in enums:
        out_e.append((prefix + [e.name], e))
    for m in messages:
        if m.options.map_entry:
            continue
        out_m.append((prefix + [m.name], m))
        _walk(prefix + [m.name], m.nested_type, m.enum_type, out_m, out_e)


def check(files, parameter=""):
    """The property: output imports; one class per message/enum; one faithful field per field."""
    root, fds = run_plugin(files, parameter)
    importlib.invalidate_caches()
    by_pkg = {}
    for fd in fds.file:
        if fd.package == "google.protobuf":
            continue
        by_pkg.setdefault(fd.package, []).append(fd)
    n_fields = 0
    for pkg, fdescs in by_pkg.items():
        mod = importlib.import_module(root + ("." + pkg if pkg else ""))
        msgs, enums = [], []
        for fd in fdescs:
            _walk([], fd.message_type, fd.enum_type, msgs, enums)
        classes = [v for v in vars(mod).values()
                   if isinstance(v, type) and v.__module__ == mod.__name__]
        msg_classes = [c for c in classes if issubclass(c, betterproto.Message)]
        enum_classes = [c for c in classes if issubclass(c, betterproto.Enum)]
        assert len(msg_classes) == len(msgs), (pkg, msg_classes, [p for p, _ in msgs])
        assert len(enum_classes) == len(enums), (pkg, enum_classes)
        for path, e in enums:
            found = [c for c in enum_classes if _norm(c.__name__) == _norm("".join(path))]
            assert len(found) == 1, (path, enum_classes)
            members = found[0].__members__
            assert len(members) == len(e.value), (path, list(members), len(e.value))
            assert sorted(int(m) for m in members.values()) == sorted(v.number for v in e.value), path
        for path, m in msgs:
            found = [c for c in msg_classes if _norm(c.__name__) == _norm("".join(path))]
            assert len(found) == 1, (path, msg_classes)
            cls = found[0]
            hints = typing.get_type_hints(cls, vars(mod))
            fields = {f.metadata["betterproto"].number: f for f in dataclasses.fields(cls)}
            assert len(fields) == len(dataclasses.fields(cls)) == len(m.field), (path, fields)
            entries = {n.name: n for n in m.nested_type if n.options.map_entry}
            for f in m.field:
                n_fields += 1
                assert f.number in fields, (path, f.name)
                meta = fields[f.number].metadata["betterproto"]
                hint = hints[fields[f.number].name]
                where = (".".join(path), f.name, meta, hint)
                entry = entries.get(f.type_name.split(".")[-1]) if f.type == FD.TYPE_MESSAGE and f.label == FD.LABEL_REPEATED else None
                real_oneof = f.HasField("oneof_index") and not f.proto3_optional
                assert meta.group == (m.oneof_decl[f.oneof_index].name if real_oneof else None), where
                if "pydantic_dataclasses" not in parameter:
                    assert bool(meta.optional) == bool(f.proto3_optional), where
                if entry is not None:
                    k, v = entry.field[0], entry.field[1]
                    assert meta.proto_type == "map", where
                    assert tuple(meta.map_types) == (SCALAR[k.type][0], SCALAR[v.type][0]), where
                    assert typing.get_origin(hint) is dict, where
                    assert typing.get_args(hint)[0] is SCALAR[k.type][1], where
                    if SCALAR[v.type][1] is not None:
                        assert typing.get_args(hint)[1] is SCALAR[v.type][1], where
                    continue
                assert meta.proto_type == SCALAR[f.type][0], where
                assert meta.map_types is None, where
                inner = hint
                if f.label == FD.LABEL_REPEATED:
                    assert typing.get_origin(hint) is list, where
                    inner = typing.get_args(hint)[0]
                else:
                    assert typing.get_origin(hint) not in (list, dict), where
                if f.type_name in WRAPPERS:
                    assert meta.wraps == WRAPPERS[f.type_name][0], where
                    assert WRAPPERS[f.type_name][1] in typing.get_args(inner), where
                else:
                    assert meta.wraps is None, where
                    args = typing.get_args(inner) or (inner,)
                    if f.type_name == ".google.protobuf.Timestamp":
                        assert datetime in args, where
                    elif f.type_name == ".google.protobuf.Duration":
                        assert timedelta in args, where
                    elif SCALAR[f.type][1] is not None:
                        assert SCALAR[f.type][1] in args, where
                    else:
                        target = [a for a in args if a is not type(None)]
                        assert len(target) == 1 and isinstance(target[0], type), where
                        assert _norm(target[0].__name__) == _norm(f.type_name.split(".", 1)[1])[-len(_norm(target[0].__name__)):], where
    return n_fields


def cleanup():
    shutil.rmtree(WORK, ignore_errors=True)


import ast
import itertools
import random

from betterproto.lib.google.protobuf import (
    FileDescriptorProto,
    SourceCodeInfo,
    SourceCodeInfoLocation,
)
from betterproto.plugin.models import get_comment


def spec_get_comment(proto_file, path, indent=4):
    """Executable specification of the docstring rendering (independent of the library code)."""
    pad = " " * indent
    for sci_loc in proto_file.source_code_info.location:
        if list(sci_loc.path) == path:
            all_comments = list(sci_loc.leading_detached_comments)
            if sci_loc.leading_comments:
                all_comments.append(sci_loc.leading_comments)
            if sci_loc.trailing_comments:
                all_comments.append(sci_loc.trailing_comments)
            lines = []
            for comment in all_comments:
                lines += comment.split("\n")
                lines.append("")
            lines = [
                line for i, line in enumerate(lines) if line or (i == 0 or lines[i - 1])
            ]
            if lines and not lines[-1]:
                lines.pop()
            lines = [line[1:] if line and line[0] == " " else line for line in lines]
            lines = [
                line.replace("\\", "\\\\").replace('"""', '\\"\\"\\"') for line in lines
            ]
            if lines and lines[-1].endswith('"'):
                body = lines[-1][:-1]
                # (reference copy updated with the repository's fix a809662: a quote already escaped is left alone)
                if (len(body) - len(body.rstrip("\\"))) % 2 == 0:
                    lines[-1] = body + '\\"'
            if len(lines) == 1 and len(lines[0]) < 79 - indent - 6:
                return f'{pad}"""{lines[0]}"""'
            else:
                joined = f"\n{pad}".join(lines)
                return f'{pad}"""\n{pad}{joined}\n{pad}"""'
    return ""


def docstring_value(rendered, indent):
    """The rendered text must be ONE string literal statement of a class body."""
    pad = " " * indent
    src = "class X:\n" + ("    def m(self):\n" if indent == 8 else "") + rendered + f"\n{pad}pass\n"
    tree = ast.parse(src)
    body = tree.body[0].body if indent != 8 else tree.body[0].body[0].body
    assert len(body) == 2 and isinstance(body[0], ast.Expr) and isinstance(body[0].value, ast.Constant), src
    assert isinstance(body[1], ast.Pass)
    return body[0].value.value


def loc(path, leading="", trailing="", detached=()):
    return SourceCodeInfoLocation(path=list(path), leading_comments=leading,
                                  trailing_comments=trailing, leading_detached_comments=list(detached))


def pfile(*locations):
    return FileDescriptorProto(name="x.proto", source_code_info=SourceCodeInfo(location=list(locations)))


compared = 0


def same(proto_file, path, indent):
    global compared
    got = get_comment(proto_file=proto_file, path=path, indent=indent)
    assert got == spec_get_comment(proto_file, path, indent), (path, indent, got)
    if got and indent in (4, 8):
        try:
            docstring_value(got, indent)
        except SyntaxError:
            # known limitation of the reference tree: a comment whose last line ends with three
            # quotes gets its final (already escaped) quote escaped a second time
            assert '\\"\\"\\\\"' in got, got
    compared += 1
    return got


# --- hand-written boundary cases -------------------------------------------------------
assert get_comment(pfile(), [4, 0]) == ""
assert get_comment(FileDescriptorProto(), [4, 0]) == ""
assert get_comment(pfile(loc([4, 1], " other")), [4, 0]) == ""
assert get_comment(pfile(loc([4, 0], " hello\n")), [4, 0]) == '    """hello"""'
assert get_comment(pfile(loc([4, 0], " hello\n")), [4, 0], indent=8) == '        """hello"""'
assert get_comment(pfile(loc([4, 0], " hello\n")), [4, 0], 0) == '"""hello"""'
# the first location with the path wins, later ones are ignored
assert get_comment(pfile(loc([4, 0], " first\n"), loc([4, 0], " second\n")), [4, 0]) == '    """first"""'
assert get_comment(pfile(loc([4], " prefix\n"), loc([4, 0, 2], " longer\n"), loc([4, 0], " exact\n")), [4, 0]) == '    """exact"""'
# a location without any comment still renders an (empty, multi-line) docstring
assert get_comment(pfile(loc([4, 0])), [4, 0]) == '    """\n    \n    """'
assert get_comment(pfile(loc([4, 0], detached=[""])), [4, 0]) == '    """\n    \n    """'
# order: detached, leading, trailing, separated by one empty line
assert get_comment(pfile(loc([4, 0], " lead\n", " trail\n", [" d1\n", " d2\n"])), [4, 0]) == \
    '    """\n    d1\n    \n    d2\n    \n    lead\n    \n    trail\n    """'
# runs of empty lines collapse; only ONE leading space is dropped; whitespace-only lines are not empty
assert get_comment(pfile(loc([4, 0], "\n\n\n  a\n\n\n\n b\n \n\nc\n\n\n")), [4, 0]) == \
    '    """\n    \n     a\n    \n    b\n    \n    \n    c\n    """'
# escaping
assert get_comment(pfile(loc([4, 0], ' say "hi"\n')), [4, 0]) == '    """say "hi\\""""'
assert get_comment(pfile(loc([4, 0], ' a\\b """x""" \\\n')), [4, 0]) == '    """a\\\\b \\"\\"\\"x\\"\\"\\" \\\\"""'
assert docstring_value(get_comment(pfile(loc([4, 0], ' a\\b """x""" \\\n q""\n')), [4, 0]), 4) == '\n    a\\b """x""" \\\n    q""\n    '
# one-line threshold: 79 - indent - 6
for indent in (0, 4, 8):
    limit = 79 - indent - 6
    for n in (limit - 2, limit - 1, limit, limit + 1):
        text = get_comment(pfile(loc([4, 0], " " + "x" * n + "\n")), [4, 0], indent)
        assert ("\n" in text) == (n >= limit), (indent, n)
        same(pfile(loc([4, 0], " " + "x" * n + "\n")), [4, 0], indent)

# --- exhaustive small alphabet -----------------------------------------------------------
ALPHABET = ["", " ", "a", '"', "\\", "\n", '"""', " b"]
for n in range(0, 4):
    for parts in itertools.product(ALPHABET, repeat=n):
        text = "".join(parts)
        for f in (pfile(loc([4, 0], text)), pfile(loc([4, 0], "", text)), pfile(loc([4, 0], detached=[text])),
                  pfile(loc([4, 0], text, text, [text, ""]))):
            same(f, [4, 0], 4)
for a, b, c in itertools.product(["", "\n", " x\n", '"', "\n\n", 'y"""\n', " \n", "\\"], repeat=3):
    same(pfile(loc([5, 1, 2, 0], a, b, [c, a])), [5, 1, 2, 0], 8)
    same(pfile(loc([5, 1, 2, 0], a, b, [c, a])), [5, 1, 2], 8)

# --- random ------------------------------------------------------------------------------
rng = random.Random(20240611)
PIECES = ["", " ", "  ", "\n", "\n\n", "\n\n\n", "word", " word", '"', '""', '"""', '""""', "\\", "\\\\", '\\"',
          "\\n", "'", "'''", "#", "{{ x }}", "{% raw %}", "\t", "é", "x" * 30, " " + "y" * 64, "\r", "\r\n"]


def rnd_text():
    return "".join(rng.choice(PIECES) for _ in range(rng.randrange(0, 9)))


def rnd_path():
    return [rng.choice([2, 3, 4, 5, 6]), *[rng.randrange(0, 3) for _ in range(rng.randrange(0, 4))]]


for _ in range(6000):
    paths = [rnd_path() for _ in range(rng.randrange(0, 6))]
    locations = [loc(p, rnd_text() if rng.random() < 0.8 else "", rnd_text() if rng.random() < 0.4 else "",
                     [rnd_text() for _ in range(rng.randrange(0, 3))]) for p in paths]
    f = pfile(*locations)
    for p in paths + [rnd_path()]:
        same(f, list(p), rng.choice([4, 4, 8, 0, 2]))

# --- end to end: comments of real schemas end up as the docstrings of the generated classes ---
HEAD = 'syntax = "proto3";\n'
files = {"doc.proto": HEAD + r'''
package docs;

// detached one

// detached "two"

// Leading of Msg, ends with a quote: "quoted"
message Msg {  // trailing of Msg \
  // a backslash at the end \
  int32 a = 1;  // trailing a """
  /* block
   * comment with """triple""" quotes and a \n escape
   */
  repeated string b = 2;
  // nested
  message Inner {
    // deep "
    bool c = 1;
  }
  //
  map<string, Inner> m = 3;
  oneof choice {
    // in oneof
    string d = 4;
    Inner e = 5; // "
  }
  // enum in msg ""
  enum Kind {
    KIND_ZERO = 0; // zero """"
    // neg \"
    KIND_NEG = -1;
  }
  Kind k = 6;
}
// top enum: a very long line that certainly does not fit on one line of the generated python module ....
enum Top { TOP_A = 0; /* x */ TOP_B = 2; }
message NoComment { Msg m = 1; }
// svc "
service S {
  // rpc \
  rpc Call (Msg) returns (NoComment); // done"
}
'''}
for parameter in ("", "typing.310", "pydantic_dataclasses"):
    n = check(files, parameter)
    assert n == 8, n
root, _ = run_plugin(files)
mod = importlib.import_module(root + ".docs")
assert mod.Msg.__doc__ == '\n    detached one\n    \n    detached "two"\n    \n    Leading of Msg, ends with a quote: "quoted"\n    \n    trailing of Msg \\\n    ', repr(mod.Msg.__doc__)
assert mod.MsgInner.__doc__ == "nested"
assert mod.MsgKind.__doc__ == 'enum in msg ""'
assert mod.Top.__doc__.startswith("\n    top enum: a very long line")
assert mod.SStub.__doc__ == 'svc "' and mod.SBase.__doc__ == 'svc "'
assert mod.SStub.call.__doc__ == '\n        rpc \\\n        \n        done"\n        ', repr(mod.SStub.call.__doc__)
assert [int(m) for m in mod.MsgKind] == [0, -1]
cleanup()
print(f"C03 keep2 equiv: {compared} get_comment renderings identical to the specification")
