"""C02 keep1 equivalence check: Timestamp / Duration / wrapper / fixed-width mapping.

Exercises _Timestamp.from_datetime / to_datetime, _Duration.from_timedelta /
to_timedelta, _get_wrapper and _pack_fmt directly and through whole messages, and
compares against google.protobuf (well-known types + a dynamically built schema).
"""
import math
import random
import struct
from dataclasses import dataclass
from datetime import datetime, timedelta, timezone
from typing import List, Optional

import betterproto
from betterproto import _Duration, _Timestamp, _get_wrapper, _pack_fmt
from google.protobuf import (
    descriptor_pb2,
    descriptor_pool,
    duration_pb2,
    message_factory,
    timestamp_pb2,
    wrappers_pb2,
)

UTC = timezone.utc
EPOCH = datetime(1970, 1, 1, tzinfo=UTC)
US = timedelta(microseconds=1)
rnd = random.Random(0xC02)
F = descriptor_pb2.FieldDescriptorProto

# ------------------------------------------------------------------ sample values
DT_MIN = datetime(1, 1, 1, tzinfo=UTC)
DT_MAX = datetime(9999, 12, 31, 23, 59, 59, 999999, tzinfo=UTC)
datetimes = [
    DT_MIN, DT_MIN + US, DT_MAX, DT_MAX - US, EPOCH, EPOCH + US, EPOCH - US,
    EPOCH + timedelta(seconds=1), EPOCH - timedelta(seconds=1),
    EPOCH - timedelta(seconds=1, microseconds=500000),
    EPOCH - timedelta(microseconds=999999), EPOCH + timedelta(microseconds=999999),
    datetime(1969, 12, 31, 23, 59, 59, 999999, tzinfo=UTC),
    datetime(2038, 1, 19, 3, 14, 7, tzinfo=UTC), datetime(2038, 1, 19, 3, 14, 8, 1, tzinfo=UTC),
    datetime(1901, 12, 13, 20, 45, 52, tzinfo=UTC),
    datetime(2262, 4, 11, 23, 47, 16, 854775, tzinfo=UTC),
    datetime(2024, 2, 29, 12, 0, 0, 123456, tzinfo=timezone(timedelta(hours=5, minutes=30))),
    datetime(1960, 6, 1, 1, 2, 3, 4, tzinfo=timezone(timedelta(hours=-11))),
    datetime(9999, 12, 31, 23, 59, 59, 999999, tzinfo=UTC),
]
span_us = (DT_MAX - DT_MIN) // US
for _ in range(6000):
    datetimes.append(DT_MIN + rnd.randrange(span_us + 1) * US)
for _ in range(2000):  # near the epoch, both sides, every sub-second pattern
    datetimes.append(EPOCH + rnd.randrange(-5 * 10**6, 5 * 10**6) * US)
for _ in range(1000):  # whole seconds and whole milliseconds
    datetimes.append(DT_MIN + rnd.randrange(span_us // 10**6) * timedelta(seconds=1))
    datetimes.append(DT_MIN + rnd.randrange(span_us // 10**3) * timedelta(milliseconds=1))

deltas = [
    timedelta(0), US, -US, timedelta(seconds=1), timedelta(seconds=-1),
    timedelta(seconds=1, microseconds=500000), -timedelta(seconds=1, microseconds=500000),
    timedelta(microseconds=999999), -timedelta(microseconds=999999),
    timedelta(days=1), timedelta(days=-1), timedelta(days=-1, microseconds=1),
    timedelta(days=-1, seconds=86399, microseconds=999999),
    timedelta(days=3652500), -timedelta(days=3652500),  # ~ +-10000 years
    timedelta(days=3652500, seconds=86399, microseconds=999999),
    -timedelta(days=3652500, seconds=86399, microseconds=999999),
    timedelta(microseconds=2**53 + 1), -timedelta(microseconds=2**53 + 1),
    timedelta.max, timedelta.min, timedelta.max - US, timedelta.min + US,
]
for _ in range(6000):
    deltas.append(rnd.randrange(-315576000000 * 10**6, 315576000000 * 10**6) * US)
for _ in range(2000):
    deltas.append(rnd.randrange(-5 * 10**6, 5 * 10**6) * US)
for _ in range(1000):
    deltas.append(timedelta(seconds=rnd.randrange(-10**9, 10**9)))
    deltas.append(timedelta(milliseconds=rnd.randrange(-10**12, 10**12)))

# ------------------------------------------------------------------ 1. Timestamp mapping
n = 0
for dt in datetimes:
    ts = _Timestamp.from_datetime(dt)
    # independent spec-level expectation, in integers
    total_us = (dt - EPOCH) // US
    exp_s, exp_us = total_us // 10**6, total_us % 10**6
    assert type(ts.seconds) is int and type(ts.nanos) is int
    assert (ts.seconds, ts.nanos) == (exp_s, exp_us * 1000), dt
    assert 0 <= ts.nanos < 10**9
    # reference agrees, in both directions
    ref = timestamp_pb2.Timestamp()
    ref.FromDatetime(dt)
    assert (ref.seconds, ref.nanos) == (ts.seconds, ts.nanos), dt
    back = timestamp_pb2.Timestamp.FromString(bytes(ts))
    assert (back.seconds, back.nanos) == (exp_s, exp_us * 1000), dt
    got = _Timestamp().parse(ref.SerializeToString()).to_datetime()
    assert got == dt and got.tzinfo is UTC and got.utcoffset() == timedelta(0), dt
    assert got == ref.ToDatetime(tzinfo=UTC)
    # round trip through betterproto alone
    assert _Timestamp.from_datetime(dt).to_datetime() == dt
    n += 1
# sub-microsecond nanos written by the reference are truncated towards the past
for s, nanos in [(0, 999), (0, 1000), (0, 1999), (-1, 999999999), (-1, 1), (5, 123456789),
                 (-62135596800, 0), (253402300799, 999999999)]:
    ref = timestamp_pb2.Timestamp(seconds=s, nanos=nanos)
    got = _Timestamp().parse(ref.SerializeToString()).to_datetime()
    assert got == EPOCH + timedelta(seconds=s) + (nanos // 1000) * US, (s, nanos)
    n += 1
print("timestamps ok:", n)

# ------------------------------------------------------------------ 2. Duration mapping
n = 0
for td in deltas:
    du = _Duration.from_timedelta(td)
    total_us = td // US
    mag_s, mag_us = divmod(abs(total_us), 10**6)
    sgn = -1 if total_us < 0 else 1
    assert type(du.seconds) is int and type(du.nanos) is int
    assert (du.seconds, du.nanos) == (sgn * mag_s, sgn * mag_us * 1000), td
    assert du.seconds * du.nanos >= 0  # never of opposite sign
    assert du.seconds * 10**9 + du.nanos == total_us * 1000
    ref = duration_pb2.Duration()
    ref.FromTimedelta(td)
    assert (ref.seconds, ref.nanos) == (du.seconds, du.nanos), td
    back = duration_pb2.Duration.FromString(bytes(du))
    assert (back.seconds, back.nanos) == (du.seconds, du.nanos), td
    got = _Duration().parse(ref.SerializeToString()).to_timedelta()
    if abs(total_us) < 2**52:  # to_timedelta goes through float microseconds
        assert got == td, td
    assert got == _Duration(seconds=ref.seconds, nanos=ref.nanos).to_timedelta()
    n += 1
try:
    _Duration.from_timedelta(timedelta(seconds=1), _1_microsecond=US)
except TypeError:
    pass  # the private keyword is not part of the behaviour under test
print("durations ok:", n)

# ------------------------------------------------------------------ 3. tables
expected_wrappers = {
    betterproto.TYPE_BOOL: betterproto.BoolValue,
    betterproto.TYPE_BYTES: betterproto.BytesValue,
    betterproto.TYPE_DOUBLE: betterproto.DoubleValue,
    betterproto.TYPE_FLOAT: betterproto.FloatValue,
    betterproto.TYPE_INT32: betterproto.Int32Value,
    betterproto.TYPE_INT64: betterproto.Int64Value,
    betterproto.TYPE_STRING: betterproto.StringValue,
    betterproto.TYPE_UINT32: betterproto.UInt32Value,
    betterproto.TYPE_UINT64: betterproto.UInt64Value,
}
ALL_TYPES = [getattr(betterproto, a) for a in dir(betterproto) if a.startswith("TYPE_") and a != "TYPE_CHECKING"]
assert len(ALL_TYPES) == 18
for t in ALL_TYPES:
    if t in expected_wrappers:
        assert _get_wrapper(t) is expected_wrappers[t]
        assert _get_wrapper(t) is _get_wrapper(t)
    else:
        try:
            _get_wrapper(t)
        except KeyError as e:
            assert e.args == (t,)
        else:
            raise AssertionError(t)
expected_fmt = {"double": "<d", "float": "<f", "fixed32": "<I", "fixed64": "<Q", "sfixed32": "<i", "sfixed64": "<q"}
for t in ALL_TYPES + ["", "group", None]:
    if t in expected_fmt:
        assert _pack_fmt(t) == expected_fmt[t] and type(_pack_fmt(t)) is str
    else:
        try:
            _pack_fmt(t)
        except KeyError as e:
            assert e.args == (t,)
        else:
            raise AssertionError(t)
print("tables ok")


# ------------------------------------------------------------------ 4. whole messages vs reference
@dataclass(eq=False, repr=False)
class Sub(betterproto.Message):
    at: datetime = betterproto.message_field(1)
    took: timedelta = betterproto.message_field(2)


@dataclass(eq=False, repr=False)
class M(betterproto.Message):
    ts: datetime = betterproto.message_field(1)
    du: timedelta = betterproto.message_field(2)
    tss: List[datetime] = betterproto.message_field(3)
    dus: List[timedelta] = betterproto.message_field(4)
    wb: Optional[bool] = betterproto.message_field(5, wraps=betterproto.TYPE_BOOL)
    wy: Optional[bytes] = betterproto.message_field(6, wraps=betterproto.TYPE_BYTES)
    wd: Optional[float] = betterproto.message_field(7, wraps=betterproto.TYPE_DOUBLE)
    wf: Optional[float] = betterproto.message_field(8, wraps=betterproto.TYPE_FLOAT)
    wi32: Optional[int] = betterproto.message_field(9, wraps=betterproto.TYPE_INT32)
    wi64: Optional[int] = betterproto.message_field(10, wraps=betterproto.TYPE_INT64)
    ws: Optional[str] = betterproto.message_field(11, wraps=betterproto.TYPE_STRING)
    wu32: Optional[int] = betterproto.message_field(12, wraps=betterproto.TYPE_UINT32)
    wu64: Optional[int] = betterproto.message_field(13, wraps=betterproto.TYPE_UINT64)
    f_double: float = betterproto.double_field(14)
    f_float: float = betterproto.float_field(15)
    f_fixed32: int = betterproto.fixed32_field(16)
    f_fixed64: int = betterproto.fixed64_field(17)
    f_sfixed32: int = betterproto.sfixed32_field(18)
    f_sfixed64: int = betterproto.sfixed64_field(19)
    r_double: List[float] = betterproto.double_field(20)
    r_float: List[float] = betterproto.float_field(21)
    r_fixed32: List[int] = betterproto.fixed32_field(22)
    r_fixed64: List[int] = betterproto.fixed64_field(23)
    r_sfixed32: List[int] = betterproto.sfixed32_field(24)
    r_sfixed64: List[int] = betterproto.sfixed64_field(25)
    sub: Sub = betterproto.message_field(26)
    ots: Optional[datetime] = betterproto.message_field(27, optional=True)
    odu: Optional[timedelta] = betterproto.message_field(28, optional=True)
    one_ts: datetime = betterproto.message_field(29, group="pick")
    one_du: timedelta = betterproto.message_field(30, group="pick")


WRAP = {"wb": "BoolValue", "wy": "BytesValue", "wd": "DoubleValue", "wf": "FloatValue",
        "wi32": "Int32Value", "wi64": "Int64Value", "ws": "StringValue",
        "wu32": "UInt32Value", "wu64": "UInt64Value"}
FIXED = {"double": F.TYPE_DOUBLE, "float": F.TYPE_FLOAT, "fixed32": F.TYPE_FIXED32,
         "fixed64": F.TYPE_FIXED64, "sfixed32": F.TYPE_SFIXED32, "sfixed64": F.TYPE_SFIXED64}


def build_reference():
    fd = descriptor_pb2.FileDescriptorProto(
        name="c02_keep1_equiv.proto", package="c02k1", syntax="proto3",
        dependency=["google/protobuf/timestamp.proto", "google/protobuf/duration.proto",
                    "google/protobuf/wrappers.proto"],
    )
    TS, DU = ".google.protobuf.Timestamp", ".google.protobuf.Duration"
    sub = fd.message_type.add(name="Sub")
    sub.field.add(name="at", number=1, type=F.TYPE_MESSAGE, type_name=TS, label=F.LABEL_OPTIONAL)
    sub.field.add(name="took", number=2, type=F.TYPE_MESSAGE, type_name=DU, label=F.LABEL_OPTIONAL)
    m = fd.message_type.add(name="M")
    m.oneof_decl.add(name="pick")
    m.oneof_decl.add(name="_ots")
    m.oneof_decl.add(name="_odu")

    def msg(name, number, type_name, label=F.LABEL_OPTIONAL, **kw):
        m.field.add(name=name, number=number, type=F.TYPE_MESSAGE, type_name=type_name, label=label, **kw)

    msg("ts", 1, TS)
    msg("du", 2, DU)
    msg("tss", 3, TS, F.LABEL_REPEATED)
    msg("dus", 4, DU, F.LABEL_REPEATED)
    for i, (name, w) in enumerate(WRAP.items()):
        msg(name, 5 + i, ".google.protobuf." + w)
    for i, (name, t) in enumerate(FIXED.items()):
        m.field.add(name="f_" + name, number=14 + i, type=t, label=F.LABEL_OPTIONAL)
        m.field.add(name="r_" + name, number=20 + i, type=t, label=F.LABEL_REPEATED)
    msg("sub", 26, ".c02k1.Sub")
    msg("ots", 27, TS, oneof_index=1, proto3_optional=True)
    msg("odu", 28, DU, oneof_index=2, proto3_optional=True)
    msg("one_ts", 29, TS, oneof_index=0)
    msg("one_du", 30, DU, oneof_index=0)
    pool = descriptor_pool.Default()
    pool.Add(fd)
    return message_factory.GetMessageClass(pool.FindMessageTypeByName("c02k1.M"))


RM = build_reference()

f32 = lambda x: struct.unpack("<f", struct.pack("<f", x))[0]
FIXED_VALUES = {
    "double": [0.0, -0.0, 1.5, -2.25, 1e308, -1e308, 5e-324, 2.0**53 + 1, math.inf, -math.inf, math.nan, 0.1],
    "float": [0.0, -0.0, 1.5, -2.25, f32(3.4e38), f32(1e-45), f32(0.1), math.inf, -math.inf, math.nan, 16777216.0],
    "fixed32": [0, 1, 127, 128, 2**31 - 1, 2**31, 2**32 - 1],
    "fixed64": [0, 1, 2**32, 2**63 - 1, 2**63, 2**64 - 1],
    "sfixed32": [0, 1, -1, 2**31 - 1, -(2**31)],
    "sfixed64": [0, 1, -1, 2**63 - 1, -(2**63), 2**32, -(2**32)],
}
WRAP_VALUES = {
    "wb": [None, False, True],
    "wy": [None, b"", b"\x00", b"\xff" * 200],
    "wd": [None, 0.0, 1.5, -1e300, math.inf, math.nan],
    "wf": [None, 0.0, 1.5, -2.25, math.inf],
    "wi32": [None, 0, 1, -1, 2**31 - 1, -(2**31)],
    "wi64": [None, 0, 1, -1, 2**63 - 1, -(2**63)],
    "ws": [None, "", "a", "é中\U0001F600" * 50],
    "wu32": [None, 0, 1, 2**32 - 1],
    "wu64": [None, 0, 1, 2**64 - 1],
}


def same_float(a, b):
    return (math.isnan(a) and math.isnan(b)) or (a == b and math.copysign(1, a) == math.copysign(1, b))


def set_ref_ts(field, dt):
    field.FromDatetime(dt)


def ref_view(r):
    """Value/presence view of a reference message in betterproto's vocabulary."""
    v = {}
    v["ts"] = r.ts.ToDatetime(tzinfo=UTC) if r.HasField("ts") else None
    v["du"] = r.du.ToTimedelta() if r.HasField("du") else None
    v["tss"] = [t.ToDatetime(tzinfo=UTC) for t in r.tss]
    v["dus"] = [d.ToTimedelta() for d in r.dus]
    for name in WRAP:
        v[name] = getattr(r, name).value if r.HasField(name) else None
    for name in FIXED:
        v["f_" + name] = getattr(r, "f_" + name)
        v["r_" + name] = list(getattr(r, "r_" + name))
    v["sub.at"] = r.sub.at.ToDatetime(tzinfo=UTC) if r.sub.HasField("at") else None
    v["sub.took"] = r.sub.took.ToTimedelta() if r.sub.HasField("took") else None
    v["ots"] = r.ots.ToDatetime(tzinfo=UTC) if r.HasField("ots") else None
    v["odu"] = r.odu.ToTimedelta() if r.HasField("odu") else None
    which = r.WhichOneof("pick")
    v["pick"] = (which, None if which is None else
                 (r.one_ts.ToDatetime(tzinfo=UTC) if which == "one_ts" else r.one_du.ToTimedelta()))
    return v


def bp_view(b, unset_plain):
    """Same view of a betterproto message. Plain (non-optional) Timestamp/Duration
    fields have no presence in betterproto: an absent one reads as the zero value,
    which ``unset_plain`` maps back to None for the comparison."""
    v = {}
    v["ts"] = None if ("ts" in unset_plain and b.ts == EPOCH) else b.ts
    v["du"] = None if ("du" in unset_plain and b.du == timedelta(0)) else b.du
    v["tss"] = list(b.tss)
    v["dus"] = list(b.dus)
    for name in WRAP:
        v[name] = getattr(b, name)
    for name in FIXED:
        v["f_" + name] = getattr(b, "f_" + name)
        v["r_" + name] = list(getattr(b, "r_" + name))
    v["sub.at"] = None if ("sub.at" in unset_plain and b.sub.at == EPOCH) else b.sub.at
    v["sub.took"] = None if ("sub.took" in unset_plain and b.sub.took == timedelta(0)) else b.sub.took
    v["ots"] = b.ots
    v["odu"] = b.odu
    which, val = betterproto.which_one_of(b, "pick")
    v["pick"] = (which or None, val)
    return v


def assert_same_view(a, b, ctx):
    assert a.keys() == b.keys()
    for k in a:
        x, y = a[k], b[k]
        if isinstance(x, float) and isinstance(y, float):
            assert same_float(x, y), (ctx, k, x, y)
        elif isinstance(x, list) and x and isinstance(x[0], float):
            assert len(x) == len(y) and all(same_float(p, q) for p, q in zip(x, y)), (ctx, k, x, y)
        else:
            assert x == y, (ctx, k, x, y)
            assert type(x) is type(y) or k.startswith(("f_", "r_")) or x is None, (ctx, k, type(x), type(y))


def random_case(i):
    """kwargs for both implementations: name -> python value (None/absent = unset)."""
    kw = {}
    pick = lambda seq: seq[rnd.randrange(len(seq))]
    if rnd.random() < 0.7:
        kw["ts"] = pick(datetimes)
    if rnd.random() < 0.7:
        kw["du"] = pick(deltas[:-4])  # (timedelta.max/min themselves are only used in the direct checks above)
    kw["tss"] = [pick(datetimes) for _ in range(rnd.randrange(4))]
    kw["dus"] = [pick(deltas[:-4]) for _ in range(rnd.randrange(4))]
    for name, vals in WRAP_VALUES.items():
        kw[name] = vals[i % len(vals)] if rnd.random() < 0.8 else None
    for name, vals in FIXED_VALUES.items():
        # (a singular -0.0 equals the default for betterproto and is not written:
        # pre-existing behaviour, irrelevant here - it only appears in repeated fields)
        singles = [x for x in vals if not (isinstance(x, float) and x == 0 and math.copysign(1, x) < 0)]
        kw["f_" + name] = singles[i % len(singles)]
        kw["r_" + name] = [pick(vals) for _ in range(rnd.randrange(5))]
    if rnd.random() < 0.5:
        kw["sub.at"] = pick(datetimes)
    if rnd.random() < 0.5:
        kw["sub.took"] = pick(deltas[:-4])
    if rnd.random() < 0.5:
        kw["ots"] = pick(datetimes + [EPOCH] * 500)
    if rnd.random() < 0.5:
        kw["odu"] = pick(deltas[:-4] + [timedelta(0)] * 500)
    r = rnd.random()
    if r < 0.33:
        kw["one_ts"] = pick(datetimes + [EPOCH] * 500)
    elif r < 0.66:
        kw["one_du"] = pick(deltas[:-4] + [timedelta(0)] * 500)
    return kw


def build_bp(kw):
    args = {k: v for k, v in kw.items() if "." not in k and v is not None}
    sub = {k.split(".")[1]: v for k, v in kw.items() if k.startswith("sub.")}
    if sub:
        args["sub"] = Sub(**sub)
    return M(**args)


def build_ref(kw):
    r = RM()
    for k, v in kw.items():
        if v is None:
            continue
        if k in ("ts", "ots", "one_ts"):
            getattr(r, k).FromDatetime(v)
        elif k in ("du", "odu", "one_du"):
            getattr(r, k).FromTimedelta(v)
        elif k == "tss":
            for dt in v:
                r.tss.add().FromDatetime(dt)
        elif k == "dus":
            for td in v:
                r.dus.add().FromTimedelta(td)
        elif k in WRAP:
            getattr(r, k).value = v
        elif k == "sub.at":
            r.sub.at.FromDatetime(v)
        elif k == "sub.took":
            r.sub.took.FromTimedelta(v)
        elif k.startswith("r_"):
            getattr(r, k).extend(v)
        else:
            setattr(r, k, v)
    return r


# Durations whose magnitude is beyond float-exact microseconds are decoded by
# betterproto's to_timedelta through a float; restrict message-level samples to the
# proto-valid +-10000 year range, where 2**52 us (~142 years) still matters:
def exact_td(td):
    return abs(td // US) < 2**52


n = 0
for i in range(1500):
    kw = random_case(i)
    for k in ("du", "odu", "one_du", "sub.took"):
        if kw.get(k) is not None and not exact_td(kw[k]):
            kw[k] = timedelta(seconds=-(i + 1), microseconds=-(i % 1000))
    kw["dus"] = [td if exact_td(td) else timedelta(microseconds=-(i + 1)) for td in kw["dus"]]
    bp, ref = build_bp(kw), build_ref(kw)
    expected = ref_view(ref)
    # plain Timestamp/Duration fields at their zero value are not written by betterproto
    zero_plain = {k for k, z in (("ts", EPOCH), ("du", timedelta(0)), ("sub.at", EPOCH), ("sub.took", timedelta(0)))
                  if kw.get(k) is None or kw.get(k) == z}
    # betterproto -> reference
    got = ref_view(RM.FromString(bytes(bp)))
    exp_b2r = dict(expected)
    for k in zero_plain:
        exp_b2r[k] = None
    assert_same_view(got, exp_b2r, ("bp->ref", i))
    # reference -> betterproto
    got = bp_view(M().parse(ref.SerializeToString()), zero_plain)
    exp_r2b = dict(expected)
    for k in zero_plain:
        exp_r2b[k] = None
    assert_same_view(got, exp_r2b, ("ref->bp", i))
    # size bookkeeping agrees with the emitted bytes
    assert len(bp) == len(bytes(bp))
    n += 1
print("messages ok:", n)
print("ALL OK")
