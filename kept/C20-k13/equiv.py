"""Behaviour of the varint writer (encode_varint / dump_varint) that every enum
number goes through on its way to the wire, checked against an independent
reference, against google.protobuf, and through messages with enum fields in
singular, repeated (packed), map-value, oneof and optional positions."""
import random
from dataclasses import dataclass
from io import BytesIO
from typing import Dict, List, Optional

import betterproto
from betterproto import decode_varint, dump_varint, encode_varint, load_varint, size_varint

from google.protobuf import descriptor_pb2, descriptor_pool, message_factory
from google.protobuf.internal import encoder as pb_encoder

ERR = (
    "Negative value is not representable as a 64-bit integer - unable to encode "
    "a varint within 10 bytes."
)


def reference(value: int) -> bytes:
    """Textbook base-128 varint of the 64-bit two's complement of value."""
    assert value >= -(1 << 63)
    if value < 0:
        value += 1 << 64
    out = []
    while True:
        group = value % 128
        value //= 128
        if value:
            out.append(group + 128)
        else:
            out.append(group)
            return bytes(out)


class Recorder:
    """A write-only stream: only the concatenation of what is written matters."""

    def __init__(self):
        self.data = b""

    def write(self, chunk):
        assert isinstance(chunk, (bytes, bytearray))
        self.data += chunk
        return len(chunk)


rng = random.Random(20)
values = set()
for k in range(0, 71):
    for d in (-2, -1, 0, 1, 2):
        values.add((1 << k) + d)
        values.add(-(1 << k) + d)
for k in range(1, 11):
    values.add((1 << (7 * k)) - 1)
    values.add(1 << (7 * k))
values.update(range(-300, 300))
values.update(rng.randrange(-(1 << 31), 1 << 31) for _ in range(4000))
values.update(rng.randrange(-(1 << 63), 1 << 64) for _ in range(4000))
values.update(rng.randrange(0, 1 << 80) for _ in range(200))  # over-long, still defined
values = sorted(v for v in values if v >= -(1 << 63))

for v in values:
    enc = encode_varint(v)
    assert type(enc) is bytes
    assert enc == reference(v), v
    assert all(b & 0x80 for b in enc[:-1]) and not enc[-1] & 0x80
    if v < 0:
        assert len(enc) == 10
    # the stream writer produces the very same bytes, on any kind of stream
    with BytesIO() as stream:
        assert dump_varint(v, stream) is None
        assert stream.getvalue() == enc
    rec = Recorder()
    dump_varint(v, rec)
    assert rec.data == enc
    if v < (1 << 64):
        assert len(enc) == size_varint(v), v
        # google.protobuf agrees
        if v >= 0:
            assert enc == pb_encoder._VarintBytes(v), v
        # both readers give the (unsigned 64-bit) number back
        unsigned = v % (1 << 64)
        assert decode_varint(enc, 0) == (unsigned, len(enc))
        assert load_varint(BytesIO(enc)) == (unsigned, enc)

# bool and int subclasses (enum members / placeholders are ints)
assert encode_varint(True) == b"\x01" and encode_varint(False) == b"\x00"


class Colour(betterproto.Enum):
    BLACK = 0
    RED = 1
    CRIMSON = 1
    BIG = 300
    COLD = -1
    LOWEST = -2147483648
    HIGHEST = 2147483647


for number in list(range(-130, 131)) + [-(1 << 31), (1 << 31) - 1, 127, 128, 16383, 16384]:
    member = Colour.try_value(number)
    assert encode_varint(member) == reference(number)
    assert type(encode_varint(member)) is bytes
    stream = BytesIO()
    dump_varint(member, stream)
    assert stream.getvalue() == reference(number)

# error path: nothing is written, same exception and message
for bad in (-(1 << 63) - 1, -(1 << 64), -(1 << 100)):
    for call in (lambda: encode_varint(bad), lambda: dump_varint(bad, Recorder())):
        try:
            call()
        except ValueError as exc:
            assert str(exc) == ERR
        else:
            raise AssertionError("expected ValueError")
    rec = Recorder()
    try:
        dump_varint(bad, rec)
    except ValueError:
        pass
    assert rec.data == b""
for not_an_int in (1.5, "1", None):
    try:
        encode_varint(not_an_int)
    except TypeError:
        pass
    else:
        raise AssertionError("expected TypeError")


# ---- messages with enum fields, compared with google.protobuf -------------------
@dataclass(eq=False, repr=False)
class Holder(betterproto.Message):
    single: Colour = betterproto.enum_field(1)
    many: List[Colour] = betterproto.enum_field(2)
    by_key: Dict[int, Colour] = betterproto.map_field(
        3, betterproto.TYPE_INT32, betterproto.TYPE_ENUM
    )
    pick_a: Colour = betterproto.enum_field(4, group="pick")
    pick_b: int = betterproto.int64_field(5, group="pick")
    maybe: Optional[Colour] = betterproto.enum_field(6, optional=True)
    far: Colour = betterproto.enum_field(70000)


def build_pb_class():
    fdp = descriptor_pb2.FileDescriptorProto(
        name="c20_keep1.proto", package="c20k1", syntax="proto3"
    )
    enum = fdp.enum_type.add(name="Colour")
    enum.options.allow_alias = True
    for name, number in [
        ("BLACK", 0), ("RED", 1), ("CRIMSON", 1), ("BIG", 300), ("COLD", -1),
        ("LOWEST", -2147483648), ("HIGHEST", 2147483647),
    ]:
        enum.value.add(name=name, number=number)
    msg = fdp.message_type.add(name="Holder")
    F = descriptor_pb2.FieldDescriptorProto
    msg.field.add(name="single", number=1, type=F.TYPE_ENUM, type_name=".c20k1.Colour",
                  label=F.LABEL_OPTIONAL)
    msg.field.add(name="many", number=2, type=F.TYPE_ENUM, type_name=".c20k1.Colour",
                  label=F.LABEL_REPEATED)
    entry = msg.nested_type.add(name="ByKeyEntry")
    entry.options.map_entry = True
    entry.field.add(name="key", number=1, type=F.TYPE_INT32, label=F.LABEL_OPTIONAL)
    entry.field.add(name="value", number=2, type=F.TYPE_ENUM, type_name=".c20k1.Colour",
                    label=F.LABEL_OPTIONAL)
    msg.field.add(name="by_key", number=3, type=F.TYPE_MESSAGE,
                  type_name=".c20k1.Holder.ByKeyEntry", label=F.LABEL_REPEATED)
    msg.oneof_decl.add(name="pick")
    msg.field.add(name="pick_a", number=4, type=F.TYPE_ENUM, type_name=".c20k1.Colour",
                  label=F.LABEL_OPTIONAL, oneof_index=0)
    msg.field.add(name="pick_b", number=5, type=F.TYPE_INT64, label=F.LABEL_OPTIONAL,
                  oneof_index=0)
    msg.oneof_decl.add(name="_maybe")
    msg.field.add(name="maybe", number=6, type=F.TYPE_ENUM, type_name=".c20k1.Colour",
                  label=F.LABEL_OPTIONAL, oneof_index=1, proto3_optional=True)
    msg.field.add(name="far", number=70000, type=F.TYPE_ENUM, type_name=".c20k1.Colour",
                  label=F.LABEL_OPTIONAL)
    pool = descriptor_pool.DescriptorPool()
    pool.Add(fdp)
    return message_factory.GetMessageClass(pool.FindMessageTypeByName("c20k1.Holder"))


PbHolder = build_pb_class()
interesting = [0, 1, 2, 5, 127, 128, 300, 16383, 16384, -1, -2, -128, -129,
               (1 << 31) - 1, -(1 << 31), (1 << 31) - 2, -(1 << 31) + 1]


def number(r):
    return r.choice(interesting) if r.random() < 0.6 else r.randrange(-(1 << 31), 1 << 31)


def numbers(msg):
    out = {
        "single": int(msg.single),
        "many": [int(x) for x in msg.many],
        "by_key": {int(k): int(v) for k, v in msg.by_key.items()},
        "maybe": None if msg.maybe is None else int(msg.maybe),
        "far": int(msg.far),
    }
    which, value = betterproto.which_one_of(msg, "pick")
    out["pick"] = (which, None if value is None else int(value))
    return out


for round_no in range(1500):
    r = random.Random(round_no)
    kwargs = {}
    pb = PbHolder()
    if r.random() < 0.8:
        kwargs["single"] = Colour.try_value(number(r))
        pb.single = int(kwargs["single"])
    if r.random() < 0.8:
        kwargs["many"] = [Colour.try_value(number(r)) for _ in range(r.randrange(0, 6))]
        pb.many.extend(int(x) for x in kwargs["many"])
    if r.random() < 0.8:
        kwargs["by_key"] = {
            r.randrange(-5, 400): Colour.try_value(number(r)) for _ in range(r.randrange(0, 4))
        }
        for k, v in kwargs["by_key"].items():
            pb.by_key[k] = int(v)
    pick = r.random()
    if pick < 0.4:
        kwargs["pick_a"] = Colour.try_value(number(r))
        pb.pick_a = int(kwargs["pick_a"])
    elif pick < 0.6:
        kwargs["pick_b"] = r.choice([0, -1, 1 << 40, -(1 << 63), (1 << 63) - 1])
        pb.pick_b = kwargs["pick_b"]
    if r.random() < 0.6:
        kwargs["maybe"] = Colour.try_value(number(r))
        pb.maybe = int(kwargs["maybe"])
    if r.random() < 0.5:
        kwargs["far"] = Colour.try_value(number(r))
        pb.far = int(kwargs["far"])

    msg = Holder(**kwargs)
    data = bytes(msg)
    assert len(msg) == len(data)
    # same bytes as the reference implementation (maps: same single-entry order)
    assert data == pb.SerializeToString(deterministic=False) or len(kwargs.get("by_key", {})) > 1
    # the reference implementation reads our bytes back to the same numbers
    back_pb = PbHolder.FromString(data)
    assert back_pb == pb, round_no
    # and we read our own bytes and theirs back to the same numbers
    for wire in (data, pb.SerializeToString()):
        back = Holder().parse(wire)
        assert numbers(back) == numbers(msg), round_no
        assert back == msg
    # delimited streaming uses dump_varint for the size prefix
    stream = BytesIO()
    msg.dump(stream, betterproto.SIZE_DELIMITED)
    assert stream.getvalue() == reference(len(data)) + data
    stream.seek(0)
    assert Holder().load(stream, betterproto.SIZE_DELIMITED) == msg

# canonical members come back for defined numbers, open placeholders otherwise
back = Holder().parse(bytes(Holder(single=Colour.COLD, many=[Colour.LOWEST, 77, -77])))
assert back.single is Colour.COLD and back.many[0] is Colour.LOWEST
assert back.many[1] == 77 and back.many[1].name is None
assert back.many[2] == -77 and back.many[2].name is None

print("ok")
