"""C04 / keep2: the per-class tables that to_dict / from_dict consult
(ProtoClassMetadata.cls_by_field and .default_gen, Message._cls_for,
Message._get_field_default_gen) and the JSON / dict round trip that is driven by them.

All annotations in this file are strings (PEP 563), several are forward or recursive
references, so every class really goes through typing.get_type_hints."""
from __future__ import annotations

import dataclasses
import json
import random
import struct
from dataclasses import dataclass
from datetime import datetime, timedelta, timezone
from typing import Dict, List, Optional

import betterproto
from betterproto import Casing
from google.protobuf import (
    descriptor_pb2,
    descriptor_pool,
    duration_pb2,
    json_format,
    message_factory,
    timestamp_pb2,
    wrappers_pb2,
)

rnd = random.Random(4102)
UTC = timezone.utc


class Kind(betterproto.Enum):
    KIND_UNSPECIFIED = 0
    SMALL = 1
    LARGE = 2
    NEGATIVE = -4


@dataclass(eq=False, repr=False)
class Leaf(betterproto.Message):
    a: int = betterproto.int32_field(1)
    b: str = betterproto.string_field(2)


@dataclass(eq=False, repr=False)
class Node(betterproto.Message):
    """Recursive and forward references."""

    value: int = betterproto.int64_field(1)
    child: Node = betterproto.message_field(2)
    children: List[Node] = betterproto.message_field(3)
    by_name: Dict[str, Node] = betterproto.map_field(4, "string", "message")
    later: Later = betterproto.message_field(5)
    maybe_child: Optional[Node] = betterproto.message_field(6, optional=True)


@dataclass(eq=False, repr=False)
class Later(betterproto.Message):
    kind: Kind = betterproto.enum_field(1)
    back: Node = betterproto.message_field(2)


@dataclass(eq=False, repr=False)
class Empty(betterproto.Message):
    pass


@dataclass(eq=False, repr=False)
class Everything(betterproto.Message):
    s_int32: int = betterproto.int32_field(1)
    s_uint64: int = betterproto.uint64_field(2)
    s_sint64: int = betterproto.sint64_field(3)
    s_double: float = betterproto.double_field(4)
    s_float: float = betterproto.float_field(5)
    s_bool: bool = betterproto.bool_field(6)
    s_string: str = betterproto.string_field(7)
    s_bytes: bytes = betterproto.bytes_field(8)
    s_kind: Kind = betterproto.enum_field(9)
    s_leaf: Leaf = betterproto.message_field(10)
    s_time: datetime = betterproto.message_field(11)
    s_span: timedelta = betterproto.message_field(12)
    s_empty: Empty = betterproto.message_field(13)

    o_int32: Optional[int] = betterproto.int32_field(20, optional=True)
    o_fixed64: int | None = betterproto.fixed64_field(21, optional=True)
    o_string: Optional[str] = betterproto.string_field(22, optional=True)
    o_bytes: bytes | None = betterproto.bytes_field(23, optional=True)
    o_kind: Optional[Kind] = betterproto.enum_field(24, optional=True)
    o_leaf: Optional[Leaf] = betterproto.message_field(25, optional=True)
    o_time: Optional[datetime] = betterproto.message_field(26, optional=True)
    o_span: timedelta | None = betterproto.message_field(27, optional=True)
    o_double: Optional[float] = betterproto.double_field(28, optional=True)
    o_bool: Optional[bool] = betterproto.bool_field(29, optional=True)

    r_int32: List[int] = betterproto.int32_field(30)
    r_sfixed64: List[int] = betterproto.sfixed64_field(31)
    r_double: List[float] = betterproto.double_field(32)
    r_string: List[str] = betterproto.string_field(33)
    r_bytes: List[bytes] = betterproto.bytes_field(34)
    r_kind: List[Kind] = betterproto.enum_field(35)
    r_leaf: List[Leaf] = betterproto.message_field(36)
    r_time: List[datetime] = betterproto.message_field(37)
    r_span: List[timedelta] = betterproto.message_field(38)
    r_bool: List[bool] = betterproto.bool_field(39)

    w_int64: Optional[int] = betterproto.message_field(40, wraps=betterproto.TYPE_INT64)
    w_uint32: Optional[int] = betterproto.message_field(41, wraps=betterproto.TYPE_UINT32)
    w_double: Optional[float] = betterproto.message_field(42, wraps=betterproto.TYPE_DOUBLE)
    w_bool: Optional[bool] = betterproto.message_field(43, wraps=betterproto.TYPE_BOOL)
    w_string: Optional[str] = betterproto.message_field(44, wraps=betterproto.TYPE_STRING)
    w_bytes: Optional[bytes] = betterproto.message_field(45, wraps=betterproto.TYPE_BYTES)

    m_str_int64: Dict[str, int] = betterproto.map_field(50, "string", "int64")
    m_int32_str: Dict[int, str] = betterproto.map_field(51, "int32", "string")
    m_bool_leaf: Dict[bool, Leaf] = betterproto.map_field(52, "bool", "message")
    m_sint64_kind: Dict[int, Kind] = betterproto.map_field(53, "sint64", "enum")
    m_str_time: Dict[str, datetime] = betterproto.map_field(54, "string", "message")
    m_str_span: Dict[str, timedelta] = betterproto.map_field(55, "string", "message")
    m_str_bytes: Dict[str, bytes] = betterproto.map_field(56, "string", "bytes")
    m_uint64_double: Dict[int, float] = betterproto.map_field(57, "uint64", "double")
    m_fixed32_bool: Dict[int, bool] = betterproto.map_field(58, "fixed32", "bool")

    u_int32: int = betterproto.int32_field(60, group="pick")
    u_string: str = betterproto.string_field(61, group="pick")
    u_kind: Kind = betterproto.enum_field(62, group="pick")
    u_leaf: Leaf = betterproto.message_field(63, group="pick")
    u_time: datetime = betterproto.message_field(64, group="pick")
    u_span: timedelta = betterproto.message_field(65, group="pick")
    u_int64: int = betterproto.int64_field(66, group="pick")
    u_bytes: bytes = betterproto.bytes_field(67, group="pick")
    u_empty: Empty = betterproto.message_field(68, group="pick")


# --------------------------------------------------------- 1. the tables themselves
NONE = type(None)
ZERO_TIME = betterproto.datetime_default_gen
EXPECT = {
    # field: (cls_by_field entry, default_gen entry)
    "s_int32": (int, int), "s_uint64": (int, int), "s_sint64": (int, int),
    "s_double": (float, float), "s_float": (float, float), "s_bool": (bool, bool),
    "s_string": (str, str), "s_bytes": (bytes, bytes), "s_kind": (Kind, Kind.try_value),
    "s_leaf": (Leaf, Leaf), "s_time": (datetime, ZERO_TIME), "s_span": (timedelta, timedelta),
    "s_empty": (Empty, Empty),
    "o_int32": (int, NONE), "o_fixed64": (int, NONE), "o_string": (str, NONE),
    "o_bytes": (bytes, NONE), "o_kind": (Kind, NONE), "o_leaf": (Leaf, NONE),
    "o_time": (datetime, NONE), "o_span": (timedelta, NONE), "o_double": (float, NONE),
    "o_bool": (bool, NONE),
    "r_int32": (int, list), "r_sfixed64": (int, list), "r_double": (float, list),
    "r_string": (str, list), "r_bytes": (bytes, list), "r_kind": (Kind, list),
    "r_leaf": (Leaf, list), "r_time": (datetime, list), "r_span": (timedelta, list),
    "r_bool": (bool, list),
    "w_int64": (int, NONE), "w_uint32": (int, NONE), "w_double": (float, NONE),
    "w_bool": (bool, NONE), "w_string": (str, NONE), "w_bytes": (bytes, NONE),
    "u_int32": (int, int), "u_string": (str, str), "u_kind": (Kind, Kind.try_value),
    "u_leaf": (Leaf, Leaf), "u_time": (datetime, ZERO_TIME), "u_span": (timedelta, timedelta),
    "u_int64": (int, int), "u_bytes": (bytes, bytes), "u_empty": (Empty, Empty),
}
EXPECT_MAPS = {
    "m_str_int64": (str, int, "string", "int64"),
    "m_int32_str": (int, str, "int32", "string"),
    "m_bool_leaf": (bool, Leaf, "bool", "message"),
    "m_sint64_kind": (int, Kind, "sint64", "enum"),
    "m_str_time": (str, datetime, "string", "message"),
    "m_str_span": (str, timedelta, "string", "message"),
    "m_str_bytes": (str, bytes, "string", "bytes"),
    "m_uint64_double": (int, float, "uint64", "double"),
    "m_fixed32_bool": (int, bool, "fixed32", "bool"),
}


def same_callable(a, b):
    # bound classmethods (Kind.try_value) are re-created on every access
    return a == b


def check_tables(cls, expect, expect_maps):
    meta = cls._betterproto
    fields = {f.name: f for f in dataclasses.fields(cls)}
    assert set(meta.default_gen) == set(fields)
    assert list(meta.default_gen) == list(fields)
    expected_keys = []
    for name in fields:
        expected_keys.append(name)
        if name in expect_maps:
            expected_keys.append(f"{name}.value")
    assert list(meta.cls_by_field) == expected_keys, list(meta.cls_by_field)
    for name, (klass, gen) in expect.items():
        assert meta.cls_by_field[name] is klass, (name, meta.cls_by_field[name])
        assert same_callable(meta.default_gen[name], gen), (name, meta.default_gen[name])
        assert cls._cls_for(fields[name]) is klass
        assert cls._cls_for(fields[name], index=0) is klass
        assert same_callable(cls._get_field_default_gen(fields[name]), gen)
    for name, (kt, vt, kproto, vproto) in expect_maps.items():
        assert meta.default_gen[name] is dict
        assert cls._get_field_default_gen(fields[name]) is dict
        assert meta.cls_by_field[f"{name}.value"] is vt
        assert cls._cls_for(fields[name], index=0) is kt
        assert cls._cls_for(fields[name], index=1) is vt
        entry = meta.cls_by_field[name]
        assert issubclass(entry, betterproto.Message) and entry.__name__ == "Entry"
        entry_fields = {f.name: f for f in dataclasses.fields(entry)}
        assert list(entry_fields) == ["key", "value"]
        assert entry_fields["key"].type is kt and entry_fields["value"].type is vt
        kmeta = betterproto.FieldMetadata.get(entry_fields["key"])
        vmeta = betterproto.FieldMetadata.get(entry_fields["value"])
        assert (kmeta.number, kmeta.proto_type) == (1, kproto)
        assert (vmeta.number, vmeta.proto_type) == (2, vproto)
    # a negative index hands back the whole annotation
    hints = cls._type_hints()
    for name, f in fields.items():
        assert cls._cls_for(f, index=-1) == hints[name], name


check_tables(Everything, EXPECT, EXPECT_MAPS)
check_tables(
    Node,
    {"value": (int, int), "child": (Node, Node), "children": (Node, list),
     "later": (Later, Later), "maybe_child": (Node, NONE)},
    {"by_name": (str, Node, "string", "message")},
)
check_tables(Later, {"kind": (Kind, Kind.try_value), "back": (Node, Node)}, {})
check_tables(Leaf, {"a": (int, int), "b": (str, str)}, {})
check_tables(Empty, {}, {})
# the library's own well-known types go through the same tables
for wk in (betterproto.Timestamp, betterproto.Duration, betterproto.Int64Value,
           betterproto.BytesValue, betterproto.BoolValue, betterproto.StringValue):
    meta = wk._betterproto
    assert set(meta.cls_by_field) == set(meta.default_gen) == {f.name for f in dataclasses.fields(wk)}
assert betterproto.Timestamp._betterproto.cls_by_field == {"seconds": int, "nanos": int}
assert betterproto.BytesValue._betterproto.cls_by_field == {"value": bytes}

# default values produced through the tables
e = Everything()
assert e.s_int32 == 0 and e.s_kind == 0 and isinstance(e.s_kind, Kind) and e.s_kind.name == "KIND_UNSPECIFIED"
assert e.s_time == datetime(1970, 1, 1, tzinfo=UTC) and e.s_span == timedelta(0)
assert e.s_leaf == Leaf() and e.o_leaf is None and e.w_int64 is None and e.o_span is None
assert e.r_leaf == [] and e.m_bool_leaf == {} and e.s_bytes == b"" and e.s_double == 0.0
assert e.to_dict() == {} and bytes(e) == b""
n = Node()
assert n.child == Node() and n.children == [] and n.by_name == {} and n.later == Later()
assert n.later.back == Node() and n.maybe_child is None


# ------------------------------------------------------------- 2. value generators
def f32(x):
    return struct.unpack("<f", struct.pack("<f", x))[0]


def g_int32():
    return rnd.choice([0, 1, -1, 2**31 - 1, -(2**31), rnd.randrange(-1000, 1000)])


def g_int64():
    return rnd.choice([0, 1, -1, 2**53 + 1, 2**63 - 1, -(2**63), rnd.randrange(-(10**12), 10**12)])


def g_uint64():
    return rnd.choice([0, 1, 2**53 + 1, 2**63, 2**64 - 1, rnd.randrange(10**15)])


def g_uint32():
    return rnd.choice([0, 1, 2**32 - 1, rnd.randrange(10**6)])


def g_double():
    return rnd.choice([0.0, 1.5, -2.25, 1e-7, 1e300, float("inf"), -float("inf"), float("nan"),
                       rnd.uniform(-1e6, 1e6)])


def g_float():
    return rnd.choice([0.0, 1.5, -2.25, float("inf"), -float("inf"), f32(rnd.uniform(-100, 100))])


def g_bool():
    return rnd.random() < 0.5


def g_string():
    return rnd.choice(["", "a", "héllo", "snow☃", "q\"uote", "tab\t", "x" * rnd.randrange(10)])


def g_bytes():
    return rnd.choice([b"", b"\x00", b"\xfb\xff", bytes(rnd.randrange(256) for _ in range(rnd.randrange(8)))])


def g_kind():
    return rnd.choice([Kind.KIND_UNSPECIFIED, Kind.SMALL, Kind.LARGE, Kind.NEGATIVE])


def g_leaf():
    return rnd.choice([Leaf(), Leaf(a=g_int32()), Leaf(b=g_string()), Leaf(a=1, b="z")])


def g_time():
    base = datetime(1970, 1, 1, tzinfo=UTC)
    return base + timedelta(
        seconds=rnd.choice([0, 1, -1, 1700000000, -2000000000, rnd.randrange(-(10**9), 4 * 10**9)]),
        microseconds=rnd.choice([0, 0, 500000, 123000, 123456, 1]),
    )


def g_span():
    return rnd.choice([
        timedelta(0), timedelta(seconds=1), timedelta(seconds=-1), timedelta(microseconds=-500000),
        timedelta(microseconds=1), timedelta(days=rnd.randrange(-3000, 3000), microseconds=rnd.randrange(10**6)),
        timedelta(seconds=rnd.randrange(-(10**6), 10**6), milliseconds=rnd.randrange(1000)),
    ])


def g_list(gen):
    return [gen() for _ in range(rnd.randrange(1, 4))]


def g_map(kgen, vgen):
    return {kgen(): vgen() for _ in range(rnd.randrange(1, 4))}


GEN = {
    "s_int32": g_int32, "s_uint64": g_uint64, "s_sint64": g_int64, "s_double": g_double,
    "s_float": g_float, "s_bool": g_bool, "s_string": g_string, "s_bytes": g_bytes,
    "s_kind": g_kind, "s_leaf": g_leaf, "s_time": g_time, "s_span": g_span, "s_empty": Empty,
    "o_int32": g_int32, "o_fixed64": g_uint64, "o_string": g_string, "o_bytes": g_bytes,
    "o_kind": g_kind, "o_leaf": g_leaf, "o_time": g_time, "o_span": g_span,
    "o_double": g_double, "o_bool": g_bool,
    "r_int32": lambda: g_list(g_int32), "r_sfixed64": lambda: g_list(g_int64),
    "r_double": lambda: g_list(lambda: rnd.choice([0.0, -1.5, 1e9, float("inf")])),
    "r_string": lambda: g_list(g_string), "r_bytes": lambda: g_list(g_bytes),
    "r_kind": lambda: g_list(g_kind), "r_leaf": lambda: g_list(g_leaf),
    "r_time": lambda: g_list(g_time), "r_span": lambda: g_list(g_span),
    "r_bool": lambda: g_list(g_bool),
    "w_int64": g_int64, "w_uint32": g_uint32, "w_double": g_double, "w_bool": g_bool,
    "w_string": g_string, "w_bytes": g_bytes,
    "m_str_int64": lambda: g_map(g_string, g_int64),
    "m_int32_str": lambda: g_map(g_int32, g_string),
    "m_bool_leaf": lambda: g_map(g_bool, g_leaf),
    "m_sint64_kind": lambda: g_map(g_int64, g_kind),
    "m_str_time": lambda: g_map(g_string, g_time),
    "m_str_span": lambda: g_map(g_string, g_span),
    "m_str_bytes": lambda: g_map(g_string, g_bytes),
    "m_uint64_double": lambda: g_map(g_uint64, lambda: rnd.choice([0.0, 2.5, float("inf"), float("nan")])),
    "m_fixed32_bool": lambda: g_map(g_uint32, g_bool),
    "u_int32": g_int32, "u_string": g_string, "u_kind": g_kind, "u_leaf": g_leaf,
    "u_time": g_time, "u_span": g_span, "u_int64": g_int64, "u_bytes": g_bytes, "u_empty": Empty,
}
assert set(GEN) == {f.name for f in dataclasses.fields(Everything)}
ONEOF = [name for name in GEN if name.startswith("u_")]
OTHERS = [name for name in GEN if not name.startswith("u_")]


def random_everything(density):
    kwargs = {name: GEN[name]() for name in OTHERS if rnd.random() < density}
    if rnd.random() < 0.8:
        pick = rnd.choice(ONEOF)
        kwargs[pick] = GEN[pick]()
    return Everything(**kwargs)


def random_node(depth):
    kwargs = {}
    if rnd.random() < 0.7:
        kwargs["value"] = g_int64()
    if depth > 0:
        if rnd.random() < 0.6:
            kwargs["child"] = random_node(depth - 1)
        if rnd.random() < 0.6:
            kwargs["children"] = [random_node(depth - 1) for _ in range(rnd.randrange(3))]
        if rnd.random() < 0.6:
            kwargs["by_name"] = {g_string(): random_node(depth - 1) for _ in range(rnd.randrange(3))}
        if rnd.random() < 0.5:
            kwargs["later"] = Later(kind=g_kind(), back=random_node(depth - 1))
        if rnd.random() < 0.4:
            kwargs["maybe_child"] = random_node(depth - 1)
    return Node(**kwargs)


# ---------------------------------------------------------------- 3. google mirror
T = descriptor_pb2.FieldDescriptorProto
pool = descriptor_pool.Default()
for mod in (timestamp_pb2, duration_pb2, wrappers_pb2):
    assert pool.FindFileByName(mod.DESCRIPTOR.name)
WELL_KNOWN = {datetime: ".google.protobuf.Timestamp", timedelta: ".google.protobuf.Duration"}
WRAPPER = {
    "int64": ".google.protobuf.Int64Value", "uint32": ".google.protobuf.UInt32Value",
    "double": ".google.protobuf.DoubleValue", "bool": ".google.protobuf.BoolValue",
    "string": ".google.protobuf.StringValue", "bytes": ".google.protobuf.BytesValue",
}
fdp = descriptor_pb2.FileDescriptorProto(
    name="c04_keep2.proto", package="c04k2", syntax="proto3",
    dependency=["google/protobuf/timestamp.proto", "google/protobuf/duration.proto",
                "google/protobuf/wrappers.proto"],
)
en = fdp.enum_type.add(name="Kind")
for member in Kind:
    en.value.add(name=member.name, number=member.value)


def type_name_for(klass):
    if klass in WELL_KNOWN:
        return WELL_KNOWN[klass]
    return f".c04k2.{klass.__name__}"


def set_type(fd, proto_type, klass, wraps=None):
    if proto_type == "message":
        fd.type = T.TYPE_MESSAGE
        fd.type_name = WRAPPER[wraps] if wraps else type_name_for(klass)
    elif proto_type == "enum":
        fd.type = T.TYPE_ENUM
        fd.type_name = ".c04k2.Kind"
    else:
        fd.type = getattr(T, f"TYPE_{proto_type.upper()}")


def mirror(cls):
    """Describe a betterproto class to google.protobuf, using betterproto's own tables."""
    msg = fdp.message_type.add(name=cls.__name__)
    groups, synthetic = {}, []
    meta_tables = cls._betterproto
    for name, meta in meta_tables.meta_by_field_name.items():
        fd = msg.field.add(name=name, number=meta.number, label=T.LABEL_OPTIONAL)
        klass = meta_tables.cls_by_field[name]
        if meta.proto_type == "map":
            entry_name = "".join(w.capitalize() for w in name.split("_")) + "Entry"
            entry = msg.nested_type.add(name=entry_name)
            entry.options.map_entry = True
            k = entry.field.add(name="key", number=1, label=T.LABEL_OPTIONAL)
            set_type(k, meta.map_types[0], None)
            v = entry.field.add(name="value", number=2, label=T.LABEL_OPTIONAL)
            set_type(v, meta.map_types[1], meta_tables.cls_by_field[f"{name}.value"])
            fd.label = T.LABEL_REPEATED
            fd.type = T.TYPE_MESSAGE
            fd.type_name = f".c04k2.{cls.__name__}.{entry_name}"
            continue
        set_type(fd, meta.proto_type, klass, meta.wraps)
        if meta_tables.default_gen[name] is list:
            fd.label = T.LABEL_REPEATED
        if meta.group:
            if meta.group not in groups:
                groups[meta.group] = len(msg.oneof_decl)
                msg.oneof_decl.add(name=meta.group)
            fd.oneof_index = groups[meta.group]
        elif meta.optional and meta.proto_type != "message":
            synthetic.append(fd)
    for fd in synthetic:
        fd.proto3_optional = True
        fd.oneof_index = len(msg.oneof_decl)
        msg.oneof_decl.add(name=f"_{fd.name}")


for klass in (Leaf, Empty, Node, Later, Everything):
    mirror(klass)
pool.Add(fdp)
G = {
    klass: message_factory.GetMessageClass(pool.FindMessageTypeByName(f"c04k2.{klass.__name__}"))
    for klass in (Node, Everything)
}


# ------------------------------------------------------------------ 4. round trips
def has_nan_in_container(m):
    for name in m._betterproto.meta_by_field_name:
        try:
            v = getattr(m, name)
        except AttributeError:
            continue
        items = v.values() if isinstance(v, dict) else v if isinstance(v, list) else ()
        if any(isinstance(i, float) and i != i for i in items):
            return True
    return False


def check_round_trip(m, mirror_cls):
    cls = type(m)
    wire = bytes(m)
    reparsed = cls().parse(wire)
    assert bytes(reparsed) == wire
    nan_inside = has_nan_in_container(m)
    g = mirror_cls()
    g.ParseFromString(wire)
    g_wire = g.SerializeToString(deterministic=True)
    for casing in (Casing.CAMEL, Casing.SNAKE):
        d = m.to_dict(casing=casing)
        text = json.dumps(d)
        assert json.loads(text) == json.loads(m.to_json(casing=casing))
        assert text == m.to_json(casing=casing)
        assert reparsed.to_dict(casing=casing) == d or nan_inside
        for back in (cls.from_dict(d), cls().from_dict(d), cls().from_json(text)):
            if nan_inside:
                # Message.__eq__ tolerates NaN only outside containers
                assert json.dumps(back.to_dict(casing=casing)) == text
            else:
                assert back == m, (casing, d)
            assert bytes(back) == wire, (casing, d)
        # google.protobuf reads our JSON to the same message as our bytes
        g2 = json_format.Parse(text, mirror_cls())
        assert g2.SerializeToString(deterministic=True) == g_wire, (casing, text)
        # and we read google's JSON to the same message
        theirs = json_format.MessageToJson(g, preserving_proto_field_name=casing is Casing.SNAKE)
        ours = cls().from_json(theirs)
        g3 = mirror_cls()
        g3.ParseFromString(bytes(ours))
        assert g3.SerializeToString(deterministic=True) == g_wire, (casing, theirs)


count = 0
for density in (0.0, 0.1, 0.3, 0.6, 1.0):
    for _ in range(60):
        check_round_trip(random_everything(density), G[Everything])
        count += 1
# each field alone, several times (incl. default-valued oneof / optional members)
for name in GEN:
    for _ in range(6):
        check_round_trip(Everything(**{name: GEN[name]()}), G[Everything])
        count += 1
for name, zero in (("u_int32", 0), ("u_string", ""), ("u_kind", Kind.KIND_UNSPECIFIED), ("u_leaf", Leaf()),
                   ("u_time", datetime(1970, 1, 1, tzinfo=UTC)), ("u_span", timedelta(0)), ("u_int64", 0),
                   ("u_bytes", b""), ("u_empty", Empty()), ("o_int32", 0), ("o_fixed64", 0), ("o_string", ""),
                   ("o_bytes", b""), ("o_kind", Kind.KIND_UNSPECIFIED), ("o_leaf", Leaf()),
                   ("o_time", datetime(1970, 1, 1, tzinfo=UTC)), ("o_span", timedelta(0)), ("o_double", 0.0),
                   ("o_bool", False), ("w_int64", 0), ("w_uint32", 0), ("w_double", 0.0), ("w_bool", False),
                   ("w_string", ""), ("w_bytes", b""), ("s_empty", Empty())):
    m = Everything(**{name: zero})
    d = m.to_dict()
    assert list(d) == [Casing.CAMEL(name)], (name, d)
    check_round_trip(m, G[Everything])
    count += 1
for depth in (0, 1, 2, 3):
    for _ in range(40):
        check_round_trip(random_node(depth), G[Node])
        count += 1

print(f"OK ({count} messages round-tripped, tables of 5 classes checked)")
