"""C16 keep1: load_fields / parse_fields (the field readers that sit directly on top of
load_varint / decode_varint / _read_exact) behave exactly as an independent model:
same fields, same raw bytes, same stream position, same exception type and message
for truncated / over-long / malformed input. Also checks the 15 scalar kinds through
Message.parse / bytes() against google.protobuf.
"""
import io
import itertools
import random
import struct
import sys
from dataclasses import dataclass
from typing import List, Optional

import betterproto
from betterproto import (
    decode_varint,
    encode_varint,
    load_fields,
    load_varint,
    parse_fields,
    size_varint,
)

EOF_VARINT = "Stream ended unexpectedly while attempting to load varint."
TOO_MANY = "Too many bytes when decoding varint."
EOF_BUF = "Buffer ended unexpectedly in the middle of a field."


class Stop(Exception):
    def __init__(self, exc_type, msg):
        self.exc_type, self.msg = exc_type, msg


def model_varint(buf, pos):
    """(value, new pos) or Stop, exactly like load_varint on a stream at pos."""
    value = 0
    for n in range(10):
        if pos + n >= len(buf):
            raise Stop(EOFError, EOF_VARINT)
        byte = buf[pos + n]
        value |= (byte & 0x7F) << (7 * n)
        if not byte & 0x80:
            return value, pos + n + 1
    raise Stop(ValueError, TOO_MANY)


def model(buf, streaming):
    """Returns (list of (number, wire_type, value, raw), None | (exc type, message))."""
    out = []
    pos = 0
    try:
        while pos < len(buf):
            start = pos
            tag, pos = model_varint(buf, pos)
            number, wire_type = tag >> 3, tag & 7
            if number == 0:
                raise Stop(ValueError, "Invalid field number 0.")
            if wire_type == 0:
                value, pos = model_varint(buf, pos)
            elif wire_type in (1, 5, 2):
                if wire_type == 2:
                    need, pos = model_varint(buf, pos)
                else:
                    need = 8 if wire_type == 1 else 4
                avail = len(buf) - pos
                if streaming and need > sys.maxsize:
                    # BytesIO.read() cannot take such a size (10-byte length prefix)
                    raise Stop(OverflowError, "cannot fit 'int' into an index-sized integer")
                if avail < need:
                    if streaming:
                        raise Stop(
                            EOFError,
                            f"Stream ended unexpectedly: expected {need} bytes but got {max(avail, 0)}.",
                        )
                    raise Stop(EOFError, EOF_BUF)
                value = buf[pos : pos + need]
                pos += need
            else:
                raise Stop(
                    ValueError, f"Unsupported wire type {wire_type} in field {number}."
                )
            out.append((number, wire_type, value, buf[start:pos]))
    except Stop as stop:
        return out, (stop.exc_type, stop.msg)
    return out, None


def run(gen, after_each=None):
    out = []
    try:
        for f in gen:
            assert type(f) is betterproto.ParsedField
            out.append((f.number, f.wire_type, f.value, f.raw))
            if after_each:
                after_each(out)
    except Exception as exc:  # noqa: BLE001 - we compare type and text
        return out, (type(exc), str(exc))
    return out, None


def check(buf):
    want_stream = model(buf, streaming=True)
    want_buffer = model(buf, streaming=False)

    got_buffer = run(parse_fields(buf))
    assert got_buffer == want_buffer, (buf.hex(), got_buffer, want_buffer)

    stream = io.BytesIO(buf)

    def position_matches(fields):
        assert stream.tell() == sum(len(f[3]) for f in fields), buf.hex()

    got_stream = run(load_fields(stream), position_matches)
    assert got_stream == want_stream, (buf.hex(), got_stream, want_stream)
    for f in got_stream[0]:
        assert type(f[3]) is bytes
        if f[1] != 0:
            assert type(f[2]) is bytes
    return want_buffer


# ------------------------------------------------------------ exhaustive short inputs
n_ok = n_err = 0
for length in (0, 1, 2):
    for tup in itertools.product(range(256), repeat=length):
        _, err = check(bytes(tup))
        if err:
            n_err += 1
        else:
            n_ok += 1
assert n_ok > 1000 and n_err > 1000

# ------------------------------------------------------------------- random garbage
rng = random.Random(1601)
for _ in range(30000):
    check(bytes(rng.getrandbits(8) for _ in range(rng.randrange(3, 14))))
# bytes biased towards continuation bits / small tags
for _ in range(20000):
    n = rng.randrange(1, 24)
    check(bytes(rng.choice((0x80, 0xFF, 0x00, 0x01, 0x08, 0x09, 0x0A, 0x0D, 0x7F, rng.getrandbits(8))) for _ in range(n)))


# ----------------------------------------- well-formed messages and all their prefixes
def rand_varint_value():
    kind = rng.randrange(5)
    if kind == 0:
        return rng.randrange(0, 300)
    if kind == 1:
        return (1 << (7 * rng.randrange(1, 10))) + rng.choice((-1, 0, 1))
    if kind == 2:
        return rng.randrange(-(2**63), 0)
    if kind == 3:
        return rng.choice((2**32 - 1, 2**32, 2**63 - 1, 2**63, 2**64 - 1, -(2**63), -1))
    return rng.getrandbits(rng.randrange(1, 65))


def rand_field():
    number = rng.choice((1, 2, 15, 16, 2047, 2048, 2**29 - 1, rng.randrange(1, 2**29)))
    wt = rng.choice((0, 1, 2, 5))
    key = encode_varint((number << 3) | wt)
    if wt == 0:
        v = rand_varint_value()
        payload = encode_varint(v)
        if rng.random() < 0.2 and len(payload) < 10:  # non-minimal but legal
            payload = payload[:-1] + bytes([payload[-1] | 0x80]) + b"\x00"
        expect = model_varint(payload, 0)[0]
    elif wt == 1:
        payload = expect = bytes(rng.getrandbits(8) for _ in range(8))
    elif wt == 5:
        payload = expect = bytes(rng.getrandbits(8) for _ in range(4))
    else:
        expect = bytes(rng.getrandbits(8) for _ in range(rng.choice((0, 1, 2, 127, 128, 300))))
        payload = encode_varint(len(expect)) + expect
    return (number, wt, expect, key + payload)


for _ in range(1500):
    fields = [rand_field() for _ in range(rng.randrange(1, 6))]
    buf = b"".join(f[3] for f in fields)
    got, err = check(buf)
    assert err is None and got == fields
    # every proper prefix: fields before the cut are delivered, then clean end or EOF
    cuts = range(len(buf)) if len(buf) < 60 else sorted(rng.sample(range(len(buf)), 60))
    boundaries = set(itertools.accumulate(len(f[3]) for f in fields)) | {0}
    for cut in cuts:
        got, err = check(buf[:cut])
        if cut in boundaries:
            assert err is None
        else:
            assert err is not None and err[0] is EOFError, (buf.hex(), cut, err)

# tags / values with 10 and 11 byte varints
for body in (b"\xff" * 9 + b"\x01", b"\xff" * 9 + b"\x7f", b"\x80" * 9 + b"\x00"):
    got, err = check(b"\x08" + body)
    assert err is None and got[0][3] == b"\x08" + body
for body in (b"\xff" * 10 + b"\x01", b"\x80" * 10 + b"\x00", b"\x80" * 10):
    assert check(b"\x08" + body)[1] == (ValueError, TOO_MANY)
    assert check(body)[1] == (ValueError, TOO_MANY)
assert check(b"\x00")[1] == (ValueError, "Invalid field number 0.")
assert check(b"\x07\x00")[1] == (ValueError, "Invalid field number 0.")
for wt in (3, 4, 6, 7):
    assert check(bytes([8 | wt]) + b"\x00" * 9)[1] == (
        ValueError,
        f"Unsupported wire type {wt} in field 1.",
    )

# ------------------------------------------- varint primitives the readers are built on
for v in itertools.chain(range(0, 40000), (rand_varint_value() for _ in range(20000))):
    enc = encode_varint(v)
    u = v + 2**64 if v < 0 else v
    assert len(enc) == size_varint(v) == max(1, -(-u.bit_length() // 7))
    assert all(b & 0x80 for b in enc[:-1]) and not enc[-1] & 0x80
    assert decode_varint(enc, 0) == (u, len(enc))
    assert load_varint(io.BytesIO(enc)) == (u, enc)
    assert load_varint(io.BytesIO(enc[1:]), enc[:1]) == (u, enc)

# --------------------------------------------- the 15 scalar kinds vs google.protobuf
from google.protobuf import descriptor_pb2, descriptor_pool, message_factory

F = descriptor_pb2.FieldDescriptorProto
KINDS = [
    ("double", F.TYPE_DOUBLE), ("float", F.TYPE_FLOAT), ("int32", F.TYPE_INT32),
    ("int64", F.TYPE_INT64), ("uint32", F.TYPE_UINT32), ("uint64", F.TYPE_UINT64),
    ("sint32", F.TYPE_SINT32), ("sint64", F.TYPE_SINT64), ("fixed32", F.TYPE_FIXED32),
    ("fixed64", F.TYPE_FIXED64), ("sfixed32", F.TYPE_SFIXED32), ("sfixed64", F.TYPE_SFIXED64),
    ("bool", F.TYPE_BOOL), ("string", F.TYPE_STRING), ("bytes", F.TYPE_BYTES),
]
fdp = descriptor_pb2.FileDescriptorProto(name="c16_keep1.proto", package="c16k1", syntax="proto3")
mdp = fdp.message_type.add(name="Scalars")
for idx, (name, typ) in enumerate(KINDS, 1):
    mdp.field.add(name="f_" + name, number=idx, type=typ, label=F.LABEL_OPTIONAL)
pool = descriptor_pool.DescriptorPool()
pool.Add(fdp)
RefScalars = message_factory.GetMessageClass(pool.FindMessageTypeByName("c16k1.Scalars"))


@dataclass(eq=False, repr=False)
class Scalars(betterproto.Message):
    f_double: float = betterproto.double_field(1)
    f_float: float = betterproto.float_field(2)
    f_int32: int = betterproto.int32_field(3)
    f_int64: int = betterproto.int64_field(4)
    f_uint32: int = betterproto.uint32_field(5)
    f_uint64: int = betterproto.uint64_field(6)
    f_sint32: int = betterproto.sint32_field(7)
    f_sint64: int = betterproto.sint64_field(8)
    f_fixed32: int = betterproto.fixed32_field(9)
    f_fixed64: int = betterproto.fixed64_field(10)
    f_sfixed32: int = betterproto.sfixed32_field(11)
    f_sfixed64: int = betterproto.sfixed64_field(12)
    f_bool: bool = betterproto.bool_field(13)
    f_string: str = betterproto.string_field(14)
    f_bytes: bytes = betterproto.bytes_field(15)


@dataclass(eq=False, repr=False)
class Nothing(betterproto.Message):
    pass


def f32(x):
    return struct.unpack("<f", struct.pack("<f", x))[0]


S32 = [1, -1, 2**31 - 1, -(2**31), 127, 128, -128, -129, 2**28, -(2**28) - 1, 2**21]
S64 = S32 + [2**63 - 1, -(2**63), 2**32, -(2**32) - 1, 2**56, -(2**56)]
U32 = [1, 127, 128, 16383, 16384, 2**28, 2**31, 2**32 - 1]
U64 = U32 + [2**32, 2**35 - 1, 2**35, 2**63 - 1, 2**63, 2**64 - 1]
SAMPLES = {
    "double": [1.0, -1.5, 1e308, 5e-324, float("inf"), -float("inf"), 0.1, 2.0**-1022],
    "float": [1.0, -1.5, f32(3.4e38), f32(1e-45), float("inf"), -float("inf"), f32(0.1)],
    "int32": S32, "int64": S64, "uint32": U32, "uint64": U64,
    "sint32": S32, "sint64": S64, "fixed32": U32, "fixed64": U64,
    "sfixed32": S32, "sfixed64": S64, "bool": [True],
    "string": ["a", "é中\U0001f600", "x" * 127, "x" * 128, "x" * 20000],
    "bytes": [b"\x00", b"\xff" * 127, b"\x80" * 128, bytes(range(256)) * 70],
}
for name, _ in KINDS:
    for _ in range(60):
        if name in ("int32", "sint32", "sfixed32"):
            SAMPLES[name].append(rng.randrange(-(2**31), 2**31))
        elif name in ("int64", "sint64", "sfixed64"):
            SAMPLES[name].append(rng.randrange(-(2**63), 2**63))
        elif name in ("uint32", "fixed32"):
            SAMPLES[name].append(rng.randrange(1, 2**32))
        elif name in ("uint64", "fixed64"):
            SAMPLES[name].append(rng.randrange(1, 2**64))
        elif name == "double":
            SAMPLES[name].append(struct.unpack("<d", struct.pack("<Q", rng.getrandbits(64)))[0])

count = 0
for name, _ in KINDS:
    for v in SAMPLES[name]:
        if isinstance(v, float) and v != v:
            continue  # NaN: equality below would not hold
        ref = RefScalars(**{"f_" + name: v})
        wire = ref.SerializeToString()
        mine = Scalars(**{"f_" + name: v})
        assert bytes(mine) == wire, (name, v, bytes(mine).hex(), wire.hex())
        assert len(mine) == len(wire)
        back = Scalars().parse(wire)
        assert getattr(back, "f_" + name) == v, (name, v)
        assert type(getattr(back, "f_" + name)) is type(v)
        assert bytes(back) == wire
        buf = io.BytesIO()
        mine.dump(buf, betterproto.SIZE_DELIMITED)
        buf.seek(0)
        assert getattr(Scalars().load(buf, betterproto.SIZE_DELIMITED), "f_" + name) == v
        # the same bytes are kept verbatim when the field is unknown
        assert bytes(Nothing().parse(wire)) == wire
        # a truncated message is reported, never silently accepted
        for cut in {1, len(wire) - 1} - {0, len(wire)}:
            try:
                Scalars().parse(wire[:cut])
            except EOFError:
                pass
            else:
                raise AssertionError((name, v, cut))
        count += 1
assert count > 600

# all fields at once, in google's order, then parsed field by field
full = RefScalars(**{"f_" + n: SAMPLES[n][0] for n, _ in KINDS}).SerializeToString()
assert bytes(Scalars(**{"f_" + n: SAMPLES[n][0] for n, _ in KINDS})) == full
got, err = check(full)
assert err is None and [f[0] for f in got] == list(range(1, 16))
assert [f[1] for f in got] == [1, 5, 0, 0, 0, 0, 0, 0, 5, 1, 5, 1, 0, 2, 2]

print("C16 keep1 equiv: OK")
