"""Equivalence script for the refactoring of betterproto.plugin.models.is_map and
MapEntryCompiler.__post_init__ (the duplicated "<field>entry" matching was extracted
into shared helpers, is_map got guard clauses).

Part 1 calls is_map() directly on thousands of synthetic (field, parent) pairs and
compares with an oracle written from the documented rule: a field is a map iff it is
of message type, its type name's last segment equals <field name>Entry (ignoring case
and underscores) and the parent has a nested message of that (normalised) name that
carries options.map_entry.

Part 2 runs the whole plugin (ruff stubbed out) on schemas compiled by
grpc_tools.protoc with maps over every legal key kind and every value kind (scalars,
enums, messages, wrappers, Timestamp/Duration), awkward field names, look-alike
non-map fields, and checks every field's cardinality / map key / map value against the
descriptors protoc produced.  Finally the generated sources are compared byte for byte
with a digest recorded on the reference tree.
"""
import dataclasses
import datetime
import hashlib
import importlib
import itertools
import os
import random
import sys
import tempfile
import typing

from google.protobuf import descriptor_pb2
from google.protobuf.compiler import plugin_pb2
from grpc_tools import protoc as grpc_protoc

import betterproto
import betterproto.plugin.compiler as plugin_compiler
from betterproto.lib.google import protobuf as bp_pb
from betterproto.lib.google.protobuf import (
    DescriptorProto,
    FieldDescriptorProto,
    FieldDescriptorProtoLabel,
    FieldDescriptorProtoType,
    MessageOptions,
)
from betterproto.lib.google.protobuf.compiler import CodeGeneratorRequest
from betterproto.plugin.models import is_map, monkey_patch_oneof_index
from betterproto.plugin.parser import generate_code

plugin_compiler.subprocess.check_output = lambda cmd, input, encoding: input
monkey_patch_oneof_index()

FDP = descriptor_pb2.FieldDescriptorProto


# --------------------------------------------------------------------------- part 1
def norm(name):
    return name.replace("_", "").lower()


def oracle_is_map(field, parent):
    if field.type != 11:
        return False
    if not hasattr(parent, "nested_type"):
        return False
    if field.type_name.split(".")[-1].lower() != norm(field.name) + "entry":
        return False
    return any(
        norm(n.name) == norm(field.name) + "entry" and bool(n.options.map_entry)
        for n in parent.nested_type
    )


FIELD_NAMES = ["foo", "foo_bar", "fooBar", "FOO", "f_1", "_x", "x_", "a__b", "entry", "map", "values", "Foo_Bar"]
ENTRY_SPELLINGS = [
    lambda f: "".join(p.capitalize() for p in f.split("_")) + "Entry",  # protoc's spelling
    lambda f: f + "Entry",
    lambda f: f.upper() + "ENTRY",
    lambda f: f.replace("_", "") + "entry",
    lambda f: f + "_Entry",
    lambda f: "_Outer_" + f + "Entry",  # as renamed by traverse() later on
    lambda f: f + "Entr",
    lambda f: f + "EntryX",
    lambda f: "Other",
]


class NoNested:
    """stands for the MessageCompiler that FieldCompiler.repeated passes as parent"""


def make_parent(nested_specs):
    return DescriptorProto(
        name="Outer",
        nested_type=[
            DescriptorProto(name=name, options=MessageOptions(map_entry=flag))
            if flag is not None
            else DescriptorProto(name=name)
            for name, flag in nested_specs
        ],
    )


rng = random.Random(31337)
checked = positives = 0
for fname in FIELD_NAMES:
    for type_spelling, nested_spelling in itertools.product(ENTRY_SPELLINGS, repeat=2):
        for ftype in (FieldDescriptorProtoType.TYPE_MESSAGE, FieldDescriptorProtoType.TYPE_ENUM,
                      FieldDescriptorProtoType.TYPE_STRING, FieldDescriptorProtoType.TYPE_GROUP):
            for flag in (True, False, None):
                for prefix in (".pkg.Outer.", "", "."):
                    field = FieldDescriptorProto(
                        name=fname,
                        number=1,
                        type=ftype,
                        label=FieldDescriptorProtoLabel.LABEL_REPEATED,
                        type_name=prefix + type_spelling(fname),
                    )
                    # decoys before and after the candidate
                    specs = [("Unrelated", None), (nested_spelling(fname), flag), ("ZEntry", True)]
                    rng.shuffle(specs)
                    parent = make_parent(specs)
                    before = bytes(parent), bytes(field)
                    got = is_map(field, parent)
                    assert type(got) is bool
                    assert got == oracle_is_map(field, parent), (fname, field.type_name, specs, ftype)
                    assert (bytes(parent), bytes(field)) == before  # nothing was modified
                    assert is_map(field, NoNested()) is False
                    checked += 1
                    positives += got
# the first of several look-alikes decides nothing: any flagged match makes it a map
for flags in itertools.product((True, False, None), repeat=3):
    parent = make_parent([("FooBarEntry", flags[0]), ("Foobar_Entry", flags[1]), ("FOOBARENTRY", flags[2])])
    field = FieldDescriptorProto(name="foo_bar", type=FieldDescriptorProtoType.TYPE_MESSAGE,
                                 type_name=".p.Outer.FooBarEntry")
    assert is_map(field, parent) == (True in flags) == oracle_is_map(field, parent)
    checked += 1
# empty parent / no nested types at all
assert is_map(FieldDescriptorProto(name="a", type=FieldDescriptorProtoType.TYPE_MESSAGE,
                                   type_name=".p.Outer.AEntry"), DescriptorProto(name="Outer")) is False
assert positives > 100 and checked - positives > 1000
print(f"part 1 OK: {checked} is_map() calls, {positives} maps")


# --------------------------------------------------------------------------- part 2
SCALARS = ["double", "float", "int32", "int64", "uint32", "uint64", "sint32", "sint64",
           "fixed32", "fixed64", "sfixed32", "sfixed64", "bool", "string", "bytes"]
MAP_KEYS = ["int32", "int64", "uint32", "uint64", "sint32", "sint64", "fixed32",
            "fixed64", "sfixed32", "sfixed64", "bool", "string"]
WRAPPERS = ["DoubleValue", "FloatValue", "Int32Value", "Int64Value", "UInt32Value",
            "UInt64Value", "BoolValue", "StringValue", "BytesValue"]

lines = [
    'syntax = "proto3";',
    "package mapz;",
    'import "google/protobuf/wrappers.proto";',
    'import "google/protobuf/timestamp.proto";',
    'import "google/protobuf/duration.proto";',
    "enum Kind { KIND_ZERO = 0; KIND_NEG = -1; }",
    "message Leaf { int32 x = 1; }",
    "// every key kind x every scalar value kind",
    "message AllScalars {",
]
n = 0
for k in MAP_KEYS:
    for v in SCALARS:
        n += 1
        lines.append(f"  map<{k}, {v}> m_{k}_{v} = {n};")
lines.append("}")
lines.append("message Others {")
lines.append("  message Inner { map<string, Inner> again = 1; Kind kind = 2; }")
lines.append("  enum Color { RED = 0; BLUE = 2; }")
n = 0
for k in MAP_KEYS:
    for v in ["Kind", "Color", "Leaf", "Inner", "Others", "google.protobuf.Timestamp",
              "google.protobuf.Duration"] + [f"google.protobuf.{w}" for w in WRAPPERS]:
        n += 1
        lines.append(f"  map<{k}, {v}> m{n} = {n};")
lines.append("}")
lines += [
    "// awkward field names and look-alikes that are NOT maps",
    "message Names {",
    "  message ItemsEntry { string key = 1; int32 value = 2; }   // hand written, no map_entry",
    "  message ThingEntry { repeated ThingEntry thing = 1; }",
    "  repeated ItemsEntry items = 1;",
    "  ItemsEntry items_entry = 2;",
    "  ThingEntry thing = 3;",
    "  map<string, int32> snake_case_name = 4;",
    "  map<int32, string> camelCaseName = 5;",
    "  map<bool, bytes> UPPER = 6;",
    "  map<string, Leaf> with_1_digit = 7;",
    "  map<string, Kind> x = 8;",
    "  map<string, string> entry = 9;",
    "  map<string, string> map = 10;",
    "  map<sint64, Names> self_ref = 11;",
    "  repeated Leaf leaves = 12;",
    "  optional Leaf maybe = 13;",
    "  repeated string values = 14;",
    "  map<string, google.protobuf.Int32Value> int = 15;",
    "  oneof choice { Leaf one = 16; string two = 17; ItemsEntry three = 18; }",
    "  map<fixed64, float> float = 19;",
    "  map<string, bool> a__b = 20;",
    "}",
]
MAIN = "\n".join(lines) + "\n"

# Two fields whose normalised names coincide (FooBarEntry / FoobarEntry).  The
# plugin's name matching cannot tell their entries apart; what it generates for them
# is only recorded in the digest below, not judged.
AMBIGUOUS = """
syntax = "proto3";
package ambi;
message Twins {
  map<string, int32> foo_bar = 1;
  map<int64, string> foobar = 2;
  map<bool, bool> other = 3;
}
"""


def compile_protos(files):
    with tempfile.TemporaryDirectory() as src:
        for name, text in files.items():
            with open(os.path.join(src, name), "w") as fh:
                fh.write(text)
        out = os.path.join(src, "fds.bin")
        wkt = os.path.join(os.path.dirname(grpc_protoc.__file__), "_proto")
        rc = grpc_protoc.main(
            ["protoc", f"-I{src}", f"-I{wkt}", "--include_imports",
             "--include_source_info", f"--descriptor_set_out={out}", *files]
        )
        assert rc == 0, "protoc rejected the schema"
        fds = descriptor_pb2.FileDescriptorSet()
        with open(out, "rb") as fh:
            fds.ParseFromString(fh.read())
    req = plugin_pb2.CodeGeneratorRequest(file_to_generate=list(files))
    req.proto_file.extend(fds.file)
    return fds, req


def index_schema(fds, package):
    messages, enums = {}, {}

    def walk(scope, msg):
        full = f"{scope}.{msg.name}"
        if msg.options.map_entry:
            return
        messages[full] = msg
        for e in msg.enum_type:
            enums[f"{full}.{e.name}"] = e
        for nmsg in msg.nested_type:
            walk(full, nmsg)

    for fd in fds.file:
        if fd.package != package:
            continue
        scope = "." + fd.package
        for e in fd.enum_type:
            enums[f"{scope}.{e.name}"] = e
        for m in fd.message_type:
            walk(scope, m)
    return messages, enums


DIGEST = hashlib.sha256()


def generate(files, package, options=""):
    fds, req = compile_protos(files)
    req.parameter = options
    request = CodeGeneratorRequest().parse(req.SerializeToString())
    response = generate_code(request)
    by_name = {f.name: f.content for f in response.file}
    for name in sorted(by_name):
        DIGEST.update(name.encode() + b"\0" + by_name[name].encode() + b"\0")
    outdir = tempfile.mkdtemp()
    for name, body in by_name.items():
        path = os.path.join(outdir, name)
        os.makedirs(os.path.dirname(path) or outdir, exist_ok=True)
        with open(path, "w") as fh:
            fh.write(body)
    sys.path.insert(0, outdir)
    try:
        for cached in [m for m in sys.modules if m == package or m.startswith(package + ".")]:
            del sys.modules[cached]
        mod = importlib.import_module(package)
    finally:
        sys.path.remove(outdir)
    return fds, mod


PY_SCALAR = {
    FDP.TYPE_DOUBLE: float, FDP.TYPE_FLOAT: float, FDP.TYPE_BOOL: bool,
    FDP.TYPE_STRING: str, FDP.TYPE_BYTES: bytes,
}
WELL_KNOWN = {
    ".google.protobuf.Timestamp": datetime.datetime,
    ".google.protobuf.Duration": datetime.timedelta,
}


def kind_name(fd):
    return FDP.Type.Name(fd.type)[5:].lower()


def check_module(fds, mod, package):
    messages, enums = index_schema(fds, package)
    classes = {
        name: c for name, c in vars(mod).items()
        if isinstance(c, type) and c.__module__ == mod.__name__
        and issubclass(c, (betterproto.Message, betterproto.Enum))
    }
    assert len(classes) == len(messages) + len(enums), (sorted(classes), sorted(messages), sorted(enums))
    n_maps = n_fields = 0
    # the corpus uses conventional type names, so Outer.Inner is class OuterInner
    for full, desc in messages.items():
        cls = classes["".join(full[len(package) + 2:].split("."))]
        fields = {f.metadata["betterproto"].number: f for f in dataclasses.fields(cls)}
        assert sorted(fields) == sorted(f.number for f in desc.field), full
        hints = typing.get_type_hints(cls, vars(mod))
        for fd in desc.field:
            n_fields += 1
            meta = fields[fd.number].metadata["betterproto"]
            hint = hints[fields[fd.number].name]
            entry = None
            if fd.type == FDP.TYPE_MESSAGE:
                entry = next(
                    (m for m in desc.nested_type
                     if m.options.map_entry and fd.type_name == f"{full}.{m.name}"), None)
            if entry is None:
                assert meta.proto_type == kind_name(fd) != "map", (full, fd.name, meta.proto_type)
                assert meta.map_types is None
                assert (typing.get_origin(hint) is list) == (fd.label == FDP.LABEL_REPEATED), (full, fd.name)
                assert bool(meta.optional) == fd.proto3_optional
                assert (meta.group is not None) == (fd.HasField("oneof_index") and not fd.proto3_optional)
                continue
            n_maps += 1
            key_fd, value_fd = entry.field
            assert meta.proto_type == "map", (full, fd.name, meta.proto_type)
            assert meta.map_types == (kind_name(key_fd), kind_name(value_fd)), (full, fd.name, meta.map_types)
            assert typing.get_origin(hint) is dict, (full, fd.name, hint)
            k_hint, v_hint = typing.get_args(hint)
            assert k_hint is PY_SCALAR.get(key_fd.type, int), (full, fd.name, k_hint)
            if value_fd.type == FDP.TYPE_MESSAGE:
                if value_fd.type_name in WELL_KNOWN:
                    assert v_hint is WELL_KNOWN[value_fd.type_name]
                elif value_fd.type_name.startswith(".google.protobuf."):
                    assert v_hint is getattr(bp_pb, value_fd.type_name.split(".")[-1]), (fd.name, v_hint)
                else:
                    assert v_hint is classes["".join(value_fd.type_name[len(package) + 2:].split("."))]
            elif value_fd.type == FDP.TYPE_ENUM:
                assert v_hint is classes["".join(value_fd.type_name[len(package) + 2:].split("."))]
            else:
                assert v_hint is PY_SCALAR.get(value_fd.type, int), (full, fd.name, v_hint)
        assert cls().parse(bytes(cls())) == cls()
    return n_fields, n_maps


total_fields = total_maps = 0
for options in ("", "typing.root", "typing.310", "pydantic_dataclasses"):
    fds, mod = generate({"mapz.proto": MAIN}, "mapz", options)
    if options == "pydantic_dataclasses":
        continue  # digest only: pydantic changes hints/optionality of oneof members
    n_fields, n_maps = check_module(fds, mod, "mapz")
    assert n_maps == len(MAP_KEYS) * (len(SCALARS) + 16) + 1 + 11, n_maps
    total_fields += n_fields
    total_maps += n_maps

    # a round trip through the wire format with real content in the maps
    by_number = {f.metadata["betterproto"].number: f.name for f in dataclasses.fields(mod.Names)}
    names = mod.Names(
        snake_case_name={"a": 1, "": 0},
        camel_case_name={-1: "x"},
        upper={True: b"\x00", False: b""},
        with_1_digit={"k": mod.Leaf(x=3)},
        x={"k": mod.Kind(-1)},
        self_ref={-5: mod.Names(values=["v"])},
        items=[mod.NamesItemsEntry(key="k", value=2)],
        thing=mod.NamesThingEntry(thing=[mod.NamesThingEntry()]),
        int={"w": bp_pb.Int32Value(value=7)},
        float={2**63: 1.5},
        **{by_number[20]: {"t": True}},
    )
    assert mod.Names().parse(bytes(names)) == names

fds, mod = generate({"ambi.proto": AMBIGUOUS}, "ambi")
twins = {f.name: f.metadata["betterproto"] for f in dataclasses.fields(mod.Twins)}
assert sorted(twins) == ["foo_bar", "foobar", "other"]
assert all(meta.proto_type == "map" for meta in twins.values())
assert twins["other"].map_types == ("bool", "bool")

print(f"part 2 OK: {total_fields} fields ({total_maps} maps) checked against protoc's descriptors")
print("digest of all generated files:", DIGEST.hexdigest())
assert DIGEST.hexdigest() == "cedc20631092f29402ae30f8f530b298cff9484e8a8fa3e3c494944852fb3a08", DIGEST.hexdigest()
print("equiv OK")
