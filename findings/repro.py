"""Concrete reproductions of the defects reported by the static rules on the pinned tree
(triage aid only - not part of any check). Run: /venv/bin/python findings/repro.py [n ...]
Each case prints OK (behaves per the property) or DEFECT."""
import sys, io, asyncio, copy, json
from dataclasses import dataclass
from datetime import timedelta, datetime, timezone
from typing import Dict, List, Optional
import betterproto
from betterproto import Message


class E(betterproto.Enum):
    ZERO = 0
    ONE = 1
    NEG = -1


@dataclass(eq=False, repr=False)
class Opt(Message):
    s: Optional[str] = betterproto.string_field(1, optional=True)


@dataclass(eq=False, repr=False)
class WithEnum(Message):
    e: E = betterproto.enum_field(1)


@dataclass(eq=False, repr=False)
class Rep(Message):
    xs: List[int] = betterproto.int32_field(1)


@dataclass(eq=False, repr=False)
class Old(Message):
    a: int = betterproto.int32_field(1)


@dataclass(eq=False, repr=False)
class New(Message):
    a: int = betterproto.int32_field(1)
    b: int = betterproto.int32_field(2)


@dataclass(eq=False, repr=False)
class Str(Message):
    s: str = betterproto.string_field(5)


@dataclass(eq=False, repr=False)
class OneOf(Message):
    a: Optional[int] = betterproto.int32_field(1, group="g", optional=True)
    b: Optional[int] = betterproto.int32_field(2, group="g", optional=True)


@dataclass(eq=False, repr=False)
class OneOfPlain(Message):
    a: int = betterproto.int32_field(1, group="g")
    b: str = betterproto.string_field(2, group="g")


@dataclass(eq=False, repr=False)
class Inner(Message):
    x: int = betterproto.int32_field(1)


@dataclass(eq=False, repr=False)
class Outer(Message):
    inner: Inner = betterproto.message_field(1)
    m: Dict[str, Inner] = betterproto.map_field(2, betterproto.TYPE_STRING, betterproto.TYPE_MESSAGE)


@dataclass(eq=False, repr=False)
class Dur(Message):
    d: timedelta = betterproto.message_field(1)


def case(n, name, ok):
    print(f"{n:2d} {'OK    ' if ok else 'DEFECT'} {name}")


def c1():
    m = Opt(s="")
    case(1, "len(m) == len(bytes(m)) for optional field at its type default", len(m) == len(bytes(m)))


def c2():
    m = WithEnum().parse(bytes(WithEnum(e=E.NEG)))
    case(2, "negative enum number survives binary round trip", m.e == -1)


def c3():
    m = Rep().parse(b"\x0a\x02\x01\x02\x0a\x01\x03")
    case(3, "two packed chunks are concatenated", m.xs == [1, 2, 3])


def c4():
    s = io.BytesIO()
    New(a=1, b=2).dump(s, betterproto.SIZE_DELIMITED)
    s.seek(0)
    try:
        m = Old().load(s, betterproto.SIZE_DELIMITED)
        case(4, "older-schema reader over a delimited stream", m.a == 1 and s.read() == b"")
    except Exception as e:
        case(4, f"older-schema reader over a delimited stream ({type(e).__name__}: {e})"[:110], False)


def c5():
    s = io.BytesIO()
    Old().dump(s, betterproto.SIZE_DELIMITED)
    Old(a=5).dump(s, betterproto.SIZE_DELIMITED)
    s.seek(0)
    first = Old().load(s, betterproto.SIZE_DELIMITED)
    case(5, "empty delimited message does not swallow the next one", first.a == 0 and s.tell() == 1)


def c6():
    data = bytes(Str(s="hello"))
    res = []
    for cut in range(1, len(data)):
        try:
            m = Str().parse(data[:cut])
            res.append(m.s == "hello" or (cut <= 0))
            if m.s not in ("hello",):
                res[-1] = False
        except Exception:
            res.append(True)
    case(6, "every proper prefix that cuts the payload is rejected", all(res))


def c7():
    try:
        m = Old().parse(b"\x0b")
        case(7, "wire type 3 (group) does not set a known field to None", m.a is not None)
    except Exception:
        case(7, "invalid wire type rejected", True)


def c8():
    try:
        Str().parse(b"\x00\x05")
        case(8, "field number 0 rejected", False)
    except Exception:
        case(8, "field number 0 rejected", True)


def c9():
    try:
        m = Str().parse(b"\x28\x05")
        case(9, "wire-type mismatch kept as unknown field", m.s == "" and bytes(m) == b"\x28\x05")
    except Exception as e:
        case(9, f"wire-type mismatch raised {type(e).__name__}", True)


def c10():
    async def run():
        from betterproto.grpc.util.async_channel import AsyncChannel
        ch = AsyncChannel()
        try:
            await asyncio.wait_for(ch.receive(), 0.01)
        except asyncio.TimeoutError:
            return True
        except ValueError:
            return False
        return False
    case(10, "timing out a blocked receiver surfaces as the timeout", asyncio.run(run()))


def c11():
    m = Outer(m={"k": Inner(x=1)})
    b0 = bytes(m)
    try:
        m.to_pydict()
        ok1 = bytes(m) == b0
    except Exception:
        ok1 = False
    try:
        OneOfPlain(a=1).to_pydict()
        ok2 = True
    except AttributeError:
        ok2 = False
    case(11, "to_pydict is pure and total over oneofs", ok1 and ok2)


def c12():
    m = New().parse(bytes(New(a=1, b=2)))
    o = Old().parse(bytes(m))
    ok1 = bytes(copy.copy(o)) == bytes(o) and bytes(copy.deepcopy(o)) == bytes(o)
    out = Outer().parse(b"\x0a\x00")
    ok2 = bytes(copy.deepcopy(out)) == bytes(out)
    case(12, "copy/deepcopy keep unknown fields and received-empty presence", ok1 and ok2)


def c13():
    from betterproto import _Duration
    d = _Duration.from_timedelta(timedelta(seconds=-1.5))
    ok1 = (d.seconds, d.nanos) == (-1, -500000000)
    big = timedelta(microseconds=9007199254999999)
    d2 = _Duration.from_timedelta(big)
    ok2 = d2.seconds * 10**6 + d2.nanos // 1000 == 9007199254999999
    case(13, "Duration parts have one sign and are exact beyond 2**53 us", ok1 and ok2)


def c14():
    from betterproto import _Duration
    case(14, "delta_to_json(10us) is decimal, not exponent form", _Duration.delta_to_json(timedelta(microseconds=10)) == "0.000010s")


def c15():
    try:
        d = WithEnum(e=E.try_value(7)).to_dict()
        case(15, "to_dict keeps an undefined enum number", d == {"e": 7})
    except ValueError:
        case(15, "to_dict keeps an undefined enum number", False)


@dataclass(eq=False, repr=False)
class Maps(Message):
    mb: Dict[str, bytes] = betterproto.map_field(1, betterproto.TYPE_STRING, betterproto.TYPE_BYTES)
    mi: Dict[str, int] = betterproto.map_field(2, betterproto.TYPE_STRING, betterproto.TYPE_INT64)
    wi: Optional[int] = betterproto.message_field(3, wraps=betterproto.TYPE_INT64)
    wb: Optional[bytes] = betterproto.message_field(4, wraps=betterproto.TYPE_BYTES)


def c16():
    res = {}
    try:
        Maps(mb={"k": b"\x00"}).to_json()
        res["map<string,bytes>"] = True
    except TypeError:
        res["map<string,bytes>"] = False
    res["map<string,int64> as string"] = Maps(mi={"k": 2**60}).to_dict().get("mi") == {"k": str(2**60)}
    res["Int64Value as string"] = Maps(wi=2**60).to_dict().get("wi") == str(2**60)
    try:
        Maps(wb=b"\x00").to_json()
        res["BytesValue"] = True
    except TypeError:
        res["BytesValue"] = False
    case(16, f"map values / wrappers follow the JSON mapping {res}", all(res.values()))


def c18():
    from betterproto.compile.naming import pythonize_class_name
    import keyword
    case(18, "pythonize_class_name never yields a keyword", not any(keyword.iskeyword(pythonize_class_name(n)) for n in ("none", "true", "false", "None")))


def c19():
    from betterproto.plugin.models import FieldCompiler
    from betterproto.lib.google.protobuf import FieldDescriptorProto
    class FC(FieldCompiler):
        def __init__(self, t): self.__dict__["proto_obj"] = FieldDescriptorProto(type_name=t)
    try:
        w = FC.field_wraps.fget(FC(".google.protobuf.EnumValue"))
    except Exception as e:
        w = repr(e)
    case(19, "google.protobuf.EnumValue is not treated as a wrapper type", w is None)


def c20():
    try:
        m = Str().parse(b"\xa0")
        case(20, "input cut inside a multi-byte tag is rejected", False)
    except Exception:
        case(20, "input cut inside a multi-byte tag is rejected", True)


def c21():
    m = OneOf(a=1)
    m.b = 2
    case(21, "is_set is False for a displaced oneof member declared optional", m.is_set("a") is False and m.is_set("b") is True)


if __name__ == "__main__":
    which = [int(x) for x in sys.argv[1:]] or [1, 2, 3, 4, 5, 6, 7, 8, 9, 10, 11, 12, 13, 14, 15, 16, 18, 19, 20, 21]
    for n in which:
        try:
            globals()[f"c{n}"]()
        except Exception as e:
            print(f"{n:2d} ERROR  {type(e).__name__}: {e}")
