"""Triage / discovery tool (NOT a registered check): structured wire mutations at the top level of valid encodings
(C08 unknown-field insertion, C17 wire-type substitution, truncation), betterproto vs google.protobuf.
usage: fuzz_struct.py [n] [seed]"""
import sys, random, os, struct
N = int(sys.argv[1]) if len(sys.argv) > 1 else 1500
SEED = int(sys.argv[2]) if len(sys.argv) > 2 else 1
sys.argv = [sys.argv[0], "0", str(SEED)]
import importlib.util
spec = importlib.util.spec_from_file_location("ft", os.path.join(os.path.dirname(os.path.abspath(__file__)), "fuzz_triage.py"))
ft = importlib.util.module_from_spec(spec); sys.modules["ft"] = ft
spec.loader.exec_module(ft)
from google.protobuf.message import DecodeError
import betterproto
from betterproto import encode_varint, parse_fields

R = random.Random(SEED)
M, Ref = ft.M, ft.Ref
KNOWN = set(M._betterproto.field_name_by_number)
bad = {}


def note(kind, x, detail=""):
    bad.setdefault(kind, [])
    if len(bad[kind]) < 5:
        bad[kind].append((x, detail))


def payload(wt):
    if wt == 0:
        return encode_varint(R.choice([0, 1, 127, 128, 2**32, 2**64 - 1, R.randrange(2**64)]))
    if wt == 1:
        return bytes(R.randrange(256) for _ in range(8))
    if wt == 5:
        return bytes(R.randrange(256) for _ in range(4))
    body = bytes(R.randrange(256) for _ in range(R.choice([0, 1, 2, 7, 130])))
    return encode_varint(len(body)) + body


def unknown_number():
    while True:
        n = R.choice([R.randint(1, 300), R.randint(1, 2**29 - 1), 2**29 - 1, 19000])
        if n not in KNOWN:
            return n


def same(r, r2):
    return r == r2


for _ in range(N):
    kw = ft.build()
    try:
        m = M(**kw)
        x = bytes(m)
        fs = list(parse_fields(x))
    except Exception as ex:
        note("valid message cannot be encoded", b"", repr(ex)[:100]); continue
    # (a) insertion of 1-3 unknown fields
    parts = [f.raw for f in fs]
    ins = []
    for _k in range(R.randint(1, 3)):
        wt = R.choice([0, 1, 2, 5])
        u = encode_varint((unknown_number() << 3) | wt) + payload(wt)
        pos = R.randint(0, len(parts))
        parts.insert(pos, u)
        ins.append(u)
    xa = b"".join(parts)
    try:
        ma = M().parse(xa)
        if ma != m and bytes(M().parse(x)) == x:
            # equality ignores unknown fields? compare known values
            if ma.to_pydict() != M().parse(x).to_pydict():
                note("C08 unknown field disturbed known fields", xa)
        ya = bytes(ma)
        unk = b"".join(p for p in parts if p in ins)
        if not ya.endswith(unk) and ma._unknown_fields != unk:
            note("C08 unknown bytes not re-emitted byte-for-byte", xa, f"{ma._unknown_fields.hex()} vs {unk.hex()}")
        if len(ma) != len(ya):
            note("C09 len with unknown fields", xa)
        if not same(Ref.FromString(xa), Ref.FromString(ya)):
            note("C08 reference reads the pass-through differently", xa)
    except DecodeError as ex:
        pass
    except Exception as ex:
        note("C08 insertion makes betterproto raise", xa, repr(ex)[:120])
    # (b) wire-type substitution on one known top-level field
    if fs:
        i = R.randrange(len(fs))
        f = fs[i]
        wt = R.choice([w for w in (0, 1, 2, 5) if w != f.wire_type])
        sub = encode_varint((f.number << 3) | wt) + payload(wt)
        xb = b"".join(p.raw for p in fs[:i]) + sub + b"".join(p.raw for p in fs[i + 1:])
        try:
            r = Ref.FromString(xb); ref_ok = True
        except DecodeError:
            ref_ok = False
        try:
            mb = M().parse(xb); bp_ok = True
        except Exception as ex:
            bp_ok = False; berr = repr(ex)
        name = M._betterproto.field_name_by_number.get(f.number)
        meta = M._betterproto.meta_by_field_name[name]
        if bp_ok:
            try:
                yb = bytes(mb)
            except Exception as ex:
                note("C17 decoded message cannot be encoded again", xb, repr(ex)[:100]); bp_ok = None
        if bp_ok and ref_ok:
            try:
                r2 = Ref.FromString(yb)
            except DecodeError:
                note("C02 reference rejects the re-encoding after substitution", xb); continue
            a, b = Ref.FromString(xb), Ref.FromString(yb)
            a.DiscardUnknownFields(); b.DiscardUnknownFields()
            if a != b:
                note("C17 wire-type substitution alters known fields (vs reference)", xb, f"{name} {meta.proto_type} wt {f.wire_type}->{wt}")
            elif r != r2:
                note("C17 substituted occurrence not kept as the same unknown field", xb, f"{name} {meta.proto_type} wt {f.wire_type}->{wt}")
        elif bp_ok != ref_ok:
            note(f"C17 accept/reject differs on substitution: ref_ok={ref_ok} bp_ok={bp_ok}", xb, f"{name} {meta.proto_type} wt {f.wire_type}->{wt} " + ("" if bp_ok else berr[:80]))
    # (c) truncation inside a field
    if len(x) > 1:
        cut = R.randrange(1, len(x))
        boundaries = set()
        pos = 0
        for f in fs:
            pos += len(f.raw); boundaries.add(pos)
        if cut not in boundaries:
            try:
                Ref.FromString(x[:cut]); ref_ok = True
            except DecodeError:
                ref_ok = False
            try:
                M().parse(x[:cut]); bp_ok = True
            except Exception:
                bp_ok = False
            if bp_ok:
                note(f"C17 truncated input accepted (ref_ok={ref_ok})", x[:cut])

for kind, items in bad.items():
    print("==", kind, len(items))
    for x, d in items[:5]:
        print("    ", x[:48].hex(), d)
print(f"{N} messages; {len(bad)} kinds")
