"""Triage tool (NOT a check): generated stub <-> generated server base over grpclib's in-memory test channel, all four
cardinalities, default UNIMPLEMENTED, GRPCError propagation, call-level vs stub-level timeout/metadata."""
import sys, os, asyncio, tempfile, importlib
sys.path.insert(0, os.environ.get("REPO_SRC", "/repo/src"))
from google.protobuf import descriptor_pb2 as dp, text_format
from google.protobuf.compiler import plugin_pb2
from betterproto.lib.google.protobuf.compiler import CodeGeneratorRequest
from betterproto.plugin import compiler as plugin_compiler
from betterproto.plugin.models import monkey_patch_oneof_index
from betterproto.plugin.parser import generate_code
import io, contextlib
import grpclib
from grpclib.testing import ChannelFor
monkey_patch_oneof_index()
plugin_compiler.subprocess.check_output = lambda cmd, input, encoding: input
SCHEMA = '''name: "svc.proto" package: "svc.v1" syntax: "proto3"
message_type { name: "Req" field { name: "n" number: 1 type: TYPE_INT32 label: LABEL_OPTIONAL } }
message_type { name: "Resp" field { name: "n" number: 1 type: TYPE_INT32 label: LABEL_OPTIONAL } }
service { name: "Calc"
  method { name: "Unary" input_type: ".svc.v1.Req" output_type: ".svc.v1.Resp" }
  method { name: "ServerStream" input_type: ".svc.v1.Req" output_type: ".svc.v1.Resp" server_streaming: true }
  method { name: "ClientStream" input_type: ".svc.v1.Req" output_type: ".svc.v1.Resp" client_streaming: true }
  method { name: "BidiHTTPStream" input_type: ".svc.v1.Req" output_type: ".svc.v1.Resp" client_streaming: true server_streaming: true }
  method { name: "NotImplementedOne" input_type: ".svc.v1.Req" output_type: ".svc.v1.Resp" }
  method { name: "NotImplementedStream" input_type: ".svc.v1.Req" output_type: ".svc.v1.Resp" server_streaming: true }
  method { name: "Fails" input_type: ".svc.v1.Req" output_type: ".svc.v1.Resp" }
}'''
bad = []
for param in ("", "typing.310", "pydantic_dataclasses"):
    fp = dp.FileDescriptorProto(); text_format.Parse(SCHEMA, fp)
    req = plugin_pb2.CodeGeneratorRequest(parameter=param); req.proto_file.append(fp); req.file_to_generate.append(fp.name)
    with contextlib.redirect_stderr(io.StringIO()):
        resp = generate_code(CodeGeneratorRequest().parse(req.SerializeToString()))
    tmp = tempfile.mkdtemp(prefix="vtgrpc_")
    root = "g" + str(abs(hash(param)) % 10000)
    for f in resp.file:
        p = os.path.join(tmp, root, f.name); os.makedirs(os.path.dirname(p), exist_ok=True); open(p, "w").write(f.content or "")
    for d, _, fs in os.walk(os.path.join(tmp, root)):
        if "__init__.py" not in fs: open(os.path.join(d, "__init__.py"), "w").close()
    sys.path.insert(0, tmp)
    mod = importlib.import_module(f"{root}.svc.v1")
    seen = {}

    class Impl(mod.CalcBase):
        async def unary(self, req):
            seen.setdefault("unary", []).append(req.n); return mod.Resp(n=req.n + 1)
        async def server_stream(self, req):
            for i in range(req.n):
                yield mod.Resp(n=i)
        async def client_stream(self, it):
            t = 0
            async for r in it:
                t += r.n
            return mod.Resp(n=t)
        async def bidi_http_stream(self, it):
            async for r in it:
                yield mod.Resp(n=r.n * 2)
        async def fails(self, req):
            raise grpclib.GRPCError(grpclib.const.Status.FAILED_PRECONDITION, "nope")

    async def main():
        async with ChannelFor([Impl()]) as ch:
            stub = mod.CalcStub(ch, timeout=30, metadata={"who": "stub"})
            r = await stub.unary(mod.Req(n=4))
            if r.n != 5 or seen["unary"] != [4]: bad.append((param, "unary", r, seen))
            out = [x.n async for x in stub.server_stream(mod.Req(n=3))]
            if out != [0, 1, 2]: bad.append((param, "server_stream", out))
            out0 = [x.n async for x in stub.server_stream(mod.Req(n=0))]
            if out0 != []: bad.append((param, "server_stream empty", out0))
            r = await stub.client_stream([mod.Req(n=1), mod.Req(n=2), mod.Req(n=0)])
            if r.n != 3: bad.append((param, "client_stream", r))
            out = [x.n async for x in stub.bidi_http_stream([mod.Req(n=1), mod.Req(n=0), mod.Req(n=5)])]
            if out != [2, 0, 10]: bad.append((param, "bidi", out))
            for name, call in (("unimplemented unary", lambda: stub.not_implemented_one(mod.Req())),):
                try:
                    await call(); bad.append((param, name, "no error"))
                except grpclib.GRPCError as e:
                    if e.status != grpclib.const.Status.UNIMPLEMENTED: bad.append((param, name, e.status))
            try:
                [x async for x in stub.not_implemented_stream(mod.Req())]; bad.append((param, "unimplemented stream", "no error"))
            except grpclib.GRPCError as e:
                if e.status != grpclib.const.Status.UNIMPLEMENTED: bad.append((param, "unimplemented stream", e.status))
            try:
                await stub.fails(mod.Req()); bad.append((param, "fails", "no error"))
            except grpclib.GRPCError as e:
                if e.status != grpclib.const.Status.FAILED_PRECONDITION or e.message != "nope": bad.append((param, "fails", e.status, e.message))
    asyncio.run(main())
print("mismatches:", bad)
sys.exit(1 if bad else 0)
