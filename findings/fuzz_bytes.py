"""Triage / discovery tool (NOT a registered check): mutated and random byte strings decoded by betterproto and by
google.protobuf on the schema of fuzz_triage.  Reports (a) inputs the reference rejects and betterproto accepts,
(b) accepted inputs whose re-encoding the reference reads differently, (c) decoded messages with ill-typed fields or that
cannot be encoded again (C17), (d) crashes other than ValueError/EOFError-like rejections.   usage: fuzz_bytes.py [n] [seed]"""
import sys, random
sys.argv_saved = sys.argv[:]
N = int(sys.argv[1]) if len(sys.argv) > 1 else 3000
SEED = int(sys.argv[2]) if len(sys.argv) > 2 else 1
sys.argv = [sys.argv[0], "0", str(SEED)]
import importlib.util, os
spec = importlib.util.spec_from_file_location("ft", os.path.join(os.path.dirname(__file__), "fuzz_triage.py"))
ft = importlib.util.module_from_spec(spec); sys.modules["ft"] = ft
spec.loader.exec_module(ft)
from google.protobuf.message import DecodeError
import betterproto, typing
from datetime import datetime, timedelta

R = random.Random(SEED)
M, Ref = ft.M, ft.Ref
hints = typing.get_type_hints(M)


def well_typed(m):
    for name, ann, _, (shape, vt) in ft.fields:
        try:
            v = getattr(m, name)
        except AttributeError:
            continue
        py = {"enum": int, "message": ft.Inner, "timestamp": datetime, "duration": timedelta}.get(vt, ft.PY.get(vt, int))
        if py is float:
            py = (float, int)
        def ok(x):
            return isinstance(x, py) and not (py is int and isinstance(x, bool) and vt != "bool")
        if shape in ("singular", "oneof"):
            if not ok(v) and not (v is None and vt in ("message", "timestamp", "duration")):
                return f"{name}={v!r}"
        elif shape in ("optional", "wrap"):
            if v is not None and not ok(v):
                return f"{name}={v!r}"
        elif shape == "repeated":
            if not isinstance(v, list) or not all(ok(x) for x in v):
                return f"{name}={v!r}"
        elif shape in ("mapv",):
            if not isinstance(v, dict) or not all(ok(x) for x in v.values()):
                return f"{name}={v!r}"
    return None


def mutate(b):
    b = bytearray(b)
    k = R.random()
    if not b:
        return bytes(R.randrange(256) for _ in range(R.randint(1, 6)))
    if k < 0.3:
        return bytes(b[:R.randrange(len(b))])
    if k < 0.6:
        i = R.randrange(len(b)); b[i] = R.randrange(256); return bytes(b)
    if k < 0.75:
        i = R.randrange(len(b)); b[i] ^= 1 << R.randrange(8); return bytes(b)
    if k < 0.9:
        i = R.randrange(len(b) + 1); b[i:i] = bytes(R.randrange(256) for _ in range(R.randint(1, 4))); return bytes(b)
    return bytes(R.randrange(256) for _ in range(R.randint(1, 24)))


bad = {}
def note(kind, x, detail=""):
    bad.setdefault(kind, [])
    if len(bad[kind]) < 5:
        bad[kind].append((x, detail))

acc = rej = 0
for _ in range(N):
    kw = ft.build()
    try:
        x = mutate(bytes(M(**kw)))
    except Exception:
        continue
    try:
        r = Ref.FromString(x)
        ref_ok = True
    except DecodeError as ex:
        ref_ok, rerr = False, str(ex)
    try:
        m = M().parse(x)
        bp_ok = True
    except (ValueError, EOFError, UnicodeDecodeError, OverflowError) as ex:
        bp_ok, berr = False, repr(ex)
    except Exception as ex:
        bp_ok, berr = False, repr(ex)
        note("betterproto raises an unexpected exception type", x, repr(ex)[:150])
    if bp_ok:
        acc += 1
        wt = well_typed(m)
        if wt:
            note("C17 ill-typed field after decode", x, wt[:150])
        try:
            y = bytes(m)
        except Exception as ex:
            note("C17 decoded message cannot be encoded again", x, repr(ex)[:150])
            continue
        if len(m) != len(y):
            note("C09 len", x)
        if not ref_ok:
            note("reference rejects, betterproto accepts", x, rerr[:100])
        else:
            try:
                r2 = Ref.FromString(y)
                if r2 != r:
                    note("re-encoding read differently by reference (including unknown fields nested in map entries / wrappers)", x, "")
                    a, b = Ref.FromString(x), Ref.FromString(y)
                    a.DiscardUnknownFields(); b.DiscardUnknownFields()
                    if a != b:
                        note("C02 KNOWN fields read differently by reference after re-encoding", x, "")
            except DecodeError as ex:
                note("C02 reference rejects our re-encoding", x, str(ex)[:100])
    else:
        rej += 1
        if ref_ok:
            note("reference accepts, betterproto rejects", x, berr[:150])
for kind, items in bad.items():
    print("==", kind, len(items))
    for x, d in items[:5]:
        print("    ", x[:40].hex(), d)
print(f"{N} inputs, betterproto accepted {acc}, rejected {rej}; {len(bad)} kinds")
