"""Concrete reproduction of the recorded (not repaired) known findings K4 and K5 against google.protobuf.json_format.
Exit code 0 when every recorded finding still reproduces (i.e. the defect is still there), 1 when one no longer does."""
import sys, os, tempfile, importlib
sys.path.insert(0, os.environ.get("REPO_SRC", "/repo/src"))
from google.protobuf import descriptor_pb2 as dp, descriptor_pool, message_factory, json_format, text_format
from google.protobuf.compiler import plugin_pb2
from betterproto.lib.google.protobuf.compiler import CodeGeneratorRequest
from betterproto.plugin import compiler as plugin_compiler
from betterproto.plugin.models import monkey_patch_oneof_index
from betterproto.plugin.parser import generate_code
import io, contextlib
monkey_patch_oneof_index()
plugin_compiler.subprocess.check_output = lambda cmd, input, encoding: input

SCHEMA = '''name: "kf.proto" package: "kf" syntax: "proto3"
enum_type { name: "Color" value { name: "COLOR_UNSPECIFIED" number: 0 } value { name: "COLOR_RED" number: 1 } }
message_type { name: "M"
  field { name: "sha256sum" number: 1 type: TYPE_STRING label: LABEL_OPTIONAL }
  field { name: "UPPER_SNAKE" number: 2 type: TYPE_INT32 label: LABEL_OPTIONAL }
  field { name: "c" number: 3 type: TYPE_ENUM type_name: ".kf.Color" label: LABEL_OPTIONAL }
}'''
fp = dp.FileDescriptorProto(); text_format.Parse(SCHEMA, fp)
pool = descriptor_pool.DescriptorPool(); pool.AddSerializedFile(fp.SerializeToString())
Ref = message_factory.GetMessageClass(pool.FindMessageTypeByName("kf.M"))
req = plugin_pb2.CodeGeneratorRequest(); req.proto_file.append(fp); req.file_to_generate.append(fp.name)
with contextlib.redirect_stderr(io.StringIO()):
    resp = generate_code(CodeGeneratorRequest().parse(req.SerializeToString()))
tmp = tempfile.mkdtemp(prefix="vtkf_")
os.makedirs(os.path.join(tmp, "kf"))
for f in resp.file:
    if f.name == "kf/__init__.py":
        open(os.path.join(tmp, f.name), "w").write(f.content)
sys.path.insert(0, tmp)
kf = importlib.import_module("kf")
ok = True

def case(name, still_there, detail):
    global ok
    print(("REPRODUCED " if still_there else "NOT REPRODUCED ") + name + ": " + detail)
    ok = ok and still_there

text = kf.M(sha256_sum="x", upper_snake=1).to_json()
try:
    json_format.Parse(text, Ref()); rejected = False
except json_format.ParseError as e:
    rejected = True
case("K4", rejected, f"betterproto emits {text}; reference: {'ParseError' if rejected else 'accepted'}; canonical {json_format.MessageToJson(Ref(sha256sum='x', UPPER_SNAKE=1), indent=None)}")
text = kf.M(c=kf.Color.RED).to_json()
try:
    json_format.Parse(text, Ref()); rejected = False
except json_format.ParseError:
    rejected = True
try:
    kf.M().from_json('{"c": "COLOR_RED"}'); rejects_ref = False
except ValueError:
    rejects_ref = True
case("K5", rejected and rejects_ref, f"betterproto emits {text} (reference {'rejects' if rejected else 'accepts'}); from_json of canonical \"COLOR_RED\" {'raises ValueError' if rejects_ref else 'works'}")
import shutil; shutil.rmtree(tmp, ignore_errors=True)
sys.exit(0 if ok else 1)
