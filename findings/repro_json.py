"""Triage tool (not a check): cross-validates betterproto's JSON for maps of every key/value kind and wrappers
against google.protobuf.json_format, on concrete samples.  Used to confirm the J1/J2 findings and their repair."""
import sys, json, math
sys.path.insert(0, __import__("os").environ.get("REPO_SRC", "/repo/src"))
from dataclasses import dataclass, field, make_dataclass
from typing import Dict, Optional, List
from datetime import datetime, timedelta, timezone
import betterproto
from google.protobuf import descriptor_pb2, descriptor_pool, message_factory, json_format
from google.protobuf import wrappers_pb2, timestamp_pb2, duration_pb2  # noqa: registers the well-known types

FD = descriptor_pb2.FieldDescriptorProto
T = {"int32": FD.TYPE_INT32, "int64": FD.TYPE_INT64, "uint32": FD.TYPE_UINT32, "uint64": FD.TYPE_UINT64, "sint32": FD.TYPE_SINT32, "sint64": FD.TYPE_SINT64,
     "fixed32": FD.TYPE_FIXED32, "fixed64": FD.TYPE_FIXED64, "sfixed32": FD.TYPE_SFIXED32, "sfixed64": FD.TYPE_SFIXED64, "bool": FD.TYPE_BOOL,
     "string": FD.TYPE_STRING, "bytes": FD.TYPE_BYTES, "float": FD.TYPE_FLOAT, "double": FD.TYPE_DOUBLE}
KEYS = ["int32", "int64", "uint32", "uint64", "sint32", "sint64", "fixed32", "fixed64", "sfixed32", "sfixed64", "bool", "string"]
VALS = list(T) + ["enum", "message", "timestamp", "duration"]
WRAPS = {"double": "DoubleValue", "float": "FloatValue", "int64": "Int64Value", "uint64": "UInt64Value", "int32": "Int32Value", "uint32": "UInt32Value",
         "bool": "BoolValue", "string": "StringValue", "bytes": "BytesValue"}


class E(betterproto.Enum):
    ZERO = 0
    ONE = 1
    NEG = -1


@dataclass
class Inner(betterproto.Message):
    x: int = betterproto.int64_field(1)


fp = descriptor_pb2.FileDescriptorProto(name="vt_json.proto", package="vt", syntax="proto3",
                                        dependency=["google/protobuf/wrappers.proto", "google/protobuf/timestamp.proto", "google/protobuf/duration.proto"])
e = fp.enum_type.add(name="E")
for n, v in (("ZERO", 0), ("ONE", 1), ("NEG", -1)):
    e.value.add(name=n, number=v)
inner = fp.message_type.add(name="Inner")
inner.field.add(name="x", number=1, type=FD.TYPE_INT64, label=FD.LABEL_OPTIONAL)
msg = fp.message_type.add(name="M")
bp_fields = []
num = 0


def add_map(name, kt, vt):
    global num
    num += 1
    entry = msg.nested_type.add(name=f"{name.title().replace('_', '')}Entry")
    entry.options.map_entry = True
    entry.field.add(name="key", number=1, type=T[kt], label=FD.LABEL_OPTIONAL)
    f = entry.field.add(name="value", number=2, label=FD.LABEL_OPTIONAL)
    if vt == "enum":
        f.type, f.type_name, bt, py = FD.TYPE_ENUM, ".vt.E", betterproto.TYPE_ENUM, E
    elif vt == "message":
        f.type, f.type_name, bt, py = FD.TYPE_MESSAGE, ".vt.Inner", betterproto.TYPE_MESSAGE, Inner
    elif vt == "timestamp":
        f.type, f.type_name, bt, py = FD.TYPE_MESSAGE, ".google.protobuf.Timestamp", betterproto.TYPE_MESSAGE, datetime
    elif vt == "duration":
        f.type, f.type_name, bt, py = FD.TYPE_MESSAGE, ".google.protobuf.Duration", betterproto.TYPE_MESSAGE, timedelta
    else:
        f.type, bt, py = T[vt], vt, {"string": str, "bytes": bytes, "bool": bool, "float": float, "double": float}.get(vt, int)
    msg.field.add(name=name, number=num, type=FD.TYPE_MESSAGE, type_name=f".vt.M.{entry.name}", label=FD.LABEL_REPEATED)
    kpy = {"string": str, "bool": bool}.get(kt, int)
    bp_fields.append((name, Dict[kpy, py], betterproto.map_field(num, kt, bt)))


def add_wrap(name, t):
    global num
    num += 1
    msg.field.add(name=name, number=num, type=FD.TYPE_MESSAGE, type_name=f".google.protobuf.{WRAPS[t]}", label=FD.LABEL_OPTIONAL)
    py = {"string": str, "bytes": bytes, "bool": bool, "float": float, "double": float}.get(t, int)
    bp_fields.append((name, Optional[py], betterproto.message_field(num, wraps=t)))


for vt in VALS:
    add_map(f"mv_{vt}", "string", vt)
for kt in KEYS:
    add_map(f"mk_{kt}", kt, "string")
for t in WRAPS:
    add_wrap(f"w_{t}", t)

pool = descriptor_pool.Default()
pool.Add(fp)
Ref = message_factory.GetMessageClass(pool.FindMessageTypeByName("vt.M"))
M = dataclass(eq=False, repr=False)(type("M", (betterproto.Message,), {"__annotations__": {n: t for n, t, _ in bp_fields}, "__module__": __name__,
                                                                       **{n: f for n, _, f in bp_fields}}))

SAMPLE = {"int32": [-5, 0, 7], "int64": [-2**62, 0, 2**60], "uint32": [0, 2**32 - 1], "uint64": [0, 2**63 + 5], "sint32": [-7, 0], "sint64": [-2**61, 0, 3],
          "fixed32": [0, 9], "fixed64": [0, 2**63], "sfixed32": [-3, 0], "sfixed64": [-2**60, 0], "bool": [False, True], "string": ["", "héllo"],
          "bytes": [b"", b"\x00\xff\xfe"], "float": [0.0, 1.5, math.inf, -math.inf], "double": [0.0, -2.25, math.inf], "enum": [E.ZERO, E.ONE, E.NEG],
          "message": [Inner(), Inner(x=2**60)], "timestamp": [datetime(2020, 2, 3, 4, 5, 6, 7000, tzinfo=timezone.utc)], "duration": [timedelta(seconds=3, microseconds=500), timedelta(0)]}

bad = []
n = 0


def check(m, label):
    global n
    n += 1
    try:
        data = bytes(m)
        for casing in (betterproto.Casing.CAMEL, betterproto.Casing.SNAKE):
            d = m.to_dict(casing=casing)
            text = json.dumps(d)
            for back in (M().from_dict(d), M.from_dict(d), M().from_json(text)):
                if bytes(back) != data:
                    bad.append((label, "self round trip", casing.name, d))
        # betterproto -> reference
        r = json_format.Parse(m.to_json(), Ref())
        if r.SerializeToString(deterministic=True) != Ref.FromString(data).SerializeToString(deterministic=True):
            bad.append((label, "reference parses different message", m.to_json()))
        # reference -> betterproto
        rtext = json_format.MessageToJson(Ref.FromString(data))
        b = M().from_json(rtext)
        if Ref.FromString(bytes(b)).SerializeToString(deterministic=True) != Ref.FromString(data).SerializeToString(deterministic=True):
            bad.append((label, "reference JSON read differently", rtext))
    except Exception as ex:
        bad.append((label, f"{type(ex).__name__}: {ex}"))


for vt in VALS:
    for v in SAMPLE[vt]:
        check(M(**{f"mv_{vt}": {"k": v, "": v}}), f"map<string,{vt}>={v!r}")
for kt in KEYS:
    for k in SAMPLE[kt]:
        check(M(**{f"mk_{kt}": {k: "v"}}), f"map<{kt},string> key={k!r}")
for t in WRAPS:
    for v in SAMPLE[t]:
        check(M(**{f"w_{t}": v}), f"{WRAPS[t]}={v!r}")

for b in bad:
    print("MISMATCH", *b)
print(f"{n} samples, {len(bad)} mismatches")
sys.exit(1 if bad else 0)
